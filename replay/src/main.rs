//! Native replay / differential-validation oracle: runs the REAL marwood code on concrete inputs.
//! Protocol: one request per stdin line, one answer line per request.  Strings are hex-encoded UTF-8.
use marwood::cell::Cell;
use marwood::lex;
use marwood::number::Number;
use marwood::parse;
use marwood::syntax::ReplHighlighter;
use marwood::vm::Vm;
use num::bigint::BigInt;
use num::Rational32;
use std::io::{self, BufRead, Write};
use std::panic;
use std::str::FromStr;

#[cfg(feature = "hooks")]
mod state;

fn unhex(s: &str) -> String {
    let mut bytes = Vec::new();
    let b = s.as_bytes();
    let mut i = 0;
    while i + 1 < b.len() {
        bytes.push(u8::from_str_radix(&s[i..i + 2], 16).unwrap());
        i += 2;
    }
    String::from_utf8(bytes).expect("utf8")
}

fn hex(s: &str) -> String {
    let mut out = String::new();
    for b in s.as_bytes() {
        out.push_str(&format!("{:02x}", b));
    }
    if out.is_empty() {
        out.push('-');
    }
    out
}

fn unhex_arg(s: &str) -> String {
    if s == "-" {
        String::new()
    } else {
        unhex(s)
    }
}

fn parse_num(s: &str) -> Number {
    let (k, v) = s.split_at(2);
    match k {
        "F:" => Number::Fixnum(v.parse::<i64>().unwrap()),
        "D:" => Number::Float(f64::from_bits(u64::from_str_radix(v, 16).unwrap())),
        "B:" => Number::new_bigint(BigInt::from_str(v).unwrap()),
        "R:" => {
            let (n, d) = v.split_once('/').unwrap();
            // new_raw: the caller passes reduced pairs with d > 0 (the representation invariant)
            Number::Rational(Rational32::new_raw(n.parse().unwrap(), d.parse().unwrap()))
        }
        _ => panic!("bad number repr {}", s),
    }
}

fn show_num(n: &Number) -> String {
    match n {
        Number::Fixnum(v) => format!("F:{}", v),
        Number::Float(v) => format!("D:{:016x}", v.to_bits()),
        Number::BigInt(v) => format!("B:{}", v),
        Number::Rational(v) => format!("R:{}/{}", v.numer(), v.denom()),
    }
}

fn show_opt(n: Option<Number>) -> String {
    match n {
        Some(n) => show_num(&n),
        None => "NONE".into(),
    }
}

fn num_op(op: &str, args: &[&str]) -> String {
    let a = parse_num(args[0]);
    let b = || parse_num(args[1]);
    match op {
        "add" => show_num(&(&a + &b())),
        "sub" => show_num(&(&a - &b())),
        "mul" => show_num(&(&a * &b())),
        "div" => show_num(&(&a / &b())),
        "quotient" => show_opt(a.quotient(&b())),
        "rem" => show_opt(&a % &b()),
        "modulo" => show_opt(a.modulo(&b())),
        "eq" => format!("{}", a == b()),
        "cmp" => format!("{:?}", a.partial_cmp(&b())),
        "lt" => format!("{}", a < b()),
        "le" => format!("{}", a <= b()),
        "gt" => format!("{}", a > b()),
        "ge" => format!("{}", a >= b()),
        "abs" => show_num(&a.abs()),
        "floor" => show_num(&a.floor()),
        "ceil" => show_num(&a.ceil()),
        "truncate" => show_num(&a.truncate()),
        "round" => show_num(&a.round()),
        "numerator" => show_num(&a.numerator()),
        "denominator" => show_num(&a.denominator()),
        "pow" => show_num(&a.pow(args[1].parse::<u32>().unwrap())),
        "to_usize" => format!("{:?}", a.to_usize()),
        "to_i64" => format!("{:?}", a.to_i64()),
        "to_u64" => format!("{:?}", a.to_u64()),
        "to_u32" => format!("{:?}", a.to_u32()),
        "to_exact" => show_opt(a.to_exact()),
        "to_inexact" => show_opt(a.to_inexact()),
        "is_integer" => format!("{}", a.is_integer()),
        "display" => hex(&format!("{}", a)),
        "hex" => hex(&format!("{:x}", a)),
        "octal" => hex(&format!("{:o}", a)),
        "binary" => hex(&format!("{:b}", a)),
        _ => format!("UNKNOWN-OP {}", op),
    }
}

/// canonical, unambiguous printing of a datum (code points instead of escapes)
fn canon(c: &Cell) -> String {
    match c {
        Cell::String(s) => format!("S[{}]", s.chars().map(|c| (c as u32).to_string()).collect::<Vec<_>>().join(",")),
        Cell::Symbol(s) => format!("Y[{}]", s.chars().map(|c| (c as u32).to_string()).collect::<Vec<_>>().join(",")),
        Cell::Char(c) => format!("C{}", *c as u32),
        Cell::Number(Number::Fixnum(n)) => format!("I{}", n),
        Cell::Number(n) => format!("M{}", show_num(n)),
        Cell::Bool(b) => format!("B{}", *b as u8),
        Cell::Nil => "N".into(),
        Cell::Void => "V".into(),
        Cell::Undefined => "U".into(),
        Cell::Vector(v) => format!("#({})", v.iter().map(canon).collect::<Vec<_>>().join(" ")),
        Cell::Pair(_, _) => {
            let mut items = vec![];
            let mut cur = c;
            loop {
                match cur {
                    Cell::Pair(car, cdr) => {
                        items.push(canon(car));
                        cur = cdr;
                    }
                    Cell::Nil => return format!("({})", items.join(" ")),
                    other => return format!("({} . {})", items.join(" "), canon(other)),
                }
            }
        }
        Cell::Procedure(_) => "P".into(),
        Cell::Continuation => "K".into(),
        Cell::Macro => "MACRO".into(),
    }
}

fn token_name(t: &lex::TokenType) -> String {
    format!("{:?}", t)
}

fn handle(vm: &mut Option<Vm>, line: &str) -> String {
    let parts: Vec<&str> = line.split_whitespace().collect();
    if parts.is_empty() {
        return "EMPTY".into();
    }
    match parts[0] {
        "lex" => {
            let text = unhex_arg(parts[1]);
            match lex::scan(&text) {
                Ok(tokens) => {
                    let mut out = format!("OK {}", tokens.len());
                    for t in tokens {
                        out.push_str(&format!(" {},{},{}", t.span.0, t.span.1, token_name(&t.token_type)));
                    }
                    out
                }
                Err(e) => format!("ERR {:?}", e).replace('\n', "\\n"),
            }
        }
        "hl" => {
            let text = unhex_arg(parts[1]);
            let idx: usize = parts[2].parse().unwrap();
            let h = ReplHighlighter::new();
            format!("OK {}", hex(&h.highlight(&text, idx)))
        }
        "hlcheck" => {
            let text = unhex_arg(parts[1]);
            let idx: usize = parts[2].parse().unwrap();
            let h = ReplHighlighter::new();
            format!("OK {}", h.highlight_check(&text, idx))
        }
        "parse" => {
            let text = unhex_arg(parts[1]);
            match parse::parse_text(&text) {
                Ok((cell, rest)) => format!(
                    "OK {} {} {}",
                    hex(&format!("{:#}", cell)),
                    match rest {
                        Some(r) => format!("REST:{}", text.len() - r.len()),
                        None => "REST:NONE".into(),
                    },
                    hex(&format!("{:?}", cell))
                ),
                Err(e) => format!("ERR {} {}", hex(&format!("{:?}", e)), hex(&format!("{}", e))),
            }
        }
        "parsestr" => {
            let text = unhex_arg(parts[1]);
            match parse::parse_string(&text) {
                Ok(Cell::String(s)) => format!("OK {}", hex(&s)),
                Ok(other) => format!("OK? {:?}", other),
                Err(e) => format!("ERR {}", hex(&format!("{:?}", e))),
            }
        }
        "charinfo" => {
            let cp: u32 = parts[1].parse().unwrap();
            match char::from_u32(cp) {
                None => "NOCHAR".into(),
                Some(c) => format!(
                    "OK alpha={} ws={} numeric={} control={} lower={} upper={} len={} tolower={} toupper={}",
                    c.is_alphabetic(),
                    c.is_whitespace(),
                    c.is_numeric(),
                    c.is_control(),
                    c.is_lowercase(),
                    c.is_uppercase(),
                    c.len_utf8(),
                    c.to_lowercase().map(|x| format!("{}", x as u32)).collect::<Vec<_>>().join(","),
                    c.to_uppercase().map(|x| format!("{}", x as u32)).collect::<Vec<_>>().join(",")
                ),
            }
        }
        "num" => num_op(parts[1], &parts[2..]),
        "numparse" => {
            let text = unhex_arg(parts[1]);
            let radix: u32 = parts[2].parse().unwrap();
            show_opt(Number::parse(&text, radix))
        }
        "newvm" => {
            *vm = Some(Vm::new());
            "OK".into()
        }
        "eval" => {
            // evaluates every datum of the text in the persistent VM; prints the last result
            let text = unhex_arg(parts[1]);
            if vm.is_none() {
                *vm = Some(Vm::new());
            }
            let vm = vm.as_mut().unwrap();
            let mut rest: Option<&str> = Some(&text);
            let mut last = String::from("NOTHING");
            while let Some(t) = rest {
                match vm.eval_text(t) {
                    Ok((cell, r)) => {
                        last = format!("OK {}", hex(&format!("{:#}", cell)));
                        rest = r;
                    }
                    Err(e) => {
                        last = format!("ERR {} {}", hex(&format!("{:?}", e)), hex(&format!("{}", e)));
                        break;
                    }
                }
            }
            last
        }
        "trace" => {
            // number of frames of the stack trace the persistent VM reports for its last evaluation
            match vm.as_ref().and_then(|v| v.last_stacktrace()) {
                Some(t) => format!("FRAMES {}", t.frames.len()),
                None => "NOTRACE".into(),
            }
        }
        #[cfg(feature = "hooks")]
        "gcstep" => {
            // one collection from a fabricated state
            let sx = state::parse_sx(&unhex_arg(parts[1]));
            let mut v = state::build_vm(&sx);
            v.run_gc();
            format!("OK {}", hex(&state::dump_vm(&mut v)))
        }
        #[cfg(feature = "hooks")]
        "vmsteps" => {
            // n single instructions from a fabricated state; stops early at HALT or error
            let sx = state::parse_sx(&unhex_arg(parts[1]));
            let n: usize = parts[2].parse().unwrap();
            let mut v = state::build_vm(&sx);
            let mut status = String::from("RUNNING");
            let mut done = 0;
            for _ in 0..n {
                match v.verif_step() {
                    Ok(true) => {
                        status = "HALT".into();
                        done += 1;
                        break;
                    }
                    Ok(false) => done += 1,
                    Err(e) => {
                        status = format!("ERR:{}", hex(&format!("{:?}", e)));
                        done += 1;
                        break;
                    }
                }
            }
            format!("OK {} {} {}", status, done, hex(&state::dump_vm(&mut v)))
        }
        #[cfg(feature = "hooks")]
        "numfold" => {
            // (proc x0 x1 ..) in a real VM where the xi are globals holding EXACTLY the given numbers
            let proc = parts[1];
            let nums: Vec<Number> = parts[2..].iter().map(|s| parse_num(s)).collect();
            let mut v = Vm::new();
            let mut call = format!("({}", proc);
            for (i, n) in nums.iter().enumerate() {
                let name = format!("verif-x{}", i);
                v.eval_text(&format!("(define {} 0)", name)).unwrap();
                let sym = v.verif_heap().get_sym_ref(&Cell::Symbol(name.clone())).unwrap().as_ptr().unwrap();
                let slot = v.verif_globenv().get_binding(sym);
                v.verif_globenv().put_slot(slot, marwood::vm::vcell::VCell::Number(n.clone()));
                call.push(' ');
                call.push_str(&name);
            }
            call.push(')');
            match v.eval_text(&call) {
                Ok((Cell::Number(n), _)) => format!("N:{}", show_num(&n)),
                Ok((c, _)) => canon(&c),
                Err(e) => format!("ERR {}", hex(&format!("{:?}", e))),
            }
        }
        #[cfg(feature = "hooks")]
        "script" => {
            // <state> op op ... : run:<count> (0 = run to completion) | setip:<lambda>:<offset> | gc
            // answers one summary per op and the final state
            let sx = state::parse_sx(&unhex_arg(parts[1]));
            let mut v = state::build_vm(&sx);
            let mut out = String::from("OK");
            for op in &parts[2..] {
                let f: Vec<&str> = op.split(':').collect();
                match f[0] {
                    "run" => {
                        let n: usize = f[1].parse().unwrap();
                        let before = state::dump_vm(&mut v);
                        let r = v.run_count(if n == 0 { usize::MAX } else { n });
                        let rs = match r {
                            Ok(Some(c)) => format!("VALUE:{}", hex(&canon(&c))),
                            Ok(None) => {
                                if state::dump_vm(&mut v) == before {
                                    "NONE-NOPROGRESS".into()
                                } else {
                                    "NONE".into()
                                }
                            }
                            Err(e) => format!("ERR:{}", hex(&format!("{:?}", e))),
                        };
                        let frames = v.last_stacktrace().map(|t| t.frames.len() as i64).unwrap_or(-1);
                        let (_, ep, _, bp) = v.verif_regs();
                        out.push_str(&format!(" {}/frames={}/sp={}/bp={}/ep={}", rs, frames, v.verif_stack().get_sp(), bp, ep));
                    }
                    "setip" => {
                        let (acc, ep, _, bp) = v.verif_regs();
                        v.verif_set_regs(acc, ep, (f[1].parse().unwrap(), f[2].parse().unwrap()), bp);
                    }
                    "gc" => v.run_gc(),
                    "used" => {
                        let u = v.verif_heap().used_size();
                        out.push_str(&format!(" USED:{}", u));
                    }
                    _ => out.push_str(" BADOP"),
                }
            }
            format!("{} {}", out, hex(&state::dump_vm(&mut v)))
        }
        #[cfg(feature = "hooks")]
        "runcount" => {
            // Vm::run_count(count) on a fabricated state
            let sx = state::parse_sx(&unhex_arg(parts[1]));
            let n: usize = parts[2].parse().unwrap();
            let mut v = state::build_vm(&sx);
            let r = v.run_count(n);
            let rs = match r {
                Ok(Some(c)) => format!("VALUE:{}", hex(&format!("{:#}", c))),
                Ok(None) => "NONE".into(),
                Err(e) => format!("ERR:{}", hex(&format!("{:?}", e))),
            };
            let frames = v.last_stacktrace().map(|t| t.frames.len() as i64).unwrap_or(-1);
            format!("OK {} {} {}", rs, frames, hex(&state::dump_vm(&mut v)))
        }
        #[cfg(feature = "hooks")]
        "retention" => {
            // evaluates the forms of <setup>, churns, measures the cells in use, evaluates <drop>, churns, measures again
            let setup = unhex_arg(parts[1]);
            let drop = unhex_arg(parts[2]);
            let mut v = Vm::new();
            let run = |v: &mut Vm, text: &str| -> Result<(), String> {
                let mut rest: Option<&str> = Some(text);
                while let Some(t) = rest {
                    match v.eval_text(t) {
                        Ok((_, r)) => rest = r,
                        Err(e) => return Err(format!("{:?}", e)),
                    }
                }
                Ok(())
            };
            let churn = "(define (churn n) (if (> n 0) (begin (cons n n) (churn (- n 1))) 0)) (churn 30000)";
            if let Err(e) = run(&mut v, &setup) {
                return format!("ERR {}", hex(&e));
            }
            if let Err(e) = run(&mut v, churn) {
                return format!("ERR {}", hex(&e));
            }
            v.run_gc();
            let used1 = v.verif_heap().used_size();
            if let Err(e) = run(&mut v, &drop) {
                return format!("ERR {}", hex(&e));
            }
            if let Err(e) = run(&mut v, "(churn 30000)") {
                return format!("ERR {}", hex(&e));
            }
            v.run_gc();
            let used2 = v.verif_heap().used_size();
            format!("OK {} {}", used1, used2)
        }
        "evalc" => {
            // like eval, canonical printing of the last result
            let text = unhex_arg(parts[1]);
            if vm.is_none() {
                *vm = Some(Vm::new());
            }
            let vm = vm.as_mut().unwrap();
            let mut rest: Option<&str> = Some(&text);
            let mut last = String::from("NOTHING");
            while let Some(t) = rest {
                match vm.eval_text(t) {
                    Ok((cell, r)) => {
                        last = format!("OK {}", canon(&cell));
                        rest = r;
                    }
                    Err(e) => {
                        last = format!("ERR {} {}", hex(&format!("{:?}", e)), hex(&format!("{}", e)));
                        break;
                    }
                }
            }
            last
        }
        other => format!("UNKNOWN {}", other),
    }
}

fn main() {
    panic::set_hook(Box::new(|_| {}));
    let stdin = io::stdin();
    let stdout = io::stdout();
    let mut vm: Option<Vm> = None;
    for line in stdin.lock().lines() {
        let line = line.unwrap();
        // the VM is moved into the closure and back so that a panic poisons nothing we reuse
        let mut local = vm.take();
        let res = panic::catch_unwind(panic::AssertUnwindSafe(|| {
            let r = handle(&mut local, &line);
            (r, local)
        }));
        let out = match res {
            Ok((r, v)) => {
                vm = v;
                r
            }
            Err(e) => {
                vm = None;
                let msg = if let Some(s) = e.downcast_ref::<&str>() {
                    s.to_string()
                } else if let Some(s) = e.downcast_ref::<String>() {
                    s.clone()
                } else {
                    "?".into()
                };
                format!("PANIC {}", msg.replace('\n', " "))
            }
        };
        let mut o = stdout.lock();
        writeln!(o, "{}", out).unwrap();
        o.flush().unwrap();
    }
}
