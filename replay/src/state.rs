//! S-expression encoding of VM states (see /verif/props/vmfab.py for the Python side).
//! Only built with the `hooks` feature (marwood/verif-hooks).
use marwood::number::Number;
use marwood::vm::continuation::Continuation;
use marwood::vm::environment::{BindingSource, EnvironmentMap, LexicalEnvironment};
use marwood::vm::gc::State;
use marwood::vm::lambda::Lambda;
use marwood::vm::opcode::OpCode;
use marwood::vm::stack::Stack;
use marwood::vm::vcell::VCell;
use marwood::vm::Vm;
use num::bigint::BigInt;
use std::rc::Rc;
use std::str::FromStr;

#[derive(Debug, Clone)]
pub enum Sx {
    Atom(String),
    List(Vec<Sx>),
}

pub fn parse_sx(text: &str) -> Sx {
    let toks: Vec<String> = text
        .replace('(', " ( ")
        .replace(')', " ) ")
        .split_whitespace()
        .map(|s| s.to_string())
        .collect();
    let mut pos = 0;
    let r = parse_at(&toks, &mut pos);
    r
}

fn parse_at(toks: &[String], pos: &mut usize) -> Sx {
    let t = &toks[*pos];
    *pos += 1;
    if t == "(" {
        let mut v = vec![];
        while toks[*pos] != ")" {
            v.push(parse_at(toks, pos));
        }
        *pos += 1;
        Sx::List(v)
    } else {
        Sx::Atom(t.clone())
    }
}

impl Sx {
    fn atom(&self) -> &str {
        match self {
            Sx::Atom(s) => s,
            _ => panic!("expected atom, got {:?}", self),
        }
    }
    fn list(&self) -> &[Sx] {
        match self {
            Sx::List(v) => v,
            _ => panic!("expected list, got {:?}", self),
        }
    }
    fn usize(&self) -> usize {
        self.atom().parse::<usize>().unwrap()
    }
    fn head(&self) -> &str {
        match self {
            Sx::Atom(s) => s,
            Sx::List(v) => v[0].atom(),
        }
    }
    fn arg(&self, i: usize) -> &Sx {
        &self.list()[i + 1]
    }
    fn args(&self) -> &[Sx] {
        &self.list()[1..]
    }
}

fn unhex(s: &str) -> String {
    if s == "-" {
        return String::new();
    }
    let mut bytes = Vec::new();
    let mut i = 0;
    while i + 1 < s.len() + 1 && i + 2 <= s.len() {
        bytes.push(u8::from_str_radix(&s[i..i + 2], 16).unwrap());
        i += 2;
    }
    String::from_utf8(bytes).unwrap()
}

fn hex(s: &str) -> String {
    if s.is_empty() {
        return "-".into();
    }
    s.as_bytes().iter().map(|b| format!("{:02x}", b)).collect()
}

fn opcode(name: &str) -> OpCode {
    match name {
        "Cons" => OpCode::Cons,
        "Jmp" => OpCode::Jmp,
        "Jnt" => OpCode::Jnt,
        "Mov" => OpCode::Mov,
        "MovImmediate" => OpCode::MovImmediate,
        "Push" => OpCode::Push,
        "PushAcc" => OpCode::PushAcc,
        "PushImmediate" => OpCode::PushImmediate,
        "Halt" => OpCode::Halt,
        "VPushAcc" => OpCode::VPushAcc,
        "CallAcc" => OpCode::CallAcc,
        "ClosureAcc" => OpCode::ClosureAcc,
        "Enter" => OpCode::Enter,
        "Ret" => OpCode::Ret,
        "TCallAcc" => OpCode::TCallAcc,
        "VarArg" => OpCode::VarArg,
        _ => panic!("opcode {}", name),
    }
}

fn binding_source(sx: &Sx) -> BindingSource {
    match sx.head() {
        "Global" => BindingSource::Global,
        "InternalDefinition" => BindingSource::InternalDefinition,
        "Argument" => BindingSource::Argument(sx.arg(0).usize()),
        "IofArgument" => BindingSource::IofArgument(sx.arg(0).usize()),
        "IofEnvironment" => BindingSource::IofEnvironment(sx.arg(0).usize()),
        other => panic!("binding source {}", other),
    }
}

fn show_binding_source(b: &BindingSource) -> String {
    match b {
        BindingSource::Global => "Global".into(),
        BindingSource::InternalDefinition => "InternalDefinition".into(),
        BindingSource::Argument(n) => format!("(Argument {})", n),
        BindingSource::IofArgument(n) => format!("(IofArgument {})", n),
        BindingSource::IofEnvironment(n) => format!("(IofEnvironment {})", n),
    }
}

fn stack_of(sx: &Sx) -> Stack {
    // (stack <sp> c0 c1 ...)
    let sp = sx.arg(0).usize();
    let cells: Vec<VCell> = sx.args()[1..].iter().map(vcell).collect();
    Stack::verif_new(cells, sp)
}

/// the built-in procedure bound to `name` in a freshly constructed VM (the same `BuiltInProc` value the compiler would load)
fn builtin(name: &str) -> VCell {
    let mut vm = Vm::new();
    let sym = vm
        .verif_heap()
        .verif_symbol_table()
        .into_iter()
        .find(|(k, _)| k == name)
        .map(|(_, v)| v)
        .unwrap_or_else(|| panic!("builtin {}: no such symbol", name));
    let slot = vm
        .verif_globenv()
        .verif_bindings()
        .into_iter()
        .find(|(k, _)| *k == sym)
        .map(|(_, v)| v)
        .unwrap_or_else(|| panic!("builtin {}: unbound", name));
    let v = vm.verif_globenv().verif_slots()[slot].clone();
    let v = vm.verif_heap().get(&v);
    match v {
        VCell::BuiltInProc(_) => v,
        other => panic!("builtin {}: bound to {:?}", name, other),
    }
}

pub fn vcell(sx: &Sx) -> VCell {
    match sx.head() {
        "undef" => VCell::Undefined,
        "void" => VCell::Void,
        "nil" => VCell::Nil,
        "acc" => VCell::Acc,
        "bool" => VCell::Bool(sx.arg(0).atom() == "1"),
        "char" => VCell::Char(char::from_u32(sx.arg(0).atom().parse().unwrap()).unwrap()),
        "fix" => VCell::Number(Number::Fixnum(sx.arg(0).atom().parse().unwrap())),
        "flo" => VCell::Number(Number::Float(f64::from_bits(u64::from_str_radix(sx.arg(0).atom(), 16).unwrap()))),
        "big" => VCell::Number(Number::new_bigint(BigInt::from_str(sx.arg(0).atom()).unwrap())),
        "rat" => VCell::Number(Number::Rational(num::Rational32::new_raw(
            sx.arg(0).atom().parse().unwrap(),
            sx.arg(1).atom().parse().unwrap(),
        ))),
        "str" => VCell::string(unhex(sx.arg(0).atom())),
        "sym" => VCell::symbol(unhex(sx.arg(0).atom())),
        "builtin" => builtin(&unhex(sx.arg(0).atom())),
        "pair" => VCell::Pair(sx.arg(0).usize(), sx.arg(1).usize()),
        "ptr" => VCell::Ptr(sx.arg(0).usize()),
        "closure" => VCell::Closure(sx.arg(0).usize(), sx.arg(1).usize()),
        "argc" => VCell::ArgumentCount(sx.arg(0).usize()),
        "bp" => VCell::BasePointer(sx.arg(0).usize()),
        "bpo" => VCell::BasePointerOffset(sx.arg(0).atom().parse().unwrap()),
        "ep" => VCell::EnvironmentPointer(sx.arg(0).usize()),
        "gslot" => VCell::GlobalEnvSlot(sx.arg(0).usize()),
        "ip" => VCell::InstructionPointer(sx.arg(0).usize(), sx.arg(1).usize()),
        "lslot" => VCell::LexicalEnvSlot(sx.arg(0).usize()),
        "lptr" => VCell::LexicalEnvPtr(sx.arg(0).usize(), sx.arg(1).usize()),
        "op" => VCell::OpCode(opcode(sx.arg(0).atom())),
        "vec" => VCell::vector(sx.args().iter().map(vcell).collect::<Vec<VCell>>()),
        "lexenv" => {
            let env = LexicalEnvironment::new(sx.args().len());
            for (i, c) in sx.args().iter().enumerate() {
                env.put(i, vcell(c));
            }
            VCell::LexicalEnv(Rc::new(env))
        }
        "lambda" => {
            // (lambda <vararg 0|1> <toplevel 0|1> (args ..) (bc ..) (env (cell src) ..))
            let mut l = Lambda::new(sx.arg(2).args().iter().map(vcell).collect());
            l.is_vararg = sx.arg(0).atom() == "1";
            l.top_level = sx.arg(1).atom() == "1";
            l.bc = sx.arg(3).args().iter().map(vcell).collect();
            l.envmap = EnvironmentMap::verif_new(
                sx.arg(4)
                    .args()
                    .iter()
                    .map(|e| (vcell(&e.list()[0]), binding_source(&e.list()[1])))
                    .collect(),
            );
            VCell::Lambda(Rc::new(l))
        }
        "cont" => {
            // (cont <ep> <ip0> <ip1> <bp> (stack sp cells..))
            let c = Continuation::verif_new(
                stack_of(sx.arg(4)),
                sx.arg(0).usize(),
                (sx.arg(1).usize(), sx.arg(2).usize()),
                sx.arg(3).usize(),
            );
            VCell::Continuation(Rc::new(c))
        }
        other => panic!("vcell kind {}", other),
    }
}

fn show_stack(s: &Stack) -> String {
    let mut out = format!("(stack {}", s.get_sp());
    for c in s.verif_cells() {
        out.push(' ');
        out.push_str(&show(c));
    }
    out.push(')');
    out
}

pub fn show(v: &VCell) -> String {
    match v {
        VCell::Undefined => "undef".into(),
        VCell::Void => "void".into(),
        VCell::Nil => "nil".into(),
        VCell::Acc => "acc".into(),
        VCell::Bool(b) => format!("(bool {})", *b as u8),
        VCell::Char(c) => format!("(char {})", *c as u32),
        VCell::Number(Number::Fixnum(n)) => format!("(fix {})", n),
        VCell::Number(Number::Float(f)) => format!("(flo {:016x})", f.to_bits()),
        VCell::Number(Number::BigInt(b)) => format!("(big {})", b),
        VCell::Number(Number::Rational(r)) => format!("(rat {} {})", r.numer(), r.denom()),
        VCell::String(s) => format!("(str {})", hex(&s.borrow())),
        VCell::Symbol(s) => format!("(sym {})", hex(s)),
        VCell::Pair(a, b) => format!("(pair {} {})", a, b),
        VCell::Ptr(p) => format!("(ptr {})", p),
        VCell::Closure(a, b) => format!("(closure {} {})", a, b),
        VCell::ArgumentCount(n) => format!("(argc {})", n),
        VCell::BasePointer(n) => format!("(bp {})", n),
        VCell::BasePointerOffset(n) => format!("(bpo {})", n),
        VCell::EnvironmentPointer(n) => format!("(ep {})", n),
        VCell::GlobalEnvSlot(n) => format!("(gslot {})", n),
        VCell::InstructionPointer(a, b) => format!("(ip {} {})", a, b),
        VCell::LexicalEnvSlot(n) => format!("(lslot {})", n),
        VCell::LexicalEnvPtr(a, b) => format!("(lptr {} {})", a, b),
        VCell::OpCode(op) => format!("(op {:?})", op),
        VCell::Vector(vec) => {
            let mut out = String::from("(vec");
            for i in 0..vec.len() {
                out.push(' ');
                out.push_str(&show(&vec.get(i).unwrap()));
            }
            out.push(')');
            out
        }
        VCell::LexicalEnv(env) => {
            let mut out = String::from("(lexenv");
            for i in 0..env.slot_len() {
                out.push(' ');
                out.push_str(&show(&env.get(i)));
            }
            out.push(')');
            out
        }
        VCell::Lambda(l) => {
            let mut out = format!("(lambda {} {} (args", l.is_vararg as u8, l.top_level as u8);
            for c in &l.args {
                out.push(' ');
                out.push_str(&show(c));
            }
            out.push_str(") (bc");
            for c in &l.bc {
                out.push(' ');
                out.push_str(&show(c));
            }
            out.push_str(") (env");
            for (c, src) in l.envmap.get_map() {
                out.push_str(&format!(" ({} {})", show(c), show_binding_source(src)));
            }
            out.push_str("))");
            out
        }
        VCell::Continuation(c) => format!(
            "(cont {} {} {} {} {})",
            c.ep(),
            c.ip().0,
            c.ip().1,
            c.bp(),
            show_stack(c.stack())
        ),
        VCell::BuiltInProc(p) => format!("(builtin {})", hex(p.desc())),
        VCell::Macro(_) => "macro".into(),
    }
}

fn gc_state(s: &str) -> State {
    match s {
        "0" => State::Free,
        "1" => State::Allocated,
        "2" => State::Used,
        _ => panic!("gc state {}", s),
    }
}

/// (vm (heap <chunk> (cells c..) (states s..) (free i..)) (stack sp c..) (acc c) (ep n) (ip a b) (bp n)
///     (globals (bindings (k v)..) (slots c..)))
pub fn build_vm(sx: &Sx) -> Vm {
    let mut heap_sx = None;
    let mut stack_sx = None;
    let mut acc = VCell::Undefined;
    let mut ep = usize::MAX;
    let mut ip = (usize::MAX, 0);
    let mut bp = 0;
    let mut globals_sx = None;
    for part in sx.args() {
        match part.head() {
            "heap" => heap_sx = Some(part.clone()),
            "stack" => stack_sx = Some(part.clone()),
            "acc" => acc = vcell(part.arg(0)),
            "ep" => ep = part.arg(0).usize(),
            "ip" => ip = (part.arg(0).usize(), part.arg(1).usize()),
            "bp" => bp = part.arg(0).usize(),
            "globals" => globals_sx = Some(part.clone()),
            other => panic!("vm part {}", other),
        }
    }
    let heap_sx = heap_sx.unwrap();
    let cells = heap_sx.arg(1).args();
    let states = heap_sx.arg(2).args();
    // Heap::new(chunk) allocates exactly `chunk` cells; the encoded heap has len(cells) == capacity
    let chunk = heap_sx.arg(0).usize();
    let mut vm = Vm::verif_bare(chunk);
    while vm.verif_heap().capacity() < cells.len() {
        vm.verif_heap().grow();
    }
    assert_eq!(vm.verif_heap().capacity(), cells.len(), "heap capacity must be reachable by grow()");
    for (i, c) in cells.iter().enumerate() {
        vm.verif_heap().verif_set_cell(i, vcell(c), gc_state(states[i].atom()));
    }
    vm.verif_heap()
        .verif_set_free_list(heap_sx.arg(3).args().iter().map(|x| x.usize()).collect());
    if let Some(s) = stack_sx {
        vm.verif_set_stack(stack_of(&s));
    }
    if let Some(g) = globals_sx {
        let bindings = g
            .arg(0)
            .args()
            .iter()
            .map(|kv| (kv.list()[0].usize(), kv.list()[1].usize()))
            .collect();
        let slots = g.arg(1).args().iter().map(vcell).collect();
        vm.verif_globenv().verif_set(bindings, slots);
    }
    vm.verif_set_regs(acc, ep, ip, bp);
    vm
}

pub fn dump_vm(vm: &mut Vm) -> String {
    let cap = vm.verif_heap().capacity();
    let chunk = vm.verif_heap().chunk_size();
    let mut out = format!("(vm (heap {} (cells", chunk);
    for i in 0..cap {
        out.push(' ');
        out.push_str(&show(vm.verif_heap().get_at_index(i)));
    }
    out.push_str(") (states");
    for i in 0..cap {
        let s = match vm.verif_heap().verif_state(i) {
            Some(State::Free) => 0,
            Some(State::Allocated) => 1,
            Some(State::Used) => 2,
            None => 9,
        };
        out.push_str(&format!(" {}", s));
    }
    out.push_str(") (free");
    for i in vm.verif_heap().verif_free_list() {
        out.push_str(&format!(" {}", i));
    }
    out.push_str(") (symtab");
    for (k, v) in vm.verif_heap().verif_symbol_table() {
        out.push_str(&format!(" ({} {})", hex(&k), v));
    }
    out.push_str(")) ");
    out.push_str(&show_stack(vm.verif_stack()));
    let (acc, ep, ip, bp) = vm.verif_regs();
    out.push_str(&format!(" (acc {}) (ep {}) (ip {} {}) (bp {})", show(&acc), ep, ip.0, ip.1, bp));
    out.push_str(" (globals (bindings");
    for (k, v) in vm.verif_globenv().verif_bindings() {
        out.push_str(&format!(" ({} {})", k, v));
    }
    out.push_str(") (slots");
    let slots: Vec<String> = vm.verif_globenv().verif_slots().iter().map(show).collect();
    for s in slots {
        out.push(' ');
        out.push_str(&s);
    }
    out.push_str(")))");
    out
}
