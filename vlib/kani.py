"""Engine K driver: runs Kani proof harnesses of /verif/kani (path dependency on /repo/marwood, i.e. the CURRENT tree)
in parallel, each with its own target dir, memory limit and time limit.  A timeout or out-of-memory run is
INCONCLUSIVE, never success."""
import os, re, subprocess, time, shutil, resource, concurrent.futures as cf
from . import core

KANI_DIR = os.path.join(core.VERIF, 'kani')


def _run_one(ws, name, timeout, mem_gb, playback):
    tdir = os.path.join(ws.dir, 'kani-target', name)
    os.makedirs(tdir, exist_ok=True)
    log = os.path.join(ws.dir, 'kani-%s.log' % name)
    cmd = ['cargo', 'kani', '--target-dir', tdir, '--harness', name]
    if playback: cmd += ['-Z', 'concrete-playback', '--concrete-playback=print']
    env = dict(os.environ, CARGO_NET_OFFLINE='true')
    def limit():
        resource.setrlimit(resource.RLIMIT_AS, (mem_gb << 30, mem_gb << 30))
    t0 = time.time()
    try:
        p = subprocess.run(cmd, cwd=KANI_DIR, env=env, stdout=subprocess.PIPE, stderr=subprocess.STDOUT, timeout=timeout, preexec_fn=limit)
        out = p.stdout.decode('utf-8', 'replace')
        rc = p.returncode
    except subprocess.TimeoutExpired as e:
        out = (e.stdout or b'').decode('utf-8', 'replace') + '\nTIMEOUT'
        rc = 124
        subprocess.run(['pkill', '-x', 'cbmc'], stderr=subprocess.DEVNULL)
    open(log, 'w').write(out)
    wall = time.time() - t0
    res = {'harness': name, 'wall_s': round(wall, 1), 'log': log}
    m = re.search(r'Verification Time: ([\d.]+)s', out)
    res['solver_time_s'] = float(m.group(1)) if m else None
    m = re.search(r'\*\* (\d+) of (\d+) failed', out)
    res['checks'] = int(m.group(2)) if m else 0
    res['failed_checks'] = int(m.group(1)) if m else None
    cm = re.search(r'\*\* (\d+) of (\d+) cover properties satisfied', out)
    res['cover'] = (int(cm.group(1)), int(cm.group(2))) if cm else None
    if 'VERIFICATION:- SUCCESSFUL' in out:
        res['status'] = 'ok'
        if res['cover'] and res['cover'][0] < res['cover'][1]: res['status'] = 'vacuous'
    elif rc == 124 or 'TIMEOUT' in out[-20:]:
        res['status'] = 'timeout'
    elif 'VERIFICATION:- FAILED' in out and res['failed_checks']:
        fails = re.findall(r'Check \d+: ([^\n]+)\n\s+- Status: FAILURE\n\s+- Description: "([^"]*)"', out)
        res['failures'] = fails[:10]
        unwinding = [f for f in fails if 'unwinding assertion' in f[1]]
        res['status'] = 'unwind' if unwinding and len(unwinding) == len(fails) else 'fail'
        if playback: res['playback'] = parse_playback(out)
    else:
        res['status'] = 'error'       # OOM / tool error: "Status: ERROR" or missing summary
        res['tail'] = out[-600:]
    shutil.rmtree(tdir, ignore_errors=True)
    return res


def parse_playback(out):
    """concrete values of the kani::any() calls, in call order, from the generated unit test (comments hold the values)"""
    vals = []
    blk = re.search(r'let concrete_vals: Vec<Vec<u8>> = vec!\[(.*?)\];', out, re.S)
    if not blk: return None
    for m in re.finditer(r'//\s*([^\n]+)\n\s*vec!\[([^\]]*)\]', blk.group(1)):
        bs = [int(x) for x in m.group(2).split(',') if x.strip()]
        vals.append({'comment': m.group(1).strip(), 'bytes': bs})
    return vals


def run(ws, names, timeout=900, mem_gb=12, jobs=6, playback=True):
    out = {}
    with cf.ThreadPoolExecutor(max_workers=jobs) as ex:
        futs = {ex.submit(_run_one, ws, n, timeout, mem_gb, playback): n for n in names}
        for f in cf.as_completed(futs):
            r = f.result()
            out[r['harness']] = r
            core.log('  kani %-44s %-9s solver=%ss wall=%ss checks=%s cover=%s' % (r['harness'], r['status'], r.get('solver_time_s'), r['wall_s'], r.get('checks'), r.get('cover')))
    return out
