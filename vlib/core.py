"""Shared plumbing of the checks: scratch workspace built from /repo's CURRENT working tree, native replay
processes, evidence files, known findings, exit-code conventions.

exit 0  every query of the tier decided, nothing violated (known findings printed as KNOWN-FINDING lines)
exit 1  a natively reproduced violation not listed in known_findings.json: `VIOLATION property=<id> replay=<path>`
exit 2  inconclusive (unsupported construct, solver unknown/timeout, non-reproducing counterexample, vacuity)
"""
import os, sys, json, time, hashlib, subprocess, shutil, glob, atexit, fcntl

VERIF = os.path.dirname(os.path.dirname(os.path.abspath(__file__)))
REPO = os.environ.get('VERIF_REPO', '/repo')
CACHE_ROOT = os.environ.get('VERIF_CACHE', '/tmp/verif-cache')
PY = sys.executable


def log(*a):
    print(*a, flush=True)


def tree_hash():
    """hash of everything the encodings are generated from: marwood sources, manifests, prelude"""
    h = hashlib.sha256()
    files = sorted(glob.glob(REPO + '/marwood/src/**/*.rs', recursive=True))
    files += [REPO + '/marwood/Cargo.toml', REPO + '/Cargo.toml', REPO + '/Cargo.lock', REPO + '/marwood/prelude.scm']
    for f in files:
        h.update(f.encode()); h.update(b'\0')
        try:
            h.update(open(f, 'rb').read())
        except OSError:
            h.update(b'<missing>')
    # the framework's own build inputs
    for f in sorted(glob.glob(VERIF + '/replay/src/*.rs')) + [VERIF + '/replay/Cargo.toml']:
        h.update(open(f, 'rb').read())
    return h.hexdigest()[:20]


class Workspace:
    """<CACHE_ROOT>/<tree hash>/ : src copy, marwood.mir, replay binaries.  Rebuilt whenever the tree changes;
    nothing in it is needed before a check starts (checks build it on demand)."""
    def __init__(s):
        s.hash = tree_hash()
        s.dir = os.path.join(CACHE_ROOT, s.hash)
        os.makedirs(s.dir, exist_ok=True)
        s._lock = open(os.path.join(s.dir, '.lock'), 'w')
        s._prune()

    def _prune(s):
        # keep the 3 most recently used workspaces: disk is limited
        try:
            ents = [os.path.join(CACHE_ROOT, d) for d in os.listdir(CACHE_ROOT)]
            ents = [d for d in ents if os.path.isdir(d) and d != s.dir]
            ents.sort(key=lambda d: os.path.getmtime(d), reverse=True)
            for d in ents[2:]:
                shutil.rmtree(d, ignore_errors=True)
            os.utime(s.dir, None)
        except OSError:
            pass

    def lock(s):
        fcntl.flock(s._lock, fcntl.LOCK_EX)

    def unlock(s):
        fcntl.flock(s._lock, fcntl.LOCK_UN)

    def src(s):
        """scratch copy of the working tree (the MIR dump must not write into /repo)"""
        d = os.path.join(s.dir, 'tree')
        s.lock()
        try:
            if not os.path.exists(os.path.join(d, '.done')):
                shutil.rmtree(d, ignore_errors=True)
                subprocess.check_call(['rsync', '-a', '--exclude', 'target', '--exclude', '.git', REPO + '/', d + '/'])
                open(os.path.join(d, '.done'), 'w').write('ok')
        finally:
            s.unlock()
        return d

    def mir(s):
        """rustc MIR dump of the marwood lib of the current tree (overflow checks on, debug assertions off)"""
        out = os.path.join(s.dir, 'marwood.mir')
        if os.path.exists(out) and os.path.getsize(out) > 100000:
            return out
        d = s.src()
        s.lock()
        try:
            if os.path.exists(out) and os.path.getsize(out) > 100000:
                return out
            t0 = time.time()
            env = dict(os.environ, CARGO_NET_OFFLINE='true', CARGO_TARGET_DIR=os.path.join(s.dir, 'mir-target'))
            subprocess.check_call(['touch', os.path.join(d, 'marwood/src/lib.rs')])
            p = subprocess.run(['cargo', '+nightly', 'rustc', '--offline', '--lib', '--', '-Zunpretty=mir',
                                '-C', 'debug-assertions=off', '-C', 'overflow-checks=on'],
                               cwd=os.path.join(d, 'marwood'), env=env, stdout=subprocess.PIPE, stderr=subprocess.PIPE)
            if p.returncode != 0 or len(p.stdout) < 100000:
                sys.stderr.write(p.stderr.decode()[-3000:])
                raise SystemExit(2)
            open(out + '.tmp', 'wb').write(p.stdout)
            os.rename(out + '.tmp', out)
            shutil.rmtree(os.path.join(s.dir, 'mir-target'), ignore_errors=True)
            log('  [build] MIR dump of the current tree: %d lines, %.1fs' % (p.stdout.count(b'\n'), time.time() - t0))
        finally:
            s.unlock()
        return out

    def replay_bin(s, profile='dev'):
        sub = 'debug' if profile == 'dev' else 'release'
        tdir = os.path.join(s.dir, 'replay-target')
        exe = os.path.join(tdir, sub, 'verif-replay')
        stamp = exe + '.ok'
        if os.path.exists(stamp):
            return exe
        s.lock()
        try:
            if os.path.exists(stamp):
                return exe
            t0 = time.time()
            env = dict(os.environ, CARGO_NET_OFFLINE='true')
            manifest = os.path.join(VERIF, 'replay/Cargo.toml')
            if REPO != '/repo':
                # a tree other than /repo (VERIF_REPO: development and seeded-change runs on scratch copies): the replay crate
                # is copied next to the cache with its path dependency pointing at that tree
                cdir = os.path.join(s.dir, 'replay-crate')
                shutil.rmtree(cdir, ignore_errors=True)
                shutil.copytree(os.path.join(VERIF, 'replay'), cdir, ignore=shutil.ignore_patterns('target'))
                mf = open(os.path.join(cdir, 'Cargo.toml')).read().replace('"/repo/marwood"', '"%s/marwood"' % REPO)
                open(os.path.join(cdir, 'Cargo.toml'), 'w').write(mf)
                manifest = os.path.join(cdir, 'Cargo.toml')
            cmd = ['cargo', 'build', '--offline', '--manifest-path', manifest, '--target-dir', tdir]
            feats = hook_features()
            if feats: cmd += ['--features', feats]
            if profile != 'dev': cmd.append('--release')
            p = subprocess.run(cmd, env=env, stdout=subprocess.PIPE, stderr=subprocess.STDOUT)
            if p.returncode != 0:
                sys.stderr.write(p.stdout.decode()[-4000:])
                raise SystemExit(2)
            open(stamp, 'w').write('ok')
            log('  [build] replay binary (%s) against /repo/marwood: %.1fs' % (profile, time.time() - t0))
        finally:
            s.unlock()
        return exe


def hook_features():
    """features of the replay crate that switch the guarded hooks of /repo on (if the hook commit exists)"""
    try:
        if 'verif-hooks' in open(REPO + '/marwood/Cargo.toml').read():
            return 'hooks'
    except OSError:
        pass
    return ''


class Replay:
    """a running native replay process (real marwood code, dev or release profile)"""
    def __init__(s, ws, profile='dev'):
        s.exe = ws.replay_bin(profile)
        s.profile = profile
        s.p = None
        s.count = 0

    def _start(s):
        s.p = subprocess.Popen([s.exe], stdin=subprocess.PIPE, stdout=subprocess.PIPE, text=True, bufsize=1)

    def ask(s, line):
        if s.p is None or s.p.poll() is not None:
            s._start()
        s.count += 1
        try:
            s.p.stdin.write(line + '\n'); s.p.stdin.flush()
            out = s.p.stdout.readline()
        except BrokenPipeError:
            out = ''
        if not out:
            rc = s.p.wait()
            s.p = None
            return 'ABORT rc=%s' % rc       # process died: stack overflow / abort
        return out.rstrip('\n')

    def close(s):
        if s.p is not None:
            try:
                s.p.stdin.close(); s.p.wait(timeout=5)
            except Exception:
                s.p.kill()
            s.p = None


def hexs(text):
    b = text.encode('utf-8')
    return b.hex() if b else '-'


def unhexs(h):
    return '' if h == '-' else bytes.fromhex(h).decode('utf-8', 'replace')


# ---------------------------------------------------------------------------------------- known findings
class Findings:
    """known_findings.json: committed, never written at run time.
    entries: {"property": id, "key": <role key>, "status": "known"|"fixed", "what": text, "witness": {...}, "commit": sha}
    Only status=known suppresses, and only a violation whose harness-computed key equals the entry's key."""
    def __init__(s, prop):
        s.prop = prop
        path = os.path.join(VERIF, 'known_findings.json')
        s.entries = []
        if os.path.exists(path):
            s.entries = [e for e in json.load(open(path))['findings'] if e['property'] == prop]
        s.seen = {}

    def match(s, key):
        for e in s.entries:
            if e['status'] == 'known' and e['key'] == key:
                return e
        return None

    def known_keys(s):
        return [e['key'] for e in s.entries if e['status'] == 'known']


# ---------------------------------------------------------------------------------------- evidence / outcome
class Check:
    """one run of one property's check: collects harness results, prints the verdict lines, writes evidence"""
    def __init__(s, prop, tier, level='model_checking'):
        s.prop, s.tier, s.level = prop, tier, level
        s.seed = int(os.environ.get('VERIF_SEED', '0') or 0)
        s.t0 = time.time()
        s.findings = Findings(prop)
        s.harnesses = []          # dicts: name, functions, bounds, paths, solver_calls, solver_time, ...
        s.violations = []         # reproduced, not known
        s.known_seen = {}         # key -> example
        s.inconclusive = []
        s.samples = []
        s.assumptions = []
        s.outside = []
        s.functions = set()
        s.models = set()
        s.validated = 0
        s.replayed = 0
        s.queries = 0
        s.paths = 0
        s.nontrivial = 0
        s.solver_time = 0.0
        s.extra = {}
        s.evdir = os.environ.get('VERIF_EVIDENCE_DIR') or os.path.join(VERIF, 'evidence')
        os.makedirs(os.path.join(s.evdir, 'replays'), exist_ok=True)

    def add_result(s, name, res, functions=(), bounds=None, nontrivial=None):
        """res: mirsym.explore.Result"""
        h = {'harness': name, 'paths': res.paths, 'completed': res.completed, 'infeasible': res.infeasible,
             'solver_queries': res.solver_calls, 'solver_time_s': round(res.solver_time, 2), 'mir_steps': res.steps,
             'wall_s': round(res.wall, 2), 'bounds': bounds or {}, 'tags': dict(res.tags)}
        s.harnesses.append(h)
        s.functions.update(functions)
        s.paths += res.completed
        s.queries += res.solver_calls
        s.solver_time += res.solver_time
        s.nontrivial += res.completed if nontrivial is None else nontrivial
        for smp in res.samples:
            if len(s.samples) < 24: s.samples.append({'harness': name, 'case': smp})
        for msg, n in res.unsupported.items():
            s.inconclusive.append('%s: %s (x%d)' % (name, msg, n))
        for e in res.errors[:2]:
            s.inconclusive.append('%s: internal error: %s' % (name, e[-400:]))
        for sl in res.steplimit:
            if sl.get('kind') == 'steplimit' and not sl.get('request'):
                s.inconclusive.append('%s: %s' % (name, sl.get('msg')))
        if res.completed == 0 and not res.unsupported:
            s.inconclusive.append('%s: vacuous harness (no completed path)' % name)

    def violation(s, key, what, request, confirmed):
        """a counterexample that was replayed natively.  key: role key for known-findings matching.
        request: JSON-able replay request.  confirmed: True if the native run violates the property."""
        s.replayed += 1
        if not confirmed:
            s.inconclusive.append('counterexample did not reproduce natively (model/encoding error?): %s | %s' % (what, json.dumps(request)[:300]))
            return
        e = s.findings.match(key)
        if e is not None:
            s.known_seen.setdefault(key, what)
            return
        if any(v['key'] == key for v in s.violations) and len(s.violations) > 20:
            return
        path = os.path.join(s.evdir, 'replays', '%s-%s.json' % (s.prop, hashlib.sha1((key + json.dumps(request, sort_keys=True)).encode()).hexdigest()[:10]))
        json.dump({'property': s.prop, 'key': key, 'what': what, 'request': request}, open(path, 'w'), indent=1)
        s.violations.append({'key': key, 'what': what, 'replay': path})

    def finish(s):
        wall = time.time() - s.t0
        for key, what in s.known_seen.items():
            log('KNOWN-FINDING: property=%s %s [%s]' % (s.prop, what, key))
        stale = [k for k in s.findings.known_keys() if k not in s.known_seen]
        cov = {
            'evaluations': int(s.queries) if s.queries else int(s.paths),
            'distinct_nontrivial': int(s.nontrivial),
            'rule': s.extra.pop('rule', 'evaluations = solver queries discharged; distinct_nontrivial = distinct explored paths '
                                        '(each a distinct class of inputs, decided for all its members by the solver) that reached the final assertion'),
            'samples': s.samples[:24] or [{'note': 'no sample recorded'}],
            'paths': int(s.paths),
            'solver_queries': int(s.queries),
            'solver_time_s': round(s.solver_time, 2),
            'functions_encoded': sorted(s.functions),
            'harnesses': s.harnesses,
            'stubs_and_models': sorted(s.models),
            'outside_claim': s.outside,
            'unsupported': s.inconclusive,
            'replayed_counterexamples': s.replayed,
            'validated_against_native': s.validated,
            'known_findings_seen': [{'key': k, 'what': w} for k, w in s.known_seen.items()],
            'known_findings_not_seen_this_run': stale,
            'exhaustive': not s.inconclusive,
            'tree_hash': tree_hash(),
        }
        cov.update(s.extra)
        ev = {'property_id': s.prop, 'tier': s.tier, 'seed': s.seed, 'level': s.level, 'coverage': cov,
              'assumptions': s.assumptions, 'wall_s': round(wall, 2), 'violations': len(s.violations)}
        json.dump(ev, open(os.path.join(s.evdir, s.prop + '.json'), 'w'), indent=1, default=str)
        for v in s.violations[:10]:
            log('VIOLATION property=%s replay=%s' % (s.prop, v['replay']))
            log('    ' + v['what'])
        if s.violations:
            log('%s: FAIL (%d violation(s)) wall=%.1fs' % (s.prop, len(s.violations), wall))
            return 1
        if s.inconclusive:
            for m in s.inconclusive[:15]:
                log('INCONCLUSIVE: ' + m)
            log('%s: INCONCLUSIVE wall=%.1fs' % (s.prop, wall))
            return 2
        log('%s: holds within the stated bounds: %d paths, %d solver queries (%.1fs solver), %d known finding(s), wall=%.1fs'
            % (s.prop, s.paths, s.queries, s.solver_time, len(s.known_seen), wall))
        return 0


_PROG_CACHE = {}


def load_program(ws):
    """parse the MIR dump of the current tree and install the library models"""
    sys.path.insert(0, VERIF)
    from mirsym.interp import Program
    from mirsym import models_core
    key = ws.hash
    if key in _PROG_CACHE: return _PROG_CACHE[key]
    mir = ws.mir()
    prog = Program(open(mir).read(), os.path.join(ws.src(), 'marwood/src'))
    models_core.install(prog)
    _PROG_CACHE[key] = prog
    return prog
