//! Engine K: Kani proof harnesses over the REAL compiled marwood code (number.rs scalar kernels, gc::Map).
//! One harness per representation pair (arm) and operator; every input is kani::any() (full bit width);
//! every Rust panic on the explored paths is an assertion of its own.  Oracles are written in i128 / exact
//! integer-vs-float case splits, never through the code under test.
#![allow(unused)]
use marwood::number::Number;
use marwood::vm::gc;
use num::bigint::BigInt;
use num::{Rational32, ToPrimitive};
use std::cmp::Ordering;

/// exact comparison of an integer with a non-NaN double (no rounding anywhere)
fn cmp_int_f64(a: i128, b: f64) -> Ordering {
    if b == f64::INFINITY {
        return Ordering::Less;
    }
    if b == f64::NEG_INFINITY {
        return Ordering::Greater;
    }
    // |b| >= 2^127 cannot be reached by the i128 values used here (they come from i64 / i65 ranges)
    if b >= 1.7014118346046923e38 {
        return Ordering::Less;
    }
    if b <= -1.7014118346046923e38 {
        return Ordering::Greater;
    }
    let t = b.trunc(); // exact
    let ti = t as i128; // exact: |t| < 2^127
    match a.cmp(&ti) {
        Ordering::Equal => {
            // compare 0 with the fraction b - t (exact subtraction of nearby values)
            let fr = b - t;
            if fr > 0.0 {
                Ordering::Less
            } else if fr < 0.0 {
                Ordering::Greater
            } else {
                Ordering::Equal
            }
        }
        o => o,
    }
}

#[cfg(kani)]
mod harnesses {
    use super::*;

    fn any_non_nan() -> f64 {
        let b: f64 = kani::any();
        kani::assume(!b.is_nan());
        b
    }

    // ------------------------------------------------------------------------------------------- C09
    #[kani::proof]
    fn c09_cmp_fix_fix() {
        let a: i64 = kani::any();
        let b: i64 = kani::any();
        let (x, y) = (Number::Fixnum(a), Number::Fixnum(b));
        assert_eq!(x.partial_cmp(&y), Some(a.cmp(&b)));
        assert_eq!(x == y, a == b);
        kani::cover!(a < b && a < 0 && b > 0);
    }

    #[kani::proof]
    fn c09_cmp_float_float() {
        let a = any_non_nan();
        let b = any_non_nan();
        let (x, y) = (Number::Float(a), Number::Float(b));
        let want = if a < b { Ordering::Less } else if a > b { Ordering::Greater } else { Ordering::Equal };
        assert_eq!(x.partial_cmp(&y), Some(want));
        assert_eq!(x == y, want == Ordering::Equal);
        kani::cover!(a == 0.0 && b == 0.0 && a.is_sign_negative() && b.is_sign_positive());
    }

    #[kani::proof]
    fn c09_cmp_fix_float() {
        let a: i64 = kani::any();
        let b = any_non_nan();
        let want = cmp_int_f64(a as i128, b);
        let (x, y) = (Number::Fixnum(a), Number::Float(b));
        assert_eq!(x.partial_cmp(&y), Some(want));
        assert_eq!(x == y, want == Ordering::Equal);
        kani::cover!(a > (1i64 << 53) && want == Ordering::Less);
    }

    #[kani::proof]
    fn c09_cmp_float_fix() {
        let a = any_non_nan();
        let b: i64 = kani::any();
        let want = cmp_int_f64(b as i128, a).reverse();
        let (x, y) = (Number::Float(a), Number::Fixnum(b));
        assert_eq!(x.partial_cmp(&y), Some(want));
        assert_eq!(x == y, want == Ordering::Equal);
        kani::cover!(b < -(1i64 << 53) && want == Ordering::Less);
    }

    #[kani::proof]
    #[kani::unwind(20)]
    fn c09_cmp_fix_big() {
        // the bignum carries any value of 66 bits: inside and outside the fixnum range
        let a: i64 = kani::any();
        let b: i128 = kani::any();
        kani::assume(b >= -(1i128 << 66) && b <= (1i128 << 66));
        let (x, y) = (Number::Fixnum(a), Number::new_bigint(BigInt::from(b)));
        let want = (a as i128).cmp(&b);
        assert_eq!(x.partial_cmp(&y), Some(want));
        kani::cover!(b < i64::MIN as i128 && want == Ordering::Greater);
    }

    #[kani::proof]
    #[kani::unwind(20)]
    fn c09_cmp_big_fix() {
        let a: i64 = kani::any();
        let b: i128 = kani::any();
        kani::assume(b >= -(1i128 << 66) && b <= (1i128 << 66));
        let (x, y) = (Number::Fixnum(a), Number::new_bigint(BigInt::from(b)));
        let want = (a as i128).cmp(&b);
        assert_eq!(y.partial_cmp(&x), Some(want.reverse()));
        kani::cover!(b < i64::MIN as i128 && want == Ordering::Greater);
    }

    #[kani::proof]
    #[kani::unwind(20)]
    fn c09_eq_fix_big() {
        let a: i64 = kani::any();
        let b: i128 = kani::any();
        kani::assume(b >= -(1i128 << 66) && b <= (1i128 << 66));
        let (x, y) = (Number::Fixnum(a), Number::new_bigint(BigInt::from(b)));
        assert_eq!(x == y, a as i128 == b);
        assert_eq!(y == x, a as i128 == b);
    }

    #[kani::proof]
    #[kani::unwind(20)]
    fn c09_cmp_big_big() {
        let a: i128 = kani::any();
        let b: i128 = kani::any();
        kani::assume(a >= -(1i128 << 66) && a <= (1i128 << 66) && b >= -(1i128 << 66) && b <= (1i128 << 66));
        let (x, y) = (Number::new_bigint(BigInt::from(a)), Number::new_bigint(BigInt::from(b)));
        assert_eq!(x.partial_cmp(&y), Some(a.cmp(&b)));
        assert_eq!(x == y, a == b);
        kani::cover!(a < 0 && b > 0 && a < i64::MIN as i128);
    }

    /// Fixnum vs Rational: a fixnum outside the i32 range is ordered against a 32-bit rational by its sign alone
    #[kani::proof]
    fn c09_cmp_fix_rational_out_of_i32() {
        let a: i64 = kani::any();
        kani::assume(a > i32::MAX as i64 || a < i32::MIN as i64);
        let n: i32 = kani::any();
        let d: i32 = kani::any();
        kani::assume(d > 0);
        // new_raw: no gcd loop; the comparison arm under test does not look at the rational at all
        let r = Rational32::new_raw(n, d);
        let want = if a < 0 { Ordering::Less } else { Ordering::Greater };
        let (x, y) = (Number::Fixnum(a), Number::Rational(r));
        assert_eq!(x.partial_cmp(&y), Some(want));
        assert_eq!(y.partial_cmp(&x), Some(want.reverse()));
        assert!(x != y && y != x);
        kani::cover!(a < 0);
    }

    // ------------------------------------------------------------------------------------------- C08 (fixnum kernels)
    /// quotient / remainder / modulo on fixnums return a value for every non-zero divisor: no panic, in
    /// particular not for i64::MIN / -1.  (The numeric result is the machine division itself; proving it equal to an
    /// i128 reference division is a 64-bit division equivalence that the SAT back end does not finish: outside.)
    #[kani::proof]
    #[kani::unwind(20)]
    fn c08_quotient_remainder_fix_total() {
        let a: i64 = kani::any();
        let b: i64 = kani::any();
        kani::assume(b != 0);
        let (x, y) = (Number::Fixnum(a), Number::Fixnum(b));
        if a == i64::MIN && b == -1 {
            // the quotient 2^63 must come back as a bignum, the remainder as 0
            match x.quotient(&y) {
                Some(Number::BigInt(q)) => assert!(*q == BigInt::from(1u64 << 63)),
                _ => assert!(false),
            }
            assert!((&x % &y) == Some(Number::Fixnum(0)));
        } else {
            match x.quotient(&y) {
                Some(Number::Fixnum(_)) => {}
                _ => assert!(false),
            }
            assert!((&x % &y).is_some());
        }
        kani::cover!(a == i64::MIN && b == -1);
    }

    #[kani::proof]
    #[kani::unwind(20)]
    fn c08_abs_fix() {
        let a: i64 = kani::any();
        match Number::Fixnum(a).abs() {
            Number::Fixnum(v) => assert_eq!(v as i128, (a as i128).abs()),
            Number::BigInt(v) => {
                assert!(a == i64::MIN);
                assert!(*v == BigInt::from(1u64 << 63));
            }
            _ => assert!(false),
        }
        kani::cover!(a == i64::MIN);
    }

    /// the fixnum result of + and - is exact whenever the exact result fits an i64 (otherwise the code falls
    /// back to bignum arithmetic, which this engine does not execute)
    #[kani::proof]
    #[kani::unwind(6)]
    fn c08_add_sub_fix_guard() {
        let a: i64 = kani::any();
        let b: i64 = kani::any();
        let sub: bool = kani::any();
        let exact = if sub { a as i128 - b as i128 } else { a as i128 + b as i128 };
        kani::assume(exact >= i64::MIN as i128 && exact <= i64::MAX as i128);
        let (x, y) = (Number::Fixnum(a), Number::Fixnum(b));
        let r = if sub { &x - &y } else { &x + &y };
        match r {
            Number::Fixnum(v) => assert_eq!(v as i128, exact),
            _ => assert!(false),
        }
        kani::cover!(sub && a < 0 && b > 0);
    }

    /// multiplication: one operand in a 16-bit window or within 4 of +-2^31 / +-2^63 (symbolic x symbolic 64-bit
    /// multiplication is the documented weak spot of bit-blasting)
    #[kani::proof]
    #[kani::unwind(6)]
    fn c08_mul_fix_guard_window() {
        let a: i64 = kani::any();
        let b: i64 = kani::any();
        kani::assume((b > -(1 << 15) && b < (1 << 15)) || (b - (1i64 << 31)).abs() <= 4 || (b + (1i64 << 31)).abs() <= 4 || b >= i64::MAX - 4 || b <= i64::MIN + 4);
        let exact = (a as i128) * (b as i128);
        kani::assume(exact >= i64::MIN as i128 && exact <= i64::MAX as i128);
        let (x, y) = (Number::Fixnum(a), Number::Fixnum(b));
        match &x * &y {
            Number::Fixnum(v) => assert_eq!(v as i128, exact),
            _ => assert!(false),
        }
    }

    #[kani::proof]
    fn c08_mixed_fix_float_add_sub() {
        // inexact contagion: the result is the IEEE operation on the converted operand, bit for bit
        let a: i64 = kani::any();
        let b: f64 = kani::any();
        let sub: bool = kani::any();
        let (x, y) = (Number::Fixnum(a), Number::Float(b));
        let (r, want) = if sub { (&x - &y, a as f64 - b) } else { (&x + &y, a as f64 + b) };
        match r {
            Number::Float(v) => assert!(v.to_bits() == want.to_bits() || (v.is_nan() && want.is_nan())),
            _ => assert!(false),
        }
    }

    #[kani::proof]
    fn c08_to_usize_fix() {
        let a: i64 = kani::any();
        let r = Number::Fixnum(a).to_usize();
        assert_eq!(r, if a >= 0 { Some(a as usize) } else { None });
        let r = Number::Fixnum(a).to_u32();
        assert_eq!(r, if a >= 0 && a <= u32::MAX as i64 { Some(a as u32) } else { None });
    }

    // ------------------------------------------------------------------------------------------- C03 (gc::Map)
    #[kani::proof]
    #[kani::unwind(5)]
    fn c03_gcmap_set_get_frame() {
        // 16 entries (4 bytes): arbitrary prior contents, one set, every other entry unchanged
        let mut m = gc::Map::new(16);
        let mut k = 0;
        while k < 4 {
            let i: usize = kani::any();
            kani::assume(i < 16);
            let s: u8 = kani::any();
            kani::assume(s < 3);
            m.set(i, gc::State::from(s));
            k += 1;
        }
        let i: usize = kani::any();
        let j: usize = kani::any();
        kani::assume(i < 16 && j < 16 && i != j);
        let before_j = m.get(j);
        let s: u8 = kani::any();
        kani::assume(s < 3);
        m.set(i, gc::State::from(s));
        assert!(m.get(i) == Some(gc::State::from(s)));
        assert!(m.get(j) == before_j);
        assert!(m.get(16).is_none());
        m.mark(j);
        assert!(m.is_marked(j));
        assert!(m.get(i) == Some(gc::State::from(s)));
    }
}
