use marwood::vm::Vm;
use marwood::syntax::ReplHighlighter;
use marwood::parse;
use std::panic;

fn ev(src: &str) {
    let s = src.to_string();
    let r = panic::catch_unwind(move || {
        let mut vm = Vm::new();
        match vm.eval_text(&s) {
            Ok((c, _)) => format!("Ok {:#}", c),
            Err(e) => match panic::catch_unwind(panic::AssertUnwindSafe(|| format!("{}", e))) { Ok(t) => format!("Err {}", t), Err(_) => "Err <Display PANICKED>".into() },
        }
    });
    println!("{:50} => {}", src, r.unwrap_or_else(|_| "PANIC".into()));
}
fn main() {
    panic::set_hook(Box::new(|_| {}));
    for s in ["(vector-set! (vector) 0 1)", "(vector-ref (vector) 0)", "(string-ref \"\" 0)", "(quotient -9223372036854775808 -1)",
              "(remainder -9223372036854775808 -1)", "(expt 1/2 40)", "(/ -2147483648 -1)", "(< -4294967296 1/2)",
              "(= 9007199254740993 9007199254740992.0)", "(= 1/3 0.3333333333333333)", "(number->string -255 16)", "(string->number \"-ff\" 16)",
              "(/ 1099511627776 1048576)", "(abs -9223372036854775808)", "(vector-copy (vector) 0)", "(string-copy \"abc\" 5 5)",
              "(string-fill! (make-string 2 #\\a) #\\b 3)", "(let ((p (cons 1 2)) (v (make-vector 1 0))) (vector-fill! v p) (set-car! p 9) (car (vector-ref v 0)))",
              "(let ((a (vector 1 2 3 4)) (b (vector 0 0 0 0))) (vector-copy! b 0 a 2) b)", "(- 1/2)", "(max 1 2.0)", "(integer->char 55296)"] { ev(s); }
    let h = ReplHighlighter::new();
    for (t, i) in [("(#(a))", 4usize), ("(#(a))", 5), ("#(a)", 0), ("(a)", 0), ("(a)", 3), ("( a", 2)] {
        println!("hl {:10} @{} => {:?} check={}", t, i, h.highlight(t, i), h.highlight_check(t, i));
    }
    // sliced execution with budget 1
    let mut vm = Vm::new();
    let (cell, _) = parse::parse_text("(+ 1 2)").unwrap();
    vm.prepare_eval(&cell).unwrap();
    let mut n = 0;
    loop { n += 1; match vm.run_count(1) { Ok(Some(c)) => { println!("budget1 done after {} calls: {}", n, c); break; } Ok(None) => { if n > 50 { println!("budget 1: no completion after 50 resumes"); break; } } Err(e) => { println!("err {}", e); break; } } }
    let mut vm = Vm::new();
    vm.prepare_eval(&cell).unwrap();
    let mut n = 0;
    loop { n += 1; match vm.run_count(2) { Ok(Some(c)) => { println!("budget2 done after {} calls: {}", n, c); break; } Ok(None) => { if n > 50 { println!("budget 2: no completion after 50 resumes"); break; } } Err(e) => { println!("err {}", e); break; } } }
}
