#![allow(unused)]
use marwood::number::Number;
use num::{Rational32, ToPrimitive};
use std::cmp::Ordering;

#[cfg(kani)]
mod h {
    use super::*;
    fn win(x: i32, bits: u32) -> bool { x > -(1 << bits) && x < (1 << bits) }
    // boundary windows: small values or within 4 of +-2^31 / i32 extremes
    fn near_edge(x: i32) -> bool { x >= i32::MAX - 3 || x <= i32::MIN + 4 }
    fn any_ratio(bits: u32) -> Rational32 {
        let n: i32 = kani::any();
        let d: i32 = kani::any();
        kani::assume(d > 0 && n != i32::MIN);
        kani::assume(win(n, bits) || near_edge(n));
        kani::assume(win(d, bits) || near_edge(d));
        Rational32::new(n, d)
    }
    fn cmp_exact(a: i128, b: i128, c: i128, d: i128) -> Ordering { (a * d).cmp(&(c * b)) }

    #[kani::proof]
    #[kani::unwind(64)]
    fn r_cmp_rat_rat_w8() {
        let x = any_ratio(8); let y = any_ratio(8);
        let got = Number::Rational(x).partial_cmp(&Number::Rational(y));
        let want = cmp_exact(*x.numer() as i128, *x.denom() as i128, *y.numer() as i128, *y.denom() as i128);
        assert_eq!(got, Some(want));
    }
    #[kani::proof]
    #[kani::unwind(64)]
    fn r_add_rat_rat_w6() {
        let x = any_ratio(6); let y = any_ratio(6);
        match &Number::Rational(x) + &Number::Rational(y) {
            Number::Rational(z) => {
                let l = (*z.numer() as i128) * (*x.denom() as i128) * (*y.denom() as i128);
                let rr = ((*x.numer() as i128) * (*y.denom() as i128) + (*y.numer() as i128) * (*x.denom() as i128)) * (*z.denom() as i128);
                assert_eq!(l, rr);
            }
            Number::Float(f) => {
                let reference = x.to_f64().unwrap_or(f64::NAN) + y.to_f64().unwrap_or(f64::NAN);
                assert!(f.to_bits() == reference.to_bits());
            }
            _ => assert!(false),
        }
    }
    #[kani::proof]
    #[kani::unwind(64)]
    fn r_eq_fix_rat_full() {
        let a: i64 = kani::any();
        let n: i32 = kani::any(); let d: i32 = kani::any();
        kani::assume(d > 0 && n != i32::MIN);
        let y = Rational32::new(n, d);
        let got = Number::Fixnum(a) == Number::Rational(y);
        let want = (a as i128) * (*y.denom() as i128) == (*y.numer() as i128);
        assert_eq!(got, want);
    }
}
