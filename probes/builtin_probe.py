"""Feasibility probe (C06/C14): real builtin `vector-set!` entry fn(&mut Vm) from MIR on a fabricated Vm,
vector length and index SYMBOLIC; reports panics / wrong Ok results per path."""
import sys, os, time
sys.path.insert(0, os.path.dirname(os.path.abspath(__file__)))
import z3
import mirsym_prototype as M
from mirsym_prototype import Agg, Ref, Box, Interp, Panic, Unsupported, Infeasible
funcs = M.parse_mir(open(os.environ.get('MARWOOD_MIR', 'marwood.mir')).read())
M.load_enums('/repo/marwood/src')
M.INDEX.update(M.build_index(funcs, '/repo/marwood/src'))
V = M.ENUMS['VCell']
def vc(name, *f): return Agg('VCell', V.index(name), list(f))
def num(x): return vc('Number', Agg('Number', 0, [x]))
def rc(v): return Ref(Box(v))
UNDEF = lambda: vc('Undefined')
def mk_vm(stack_cells):
    n = 8
    heap = Agg('Heap', None, [n, list(range(n - 1, -1, -1)), [UNDEF() for _ in range(n)], Agg('Map', None, [n, [0] * (n // 4)]), {}])
    stack = Agg('Stack', None, [[UNDEF()] + stack_cells + [UNDEF() for _ in range(8)], len(stack_cells)])
    glob = Agg('GlobalEnvironment', None, [{}, []])
    return Agg('Vm', None, [heap, glob, stack, UNDEF(), 99, Agg('tuple', None, [0, 0]), 0, ('opaque', 'sys'), Agg('Option', 0, [])])

work = [[]]; res = []; unsup = {}; t0 = time.time()
while work:
    dec = work.pop()
    it = Interp(funcs, dec)
    idx = z3.BitVec('idx', 64)
    it.solver.add(idx >= -1, idx <= 4)
    vlen = it.choose(3)                                  # vector length 0,1,2
    vec = vc('Vector', rc(Agg('Vector', None, [Agg('RefCell', None, [[num(10 + k) for k in range(vlen)], 0])])))
    vm = mk_vm([vec, num(idx), num(77), vc('ArgumentCount', 3)]); b = Box(vm)
    try:
        r = it.call('vector_set', [Ref(b)])
        it.solver.check(); mdl = it.solver.model()[idx]
        i = mdl.as_signed_long() if mdl is not None else None
        out = 'Ok' if r.var == 0 else 'Err'
        expect = 'Ok' if (i is not None and 0 <= i < vlen) else 'Err'
        res.append((vlen, i, out, expect))
    except Panic as e:
        it.solver.check(); mdl = it.solver.model()[idx]
        res.append((vlen, mdl.as_signed_long() if mdl is not None else None, 'PANIC: ' + str(e)[:60], 'Err'))
    except Unsupported as e: unsup[str(e)] = unsup.get(str(e), 0) + 1
    except Infeasible: pass
    work.extend(it.pending)
print('paths', len(res), 'unsupported', unsup, 'wall %.1fs' % (time.time() - t0))
for x in sorted(res, key=str): print('  len=%s idx=%s -> %s (R7RS: %s)%s' % (x[0], x[1], x[2], x[3], '' if x[2] == x[3] else '   <== differs'))
