"""Feasibility probe (C13): the real Vm::run_count with a SYMBOLIC budget on a fabricated Vm."""
import sys, os, time
sys.path.insert(0, os.path.dirname(os.path.abspath(__file__)))
import z3
import mirsym_prototype as M
from mirsym_prototype import Agg, Ref, Box, Interp, Panic, Unsupported, Infeasible
exec(open(os.path.join(os.path.dirname(os.path.abspath(__file__)), 'vm_step_probe.py')).read().split("RUN_ONE =")[0].split('funcs = M.parse_mir')[1].join(['funcs = M.parse_mir', '']) if False else '')
funcs = M.parse_mir(open(os.environ.get('MARWOOD_MIR', 'marwood.mir')).read())
M.load_enums('/repo/marwood/src')
M.INDEX.update(M.build_index(funcs, '/repo/marwood/src'))
V = M.ENUMS['VCell']; OP = M.ENUMS['OpCode']
def vc(name, *f): return Agg('VCell', V.index(name), list(f))
def op(name): return vc('OpCode', Agg('OpCode', OP.index(name), []))
def num(x): return vc('Number', Agg('Number', 0, [x]))
def rc(v): return Ref(Box(v))
def lam(nargs, bc):
    return vc('Lambda', rc(Agg('Lambda', None, [False, False, Agg('EnvironmentMap', None, [[]]), [], bc, Agg('Option', 0, [])])))
UNDEF = lambda: vc('Undefined')
def mk_vm(heap_cells, ip):
    n = 16
    cells = heap_cells + [UNDEF() for _ in range(n - len(heap_cells))]
    heap = Agg('Heap', None, [n, list(range(n - 1, len(heap_cells) - 1, -1)), cells, Agg('Map', None, [n, [0] * (n // 4)]), {}])
    stack = Agg('Stack', None, [[UNDEF() for _ in range(16)], 0])
    glob = Agg('GlobalEnvironment', None, [{}, []])
    return Agg('Vm', None, [heap, glob, stack, UNDEF(), 99, Agg('tuple', None, [ip[0], ip[1]]), 0, ('opaque', 'sys'), Agg('Option', 0, [])])

RUN_COUNT = M.INDEX['Vm::run_count']
prog = [op('PushImmediate'), num(1), op('PushImmediate'), num(2), op('PushImmediate'), num(3), op('Halt')]
work = [[]]; res = []; unsup = {}
t0 = time.time()
while work:
    dec = work.pop()
    it = Interp(funcs, dec)
    count = z3.BitVec('count', 64)
    it.solver.add(z3.UGE(count, 1), z3.ULE(count, 6))
    vm = mk_vm([lam(0, prog)], (0, 0)); b = Box(vm)
    try:
        r = it.call(RUN_COUNT, [Ref(b), count])
        it.solver.check(); c = it.solver.model()[count]
        res.append((c, 'Ok(None)' if (r.var == 0 and r.f[0].var == 0) else repr(r)[:40], 'ip=%r sp=%r' % (vm.f[5].f[1], vm.f[2].f[1])))
    except Unsupported as e: unsup[str(e)] = unsup.get(str(e), 0) + 1
    except Panic as e: res.append(('panic', str(e)))
    work.extend(it.pending)
print('paths', len(res), 'unsupported', unsup, 'wall %.1fs' % (time.time() - t0))
for x in sorted(res, key=lambda t: str(t[0])): print('  count =', x[0], '->', x[1], x[2])
