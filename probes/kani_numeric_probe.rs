#![allow(unused)]
use marwood::number::Number;
use num::bigint::BigInt;
use num::{Rational32, ToPrimitive};
use std::cmp::Ordering;

#[cfg(kani)]
mod h {
    use super::*;

    fn any_ratio() -> Rational32 {
        let n: i32 = kani::any();
        let d: i32 = kani::any();
        kani::assume(d > 0 && n != i32::MIN);
        Rational32::new(n, d)
    }
    // exact compare of a/b ? c/d with b,d>0
    fn cmp_exact(a: i128, b: i128, c: i128, d: i128) -> Ordering { (a * d).cmp(&(c * b)) }

    #[kani::proof]
    #[kani::unwind(64)]
    fn q1_cmp_rat_rat() {
        let x = any_ratio(); let y = any_ratio();
        let got = Number::Rational(x).partial_cmp(&Number::Rational(y));
        let want = cmp_exact(*x.numer() as i128, *x.denom() as i128, *y.numer() as i128, *y.denom() as i128);
        assert_eq!(got, Some(want));
    }

    #[kani::proof]
    #[kani::unwind(64)]
    fn q1_cmp_fix_rat_guarded() {
        // the i32-representable branch only (the else-branch is the known defect)
        let a: i64 = kani::any();
        kani::assume(a >= i32::MIN as i64 && a <= i32::MAX as i64);
        let y = any_ratio();
        let got = Number::Fixnum(a).partial_cmp(&Number::Rational(y));
        let want = cmp_exact(a as i128, 1, *y.numer() as i128, *y.denom() as i128);
        assert_eq!(got, Some(want));
    }

    #[kani::proof]
    fn q1_cmp_fix_float_small() {
        let a: i64 = kani::any();
        let b: f64 = kani::any();
        kani::assume(!b.is_nan());
        kani::assume(a.abs() <= (1i64 << 53));
        let got = Number::Fixnum(a).partial_cmp(&Number::Float(b));
        let want = (a as f64).partial_cmp(&b); // exact because |a| <= 2^53
        assert_eq!(got, want);
    }

    #[kani::proof]
    #[kani::unwind(64)]
    fn q1_add_fix_rat() {
        let a: i64 = kani::any();
        let y = any_ratio();
        let r = &Number::Fixnum(a) + &Number::Rational(y);
        match r {
            Number::Rational(z) => {
                // z == a + y  <=> z.n * y.d == (a*y.d + y.n) * z.d
                let l = (*z.numer() as i128) * (*y.denom() as i128);
                let rr = ((a as i128) * (*y.denom() as i128) + (*y.numer() as i128)) * (*z.denom() as i128);
                assert_eq!(l, rr);
            }
            Number::Float(f) => {
                let reference = a as f64 + y.to_f64().unwrap_or(f64::NAN);
                assert!(f.to_bits() == reference.to_bits());
            }
            _ => assert!(false),
        }
    }

    #[kani::proof]
    #[kani::unwind(64)]
    fn q1_mul_rat_rat_16bit() {
        let x = any_ratio(); let y = any_ratio();
        kani::assume(x.numer().abs() < 256 && *x.denom() < 256 && y.numer().abs() < 256 && *y.denom() < 256);
        match &Number::Rational(x) * &Number::Rational(y) {
            Number::Rational(z) => {
                let l = (*z.numer() as i64) * (*x.denom() as i64) * (*y.denom() as i64);
                let rr = (*x.numer() as i64) * (*y.numer() as i64) * (*z.denom() as i64);
                assert_eq!(l, rr);
            }
            _ => assert!(false),
        }
    }

    #[kani::proof]
    #[kani::unwind(5)]
    fn q3_cmp_fix_big() {
        let a: i64 = kani::any();
        let b: i128 = kani::any();
        let big = Number::new_bigint(BigInt::from(b));
        let got = Number::Fixnum(a).partial_cmp(&big);
        assert_eq!(got, Some((a as i128).cmp(&b)));
        std::mem::forget(big);
    }

    #[kani::proof]
    fn q1_quotient_fix_fix() {
        let a: i64 = kani::any();
        let b: i64 = kani::any();
        kani::assume(b != 0);
        let r = Number::Fixnum(a).quotient(&Number::Fixnum(b));
        std::mem::forget(r);
    }
}
