import sys, time; sys.path.insert(0, __import__('os').path.dirname(__import__('os').path.abspath(__file__)))
import z3
import mirsym_prototype as M
from mirsym_prototype import Agg, Ref, Box, Interp, Panic, Unsupported, Infeasible
funcs = M.parse_mir(open(__import__('os').environ.get('MARWOOD_MIR', 'marwood.mir')).read())
M.load_enums('/repo/marwood/src')
M.INDEX.update(M.build_index(funcs, '/repo/marwood/src'))
V = M.ENUMS['VCell']
def vc(name, *f): return Agg('VCell', V.index(name), list(f))
N = 8
def build(it, npairs):
    ptr = [z3.BitVec(f'p{i}', 64) for i in range(2 * npairs)]
    for p in ptr: it.solver.add(z3.ULT(p, npairs + 3))
    cells = []
    for i in range(npairs): cells.append(vc('Pair', ptr[2*i], ptr[2*i+1]))
    cells += [vc('Number', Agg('Number', 0, [5])), vc('Nil'), vc('Bool', True)]
    nalloc = len(cells)
    while len(cells) < N: cells.append(vc('Undefined'))
    st = [1] * nalloc + [0] * (N - nalloc)
    mp = []
    for b in range(N // 4):
        mp.append(sum(st[4*b+k] << (2*k) for k in range(4)))
    heap = Agg('Heap', None, [N, list(range(N - 1, nalloc - 1, -1)), cells, Agg('Map', None, [N, mp]), {}])
    return heap, ptr, nalloc

def state(heap, i):
    b = heap.f[3].f[1][i // 4]
    if M.is_sym(b): return z3.simplify(z3.LShR(b, (i % 4) * 2) & 3)
    return (b >> ((i % 4) * 2)) & 3
def refuted(it, cond):
    # True if cond can be false on this path
    if isinstance(cond, bool): return not cond
    return it.check(z3.Not(cond))

def run(npairs):
    work = [[]]; paths = 0; viol = []; unsup = {}; t0 = time.time(); steps = 0; sc = 0; stime = 0
    while work:
        dec = work.pop()
        it = Interp(funcs, dec)
        heap, ptr, nalloc = build(it, npairs)
        pre = [it.clone(c) for c in heap.f[2]]
        hb = Box(heap)
        try:
            it.do_call('Heap::mark', [Ref(hb), 0])
            it.do_call('Heap::sweep', [Ref(hb)])
            # oracle: reachability from 0 over the pre-state graph
            reach = set(); todo = [0]
            while todo:
                i = todo.pop()
                if i in reach: continue
                reach.add(i)
                c = pre[i]
                if c.var == V.index('Pair'):
                    for p in c.f: todo.append(it.concretize(p, 0, N - 1))
            for i in range(N):
                stt = state(heap, i)
                if i in reach:
                    if refuted(it, stt == 1): viol.append((f'reachable cell {i} has state {stt}', it)); break
                    if heap.f[2][i].var != pre[i].var: viol.append((f'reachable cell {i} changed', it)); break
                else:
                    if refuted(it, stt == 0): viol.append((f'unreachable cell {i} survives, state {stt}', it)); break
                    if heap.f[2][i].var != V.index('Undefined'): viol.append((f'freed cell {i} not cleared', it)); break
            if sorted(heap.f[1]) != sorted(i for i in range(N) if i not in reach):
                viol.append(('free list mismatch', it))
        except Panic as e: viol.append(('panic ' + str(e), it))
        except Infeasible: pass
        except Unsupported as e: unsup[str(e)] = unsup.get(str(e), 0) + 1
        paths += 1; work.extend(it.pending); steps += it.steps; sc += it.solver_calls; stime += it.solver_time
    print(f'pairs={npairs} paths={paths} viol={len(viol)} unsup={unsup} steps={steps} solver_calls={sc} solver_time={stime:.1f} wall={time.time()-t0:.1f}')
    for v, it in viol[:3]:
        it.solver.check(); print('  ', v, it.solver.model())
for k in [int(x) for x in sys.argv[1:]] or [1, 2, 3]: run(k)
