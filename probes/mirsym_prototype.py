#!/usr/bin/env python3
"""Prototype: path-based symbolic interpreter for rustc MIR text (-Zunpretty=mir).
Feasibility probe for /verif DESIGN.md -- scope: marwood::lex::scan on symbolic text."""
import re, sys, time, copy
import z3

# ----------------------------------------------------------------------------- parsing
PURE = {'is_initial_identifier','is_subsequent_identifier','is_subsequent_number','is_initial_number','is_special_subsequent'}
GLOBAL_SUM = {}
INDEX = {}
class Func:
    def __init__(s, name, params, ret):
        s.name, s.params, s.ret = name, params, ret
        s.locals = {}
        s.blocks = {}

def split_top(s, sep=','):
    """split on sep at nesting depth 0 of ()[]{}<> (ignoring -> and chars/strings)."""
    out, depth, cur, i = [], 0, '', 0
    instr = None
    while i < len(s):
        c = s[i]
        if instr:
            cur += c
            if c == '\\':
                cur += s[i+1]; i += 2; continue
            if c == instr: instr = None
        elif c == '"':
            instr = '"'; cur += c
        elif c == "'" and re.match(r"'(\\.[^']*|[^'\\])'", s[i:]):
            m = re.match(r"'(\\.[^']*|[^'\\])'", s[i:])
            cur += m.group(0); i += len(m.group(0)); continue
        elif c in '([{<' and not (c == '<' and s[i-1:i+1] in ('<=',)):
            depth += 1; cur += c
        elif c in ')]}':
            depth -= 1; cur += c
        elif c == '>' and s[i-1] != '-' and s[i-1] != '=':
            depth -= 1; cur += c
        elif c == sep and depth == 0:
            out.append(cur.strip()); cur = ''
        else:
            cur += c
        i += 1
    if cur.strip(): out.append(cur.strip())
    return out

def parse_mir(text):
    funcs = {}
    items = re.split(r'\n(?=fn |static |const |promoted)', text)
    for it in items:
        if not it.startswith('fn '): continue
        head, _, body = it.partition('{\n')
        m = re.match(r'fn (.*?)\((.*)\) -> (.*?) $', head.replace('\n', ' '), re.S)
        if not m:
            m = re.match(r'fn (.*?)\((.*)\) -> (.*?)\s*$', head.replace('\n', ' '))
        if not m: continue
        name = m.group(1)
        params = []
        for p in split_top(m.group(2)):
            pm = re.match(r'(_\d+): (.*)', p)
            if pm: params.append((pm.group(1), pm.group(2)))
        f = Func(name, params, m.group(3).strip())
        for lm in re.finditer(r'^\s*let (?:mut )?(_\d+): (.*);$', body, re.M):
            f.locals[lm.group(1)] = lm.group(2)
        for p, t in params: f.locals[p] = t
        for bm in re.finditer(r'^    (bb\d+)(?: \(cleanup\))?: \{\n(.*?)^    \}', body, re.M | re.S):
            lines = [l.strip() for l in bm.group(2).split('\n') if l.strip()]
            f.blocks[bm.group(1)] = lines
        funcs.setdefault(name, f)
    return funcs

# ----------------------------------------------------------------------------- values
class Panic(Exception): pass
class Unsupported(Exception): pass
class Infeasible(Exception): pass

class Box:  # mutable storage cell
    __slots__ = ('v',)
    def __init__(s, v=None): s.v = v

class Agg:
    __slots__ = ('ty', 'var', 'f')
    def __init__(s, ty, var, f): s.ty, s.var, s.f = ty, var, list(f)
    def __repr__(s): return f'{s.ty}::{s.var}{s.f}' if s.var is not None else f'{s.ty}{s.f}'

class Ref:
    __slots__ = ('box', 'path')
    def __init__(s, box, path=()): s.box, s.path = box, tuple(path)
    def get(s):
        v = s.box.v
        for p in s.path: v = v.f[p] if isinstance(v, Agg) else v[p]
        return v
    def set(s, val):
        if not s.path: s.box.v = val; return
        v = s.box.v
        for p in s.path[:-1]: v = v.f[p] if isinstance(v, Agg) else v[p]
        if isinstance(v, Agg): v.f[s.path[-1]] = val
        else: v[s.path[-1]] = val

UNIT = Agg('()', None, [])

INT_TYPES = {'u8': (8, 0), 'u16': (16, 0), 'u32': (32, 0), 'u64': (64, 0), 'usize': (64, 0), 'u128': (128, 0),
             'i8': (8, 1), 'i16': (16, 1), 'i32': (32, 1), 'i64': (64, 1), 'isize': (64, 1), 'i128': (128, 1),
             'char': (32, 0), 'bool': (1, 0)}

def is_sym(v): return isinstance(v, z3.ExprRef)

ENUMS = {  # name -> variants in discriminant order
    'Option': ['None', 'Some'], 'Result': ['Ok', 'Err'], 'ControlFlow': ['Continue', 'Break'],
    'Cow': ['Borrowed', 'Owned'],
    'TokenType': ['Char', 'Dot', 'False', 'LeftParen', 'Number', 'NumberPrefix', 'Quasiquote', 'RightParen',
                  'SingleQuote', 'String', 'Symbol', 'True', 'Unquote', 'WhiteSpace', 'HashParen'],
    'lex::Error': ['Incomplete', 'UnexpectedToken', 'UnexpectedCharacterFollowing'],
}
import glob, os
def load_enums(root):
    for fn in glob.glob(root + '/**/*.rs', recursive=True):
        src = open(fn).read()
        mod = os.path.relpath(fn, root)[:-3].replace('/mod', '').replace('/', '::')
        for m in re.finditer(r'\benum (\w+)\s*\{(.*?)\n\}', src, re.S):
            body = re.sub(r'//.*', '', m.group(2))
            body = re.sub(r'#\[[^\]]*\]', '', body)
            vs = []
            depth = 0; cur = ''
            for ch in body:
                if ch in '({[<': depth += 1
                elif ch in ')}]>': depth -= 1
                if ch == ',' and depth == 0:
                    vs.append(cur); cur = ''
                else: cur += ch
            vs.append(cur)
            names = [re.match(r'\s*(\w+)', v).group(1) for v in vs if re.match(r'\s*(\w+)', v)]
            ENUMS[mod.split('::')[-1] + '::' + m.group(1)] = names
            ENUMS.setdefault(m.group(1), names)
STRUCT_NAMES = set()
def enum_of(path):
    base = re.sub(r'::<.*', '', path)
    base = re.sub(r'<.*>', '', base)
    if base in ENUMS: return base
    parts = base.split('::')
    if len(parts) >= 2 and '::'.join(parts[-2:]) in ENUMS: return '::'.join(parts[-2:])
    if parts[-1] in ENUMS: return parts[-1]
    for k in ENUMS:
        if base == k or base.endswith('::' + k) or k.endswith('::' + base): return k
    return None

# string objects -------------------------------------------------------------
class StrObj:
    """chars: list of (value, width). value int or z3 BV32"""
    def __init__(s, chars): s.chars = chars
    def offsets(s):
        o, out = 0, []
        for _, w in s.chars: out.append(o); o += w
        return out, o
class StrRef:
    def __init__(s, obj, a, b): s.obj, s.a, s.b = obj, a, b  # char index range
    def chars(s): return s.obj.chars[s.a:s.b]
    def bytelen(s): return sum(w for _, w in s.chars())

class SliceRef:
    def __init__(s, lref, lo, hi): s.lref, s.lo, s.hi = lref, lo, hi   # ref to python list, range
class SliceIter:
    def __init__(s, sl): s.lref, s.lo, s.hi = sl.lref, sl.lo, sl.hi
class RevIter:
    def __init__(s, it): s.it = it
class EnumIter:
    def __init__(s, it): s.it, s.n = it, 0
class RString:
    def __init__(s, chars): s.chars = chars
class CharIndices:
    def __init__(s, sr): s.sr, s.i, s.off = sr, 0, 0
class Peekable:
    def __init__(s, it): s.it, s.peeked = it, None   # peeked: None | Agg Option

def mk_some(v): return Agg('Option', 1, [v])
NONE = lambda: Agg('Option', 0, [])

# ----------------------------------------------------------------------------- interpreter
def build_index(funcs, root):
    idx = {}
    cache = {}
    for name, f in funcs.items():
        m = re.search(r'<impl at marwood/src/([\w/]+\.rs):(\d+):(\d+): (\d+):(\d+)>::(\w+)((?:::\{closure#\d+\})*)$', name)
        if not m: 
            idx.setdefault(name.split('::')[-1] if '{closure' not in name else name, name)
            continue
        if m.group(7): continue
        fn, l, c, l2, c2, meth = m.group(1), int(m.group(2)), int(m.group(3)), int(m.group(4)), int(m.group(5)), m.group(6)
        lines = cache.setdefault(fn, open(root + '/' + fn).read().split('\n'))
        text = lines[l-1][c-1:] if l == l2 else ' '.join(lines[l-1:l2])
        text = lines[l-1][c-1:c2-1] if l == l2 else text
        hm = re.match(r'impl(?:<[^>]*>)?\s+(?:(.+?)\s+for\s+)?&?([\w:]+)', text)
        if hm:
            trait, ty = hm.group(1), hm.group(2).split('::')[-1]
        else:
            # derive: text is the trait name; type = next struct/enum after the line
            trait = text.strip()
            ty = None
            for k in range(l-1, min(l+12, len(lines))):
                tm = re.search(r'\b(?:struct|enum)\s+(\w+)', lines[k])
                if tm: ty = tm.group(1); break
        if trait:
            trait = re.sub(r'\s', '', trait)
            idx['<%s as %s>::%s' % (ty, trait, meth)] = name
            idx['<%s as %s>::%s' % (ty, re.sub(r'<.*', '', trait), meth)] = name
        else:
            idx['%s::%s' % (ty, meth)] = name
    return idx

def b_width(b, w): return w

class Interp:
    def __init__(s, funcs, decisions):
        s.funcs = funcs
        s.decisions = list(decisions)
        s.taken = []
        s.pending = []
        s.solver = z3.Solver()
        s.steps = 0
        s.solver_calls = 0
        s.solver_time = 0.0
        s.sumcache = GLOBAL_SUM

    # -- branching
    def check(s, extra):
        s.solver_calls += 1
        t = time.time()
        s.solver.push(); s.solver.add(extra); r = s.solver.check(); s.solver.pop()
        s.solver_time += time.time() - t
        return r == z3.sat

    def branch(s, cond):
        """cond: python bool or z3 Bool -> python bool (forking)."""
        if isinstance(cond, bool): return cond
        cond = z3.simplify(cond)
        if z3.is_true(cond): return True
        if z3.is_false(cond): return False
        k = len(s.taken)
        if k < len(s.decisions):
            d = s.decisions[k]
        else:
            t_ok = s.check(cond); f_ok = s.check(z3.Not(cond))
            if t_ok and f_ok:
                s.pending.append(s.taken + [False]); d = True
            elif t_ok: d = True
            elif f_ok: d = False
            else: raise Infeasible()
        s.taken.append(d)
        s.solver.add(cond if d else z3.Not(cond))
        return d

    def choose(s, n):
        """harness-level nondeterministic choice among range(n) (no constraint)."""
        k = len(s.taken)
        if k < len(s.decisions): d = s.decisions[k]
        else:
            for alt in range(1, n): s.pending.append(s.taken + [alt])
            d = 0
        s.taken.append(d)
        return d

    def concretize(s, v, lo, hi):
        """fork over the integer values of symbolic v in [lo,hi]"""
        if not is_sym(v): return v
        for c in range(lo, hi + 1):
            if s.branch(v == c): return c
        raise Infeasible()

    # -- scalar ops
    def width(s, ty):
        return INT_TYPES[ty]

    def binop(s, op, a, b, ty):
        if isinstance(a, float) or isinstance(b, float):
            return {'Lt': a < b, 'Le': a <= b, 'Gt': a > b, 'Ge': a >= b, 'Eq': a == b, 'Ne': a != b,
                    'Add': a + b, 'Sub': a - b, 'Mul': a * b, 'Div': a / b if op == 'Div' else None}[op]
        w, signed = INT_TYPES.get(ty, (64, 0))
        if not is_sym(a) and not is_sym(b):
            return s.binop_conc(op, a, b, w, signed)
        for x in (a, b):
            if is_sym(x) and not z3.is_bool(x): w = x.size()
        if op in ('Shl', 'Shr') and is_sym(a) is False and is_sym(b): w = INT_TYPES.get(ty, (64, 0))[0]
        if not is_sym(a): a = z3.BitVecVal(a, w) if not isinstance(a, bool) else z3.BoolVal(a)
        if not is_sym(b): b = z3.BitVecVal(b, w if op not in ('Shl', 'Shr') else b_width(b, w)) if not isinstance(b, bool) else z3.BoolVal(b)
        if op == 'Eq': return a == b
        if op == 'Ne': return a != b
        if op in ('Lt', 'Le', 'Gt', 'Ge'):
            f = {('Lt', 0): z3.ULT, ('Le', 0): z3.ULE, ('Gt', 0): z3.UGT, ('Ge', 0): z3.UGE}.get((op, signed))
            if f: return f(a, b)
            return {'Lt': a < b, 'Le': a <= b, 'Gt': a > b, 'Ge': a >= b}[op]
        if op == 'Add': return a + b
        if op == 'Sub': return a - b
        if op == 'Mul': return a * b
        if op == 'BitAnd': return a & b
        if op == 'BitOr': return a | b
        if op == 'BitXor': return a ^ b
        if op == 'Div': return (a / b) if signed else z3.UDiv(a, b)
        if op == 'Rem': return z3.SRem(a, b) if signed else z3.URem(a, b)
        if op == 'Shl': return a << z3.ZeroExt(0, b) if a.size() == b.size() else a << s.resize(b, a.size())
        if op == 'Shr':
            bb = b if a.size() == b.size() else s.resize(b, a.size())
            return (a >> bb) if signed else z3.LShR(a, bb)
        raise Unsupported('binop ' + op)

    def resize(s, v, w):
        if v.size() == w: return v
        if v.size() > w: return z3.Extract(w - 1, 0, v)
        return z3.ZeroExt(w - v.size(), v)

    def binop_conc(s, op, a, b, w, signed):
        mask = (1 << w) - 1
        def wrap(x):
            x &= mask
            if signed and x >> (w - 1): x -= 1 << w
            return x
        if op == 'Eq': return a == b
        if op == 'Ne': return a != b
        if op == 'Lt': return a < b
        if op == 'Le': return a <= b
        if op == 'Gt': return a > b
        if op == 'Ge': return a >= b
        if op == 'Add': return wrap(a + b)
        if op == 'Sub': return wrap(a - b)
        if op == 'BitAnd': return a & b
        if op == 'BitOr': return a | b
        if op == 'BitXor': return a ^ b
        if op == 'Mul': return wrap(a * b)
        if op == 'Div': return wrap(int(a / b)) if signed else a // b
        if op == 'Rem': return a - b * int(a / b) if signed else a % b
        if op == 'Shl': return wrap(a << b)
        if op == 'Shr': return a >> b
        raise Unsupported('binop ' + op)

    def overflow_op(s, op, a, b, ty):
        w, signed = INT_TYPES[ty]
        if is_sym(a) or is_sym(b):
            if signed: raise Unsupported('symbolic signed checked op')
            A = a if is_sym(a) else z3.BitVecVal(a, w)
            B = b if is_sym(b) else z3.BitVecVal(b, w)
            A2, B2 = z3.ZeroExt(w, A), z3.ZeroExt(w, B)
            R = {'Add': A2 + B2, 'Sub': A2 - B2, 'Mul': A2 * B2}[op]
            ov = z3.Extract(2 * w - 1, w, R) != 0
            return Agg('tuple', None, [z3.Extract(w - 1, 0, R), ov])
        r = {'Add': a + b, 'Sub': a - b, 'Mul': a * b}[op]
        lo, hi = (-(1 << (w - 1)), (1 << (w - 1)) - 1) if signed else (0, (1 << w) - 1)
        ov = not (lo <= r <= hi)
        return Agg('tuple', None, [s.binop_conc(op, a, b, w, signed) if op != 'Mul' else r & ((1 << w) - 1), ov])

    # -- running
    def call(s, name, args):
        f = s.funcs.get(name)
        if f is None: raise Unsupported('no MIR for ' + name)
        frame = {l: Box() for l in f.locals}
        frame['_0'] = Box()
        for (p, _), a in zip(f.params, args): frame[p].v = a
        bb = 'bb0'
        while True:
            lines = f.blocks[bb]
            nxt = None
            for ln in lines:
                s.steps += 1
                nxt = s.exec_line(f, frame, ln)
                if nxt is not None: break
            if nxt == 'return': return frame['_0'].v
            bb = nxt

    # place parsing/eval -> Ref
    def place(s, f, frame, p):
        p = p.strip()
        if re.fullmatch(r'_\d+', p): return Ref(frame[p])
        if p.startswith('(*') and p.endswith(')') and s.balanced(p[2:-1]):
            inner = s.place(f, frame, p[2:-1]).get()
            if isinstance(inner, Ref): return inner
            raise Unsupported('deref of ' + repr(inner))
        if p.startswith('(') and p.endswith(')'):
            body = p[1:-1]
            m = re.match(r'(.*) as (\w+)$', body)
            if m and s.balanced(m.group(1)):
                return s.place(f, frame, m.group(1))      # downcast: no-op
            # field: (P.N: Ty)
            depth = 0
            for i, c in enumerate(body):
                if c in '([{<': depth += 1
                elif c in ')]}' or (c == '>' and body[i-1] != '-'): depth -= 1
                elif c == ':' and depth == 0 and body[i+1] == ' ':
                    left = body[:i]
                    k = left.rfind('.')
                    base = s.place(f, frame, left[:k])
                    return Ref(base.box, base.path + (int(left[k+1:]),))
        raise Unsupported('place ' + p)

    def balanced(s, t):
        d = 0
        for c in t:
            if c in '(': d += 1
            elif c == ')':
                d -= 1
                if d < 0: return False
        return d == 0

    def clone(s, v):
        if isinstance(v, Agg): return Agg(v.ty, v.var, [s.clone(x) for x in v.f])
        return v

    def const(s, c, ty_hint=None):
        c = c.strip()
        m = re.fullmatch(r'(-?\d+)_(\w+)', c)
        if m: return int(m.group(1))
        if c == '()': return UNIT
        m = re.fullmatch(r'(-?[\d.]+(?:[eE][-+]?\d+)?)f64', c)
        if m: return float(m.group(1))
        if c == 'true': return True
        if c == 'false': return False
        m = re.fullmatch(r"'(.*)'", c)
        if m:
            ch = m.group(1)
            if ch.startswith('\\'):
                ch = {'\\n': '\n', '\\t': '\t', '\\r': '\r', "\\'": "'", '\\\\': '\\', '\\"': '"', '\\0': '\0'}.get(ch) or \
                     (chr(int(re.match(r'\\u\{(\w+)\}', ch).group(1), 16)) if ch.startswith('\\u') else None)
            return ord(ch)
        m = re.fullmatch(r'"(.*)"', c, re.S)
        if m:
            t = bytes(m.group(1), 'utf-8').decode('unicode_escape')
            so = StrObj([(ord(x), len(x.encode())) for x in t])
            return StrRef(so, 0, len(so.chars))
        if c.startswith('b"'):
            import ast
            return list(ast.literal_eval(c))
        if 'promoted[' in c: return ('opaque', c)
        if c.startswith('ZeroSized: '):
            return Agg(c[len('ZeroSized: '):], None, [])
        raise Unsupported('const ' + c)

    def operand(s, f, frame, o):
        o = o.strip()
        if o.startswith('no_retag '): o = o[9:]
        if o.startswith('copy '): return s.clone(s.place(f, frame, o[5:]).get())
        if o.startswith('move '): return s.place(f, frame, o[5:]).get()
        if o.startswith('const '): return s.const(o[6:])
        raise Unsupported('operand ' + o)

    def local_ty(s, f, p):
        m = re.fullmatch(r'_\d+', p.strip())
        return f.locals.get(p.strip()) if m else None

    def exec_line(s, f, frame, ln):
        # terminators
        if ln == 'return;': return 'return'
        m = re.fullmatch(r'goto -> (bb\d+);', ln)
        if m: return m.group(1)
        if ln == 'unreachable;': raise Unsupported('reached unreachable')
        if ln == 'resume;': raise Unsupported('resume')
        m = re.fullmatch(r'switchInt\((.*)\) -> \[(.*)\];', ln)
        if m:
            v = s.operand(f, frame, m.group(1))
            targets = [t.split(': ') for t in m.group(2).split(', ')]
            for val, bb in targets:
                if val == 'otherwise': return bb
                val = int(val)
                if isinstance(v, bool): c = (int(v) == val)
                elif is_sym(v):
                    c = (v == (z3.BoolVal(bool(val)) if z3.is_bool(v) else z3.BitVecVal(val, v.size())))
                else: c = (v == val)
                if s.branch(c): return bb
            raise Unsupported('switch fallthrough')
        m = re.fullmatch(r'assert\((!?)(.*?), "(.*)"(?:, .*)?\) -> \[success: (bb\d+), .*\];', ln)
        if m:
            v = s.operand(f, frame, m.group(2))
            if m.group(1): v = (not v) if isinstance(v, bool) else z3.Not(v)
            if s.branch(v): return m.group(4)
            raise Panic(m.group(3))
        m = re.fullmatch(r'drop\((.*)\) -> \[return: (bb\d+), .*\];', ln)
        if not m: m = re.fullmatch(r'drop\((.*)\) -> (bb\d+);', ln)
        if m:
            try: v = s.place(f, frame, m.group(1)).get()
            except Exception: v = None
            if isinstance(v, Agg) and v.ty in ('Ref', 'RefMut'):
                rcv = v.f[1].get()
                rcv.f[1] = rcv.f[1] - 1 if v.ty == 'Ref' else 0
            return m.group(2)
        # call
        m = re.fullmatch(r'(.*?) = (.*\)) -> \[return: (bb\d+), unwind.*\];', ln)
        if m and not m.group(2).startswith(('copy', 'move', 'const', '&')):
            dest, expr, bb = m.groups()
            d = 0
            for k in range(len(expr) - 1, -1, -1):
                if expr[k] == ')': d += 1
                elif expr[k] == '(':
                    d -= 1
                    if d == 0: break
            callee, args = expr[:k], expr[k+1:-1]
            argv = [s.operand(f, frame, a) for a in split_top(args)]
            r = s.do_call(callee.strip(), argv)
            s.place(f, frame, dest).set(r)
            return bb
        # assignment
        m = re.fullmatch(r'(.*?) = (.*);', ln)
        if m:
            dest, rv = m.groups()
            s.place(f, frame, dest).set(s.rvalue(f, frame, rv.strip(), s.local_ty(f, dest)))
            return None
        if ln.startswith(('StorageLive', 'StorageDead', 'nop', 'FakeRead', 'PlaceMention', 'Retag', 'AscribeUserType')):
            return None
        raise Unsupported('stmt ' + ln)

    def rvalue(s, f, frame, rv, dty):
        m = re.fullmatch(r'((?:copy|move|const) .*) as (.+) \((\w+)(?:\(.*\))?\)', rv)
        if m:
            v = s.operand(f, frame, m.group(1))
            src_ty = s.operand_ty(f, m.group(1))
            if m.group(3) == 'Transmute' and isinstance(v, Agg) and v.ty == 'NonNull': return v.f[0]
            if m.group(3) == 'IntToFloat':
                if is_sym(v):
                    sg = INT_TYPES.get(src_ty, (64, 1))[1]
                    return z3.fpSignedToFP(z3.RNE(), v, z3.Float64()) if sg else z3.fpUnsignedToFP(z3.RNE(), v, z3.Float64())
                return float(v)
            if m.group(3) == 'IntToInt' and m.group(2) in INT_TYPES and is_sym(v) and not z3.is_bool(v):
                dw, _ = INT_TYPES[m.group(2)]
                sg = INT_TYPES.get(src_ty, (v.size(), 0))[1]
                if dw <= v.size(): return z3.Extract(dw - 1, 0, v) if dw < v.size() else v
                return z3.SignExt(dw - v.size(), v) if sg else z3.ZeroExt(dw - v.size(), v)
            if m.group(3) == 'IntToInt' and m.group(2) in INT_TYPES and isinstance(v, int) and not isinstance(v, bool):
                dw, dsg = INT_TYPES[m.group(2)]
                v &= (1 << dw) - 1
                if dsg and v >> (dw - 1): v -= 1 << dw
                return v
            return v
        if rv.startswith(('copy ', 'move ', 'const ', 'no_retag ')):
            return s.operand(f, frame, rv)
        m = re.fullmatch(r'&(mut )?(.*)', rv)
        if m and not rv.startswith('&raw'): return s.place(f, frame, m.group(2))
        m = re.fullmatch(r'discriminant\((.*)\)', rv)
        if m:
            v = s.place(f, frame, m.group(1)).get()
            return v.var
        m = re.fullmatch(r'(\w+)\((.*)\)', rv)
        if m and m.group(1) in ('Eq', 'Ne', 'Lt', 'Le', 'Gt', 'Ge', 'Add', 'Sub', 'Mul', 'Div', 'Rem', 'Shl', 'Shr', 'BitXor', 'BitAnd', 'BitOr', 'Not',
                                'AddWithOverflow', 'SubWithOverflow', 'MulWithOverflow'):
            ops = split_top(m.group(2))
            vals = [s.operand(f, frame, o) for o in ops]
            op = m.group(1)
            oty = s.operand_ty(f, ops[0]) or 'usize'
            if op == 'Not':
                v = vals[0]
                if isinstance(v, bool): return not v
                if is_sym(v): return z3.Not(v) if z3.is_bool(v) else ~v
                w, _ = INT_TYPES[oty]
                return (~v) & ((1 << w) - 1)
            if op.endswith('WithOverflow'):
                return s.overflow_op(op[:-12], vals[0], vals[1], oty)
            return s.binop(op, vals[0], vals[1], oty)
        m = re.fullmatch(r'(.*) as (\w+) \(IntToInt\)', rv)
        if m:
            return s.operand(f, frame, m.group(1))      # char->u32, widths ignored in prototype
        m = re.fullmatch(r'(\{closure@[^}]*\}) \{ (.*) \}', rv)
        if m:
            return Agg(m.group(1), None, [s.operand(f, frame, o.split(': ', 1)[1]) for o in split_top(m.group(2))])
        if rv.startswith('[') and rv.endswith(']'):
            return [s.operand(f, frame, o) for o in split_top(rv[1:-1])]
        if rv.startswith('(') and rv.endswith(')'):
            inner = rv[1:-1]
            return Agg('tuple', None, [s.operand(f, frame, o) for o in split_top(inner)] if inner.strip() else [])
        # enum / struct aggregates
        m = re.fullmatch(r'([\w:<>\', &()]+?)::(\w+)(?:\((.*)\))?', rv)
        if m:
            en = enum_of(m.group(1))
            if en:
                fields = [s.operand(f, frame, o) for o in split_top(m.group(3))] if m.group(3) else []
                return Agg(en, ENUMS[en].index(m.group(2)), fields)
        if rv in ('Less', 'Equal', 'Greater'): return Agg('Ordering', {'Less': -1, 'Equal': 0, 'Greater': 1}[rv], [])
        if re.fullmatch(r'[\w:]+', rv): return ('opaque', rv)
        m = re.fullmatch(r'([\w:<>\', &()]+?) \{ (.*) \}', rv)
        if m:
            fields = [s.operand(f, frame, o.split(': ', 1)[1]) for o in split_top(m.group(2))]
            return Agg(re.sub(r'::<.*', '', m.group(1)), None, fields)
        raise Unsupported('rvalue ' + rv)

    def place_ty(s, f, p):
        p = p.strip()
        if re.fullmatch(r'_\d+', p): return f.locals.get(p)
        if p.startswith('(*') and p.endswith(')'):
            t = s.place_ty(f, p[2:-1])
            return re.sub(r"^&(?:'\w+ )?(?:mut )?", '', t) if t else None
        m = re.fullmatch(r'\(.*: ([^()]+)\)', p)
        if m: return m.group(1)
        return None

    def operand_ty(s, f, o):
        o = o.strip()
        m = re.fullmatch(r'(?:no_retag )?(?:copy|move) (.*)', o)
        if m:
            t = s.place_ty(f, m.group(1))
            if t in INT_TYPES: return t
        m = re.fullmatch(r'(?:copy|move) (_\d+)', o)
        if m: return f.locals.get(m.group(1))
        m = re.fullmatch(r"const '.*'", o)
        if m: return 'char'
        m = re.fullmatch(r'const -?\d+_(\w+)', o)
        if m: return m.group(1)
        m = re.fullmatch(r'(?:copy|move) \(.*: (\w+)\)', o)
        if m: return m.group(1)
        return None

    # ---- library models
    def do_call(s, callee, a):
        if callee in PURE and any(is_sym(x) for x in a):
            return s.summary(callee, a)
        if callee in s.funcs: return s.call(callee, a)
        r = s.resolve(callee, a)
        if r: return s.call(r, a)
        r_ = s.seq_models(re.sub(r"<'_>", '', callee) if False else callee, a)
        if r_ is not NotImplemented: return r_
        m = re.fullmatch(r'(\w+)::(\w+)', callee)
        if m:
            for name, fn in s.funcs.items():
                if name.endswith('>::' + m.group(2)) and fn.ret in (m.group(1), 'lex::' + m.group(1), 'Self'):
                    return s.call(name, a)
        c = re.sub(r"<'_>", '', callee)
        # crate fns referenced with module path
        for k in (callee, 'lex::' + callee):
            if k in s.funcs: return s.call(k, a)
        if c == 'core::str::<impl str>::char_indices': return CharIndices(a[0])
        if c == '<CharIndices as Iterator>::peekable': return Peekable(a[0])
        if c in ('Peekable::<CharIndices>::peek',):
            pk = a[0].get()
            if pk.peeked is None: pk.peeked = s.ci_next(pk.it)
            if pk.peeked.var == 0: return NONE()
            return mk_some(Ref(Box(pk.peeked), (0,)))
        if c in ('<Peekable<CharIndices> as Iterator>::next', '<&mut Peekable<CharIndices> as Iterator>::next'):
            pk = a[0].get()
            if isinstance(pk, Ref): pk = pk.get()
            if pk.peeked is not None:
                r, pk.peeked = pk.peeked, None
                return r
            return s.ci_next(pk.it)
        if c == '<&mut Peekable<CharIndices> as IntoIterator>::into_iter': return a[0]
        m = re.fullmatch(r'Option::<.*?>::unwrap', c)
        if m:
            if a[0].var == 0: raise Panic('unwrap on None')
            return a[0].f[0]
        m = re.fullmatch(r'Option::<.*>::ok_or::<.*>', c)
        if m: return Agg('Result', 0, [a[0].f[0]]) if a[0].var == 1 else Agg('Result', 1, [a[1]])
        m = re.fullmatch(r'Option::<.*>::ok_or_else::<.*, \{closure@(.*)\}>', c)
        if m:
            if a[0].var == 1: return Agg('Result', 0, [a[0].f[0]])
            return Agg('Result', 1, [s.call_closure(a[1], [])])
        if re.fullmatch(r'<Result<.*> as Try>::branch', c):
            r = a[0]
            return Agg('ControlFlow', 0, [r.f[0]]) if r.var == 0 else Agg('ControlFlow', 1, [Agg('Result', 1, [r.f[0]])])
        if re.fullmatch(r'<Result<.*> as FromResidual<.*>>::from_residual', c):
            return Agg('Result', 1, [a[0].f[0]])
        if c == 'std::char::methods::<impl char>::len_utf8':
            ch = a[0]
            if not is_sym(ch): return len(chr(ch).encode())
            if s.branch(z3.ULT(ch, 0x80)): return 1
            if s.branch(z3.ULT(ch, 0x800)): return 2
            if s.branch(z3.ULT(ch, 0x10000)): return 3
            return 4
        mm = re.fullmatch(r'std::char::methods::<impl char>::(\w+)', c)
        if mm: return s.char_pred(mm.group(1), a[0])
        if c == 'Vec::<Token>::new': return []
        if c == 'Vec::<Token>::push': a[0].get().append(a[1]); return UNIT
        if c in ('<char as Into<String>>::into', '<&str as Into<String>>::into'): return ('String', a[0])
        r_ = s.number_models(c, a)
        if r_ is not None: return r_

        m = re.fullmatch(r'RefCell::<.*>::(borrow|borrow_mut)', c)
        if m:
            cell = a[0]                     # Ref to Agg('RefCell', [value, flag])
            rcv = cell.get()
            if m.group(1) == 'borrow':
                if rcv.f[1] < 0: raise Panic('already mutably borrowed')
                rcv.f[1] += 1
                return Agg('Ref', None, [Ref(cell.box, cell.path + (0,)), cell])
            if rcv.f[1] != 0: raise Panic('already borrowed')
            rcv.f[1] = -1
            return Agg('RefMut', None, [Ref(cell.box, cell.path + (0,)), cell])
        if re.fullmatch(r"<Ref(Mut)?<.*> as Deref(Mut)?>::deref(_mut)?", c):
            return a[0].get().f[0]
        m = re.fullmatch(r'Option::<&.*>::cloned', c)
        if m: return NONE() if a[0].var == 0 else mk_some(s.clone(a[0].f[0].get()))
        m = re.fullmatch(r'Option::<.*>::(is_some|is_none)', c)
        if m:
            o = a[0].get() if isinstance(a[0], Ref) else a[0]
            return (o.var == 1) == (m.group(1) == 'is_some')
        m = re.fullmatch(r'(Option|Result)::<.*>::(expect|unwrap)', c)
        if m:
            ok = 1 if m.group(1) == 'Option' else 0
            if a[0].var != ok: raise Panic(m.group(2) + ' failed')
            return a[0].f[0]
        if re.fullmatch(r"<T as Into<Cow<VCell>>>::into|<&VCell as Into<Cow<VCell>>>::into", c.replace("'_, ", '')):
            return Agg('Cow', 0, [a[0]]) if isinstance(a[0], Ref) else Agg('Cow', 1, [a[0]])
        if re.fullmatch(r'<T as Into<VCell>>::into|<VCell as Into<VCell>>::into', c): return a[0]
        if re.fullmatch(r'<.* as ToString>::to_string|format|alloc::fmt::format|must_use::<String>', c): return ('String', 'opaque')
        if c.startswith('core::fmt::rt::Argument::') or c.startswith('Arguments::'): return ('opaque', 'fmt')
        m = re.fullmatch(r'<(i64|i32|u64|usize|u32) as ToPrimitive>::to_(usize|u64|i64|u32|i32)', c)
        if m:
            v = a[0].get() if isinstance(a[0], Ref) else a[0]
            sw, ssig = INT_TYPES[m.group(1)]; dw, dsig = INT_TYPES[m.group(2)]
            lo, hi = (-(1 << (dw - 1)), (1 << (dw - 1)) - 1) if dsig else (0, (1 << dw) - 1)
            if not is_sym(v):
                return mk_some(v) if lo <= v <= hi else NONE()
            fits = z3.BoolVal(True)
            if ssig:
                if lo > -(1 << (sw - 1)): fits = z3.And(fits, v >= lo)
                if hi < (1 << (sw - 1)) - 1: fits = z3.And(fits, v <= hi)
            else:
                if hi < (1 << sw) - 1: fits = z3.And(fits, z3.ULE(v, hi))
            if s.branch(z3.simplify(fits)): return mk_some(s.resize(v, dw) if dw <= sw else (z3.SignExt(dw - sw, v) if ssig else z3.ZeroExt(dw - sw, v)))
            return NONE()
        if c == '<std::ops::Range<usize> as Iterator>::rev': return Agg('Rev', None, [a[0]])
        if c == '<Rev<std::ops::Range<usize>> as IntoIterator>::into_iter': return a[0]
        if c == '<Rev<std::ops::Range<usize>> as Iterator>::next':
            r = a[0].get().f[0]
            if s.branch(s.binop('Lt', r.f[0], r.f[1], 'usize')):
                r.f[1] = s.binop('Sub', r.f[1], 1, 'usize'); return mk_some(r.f[1])
            return NONE()
        if re.fullmatch(r'std::vec::from_elem::<.*>', c):
            return [s.clone(a[0]) for _ in range(a[1])]
        m = re.fullmatch(r'Vec::<.*>::resize', c)
        if m:
            lst = a[0].get()
            while len(lst) < a[1]: lst.append(s.clone(a[2]))
            del lst[a[1]:]
            return UNIT
        if re.fullmatch(r'<Vec<.*> as Deref(Mut)?>::deref(_mut)?', c): return a[0]
        if re.fullmatch(r'<Rc<.*> as (Deref|AsRef<.*>)>::(deref|as_ref)', c): return a[0].get()
        m = re.fullmatch(r'core::slice::<impl \[.*\]>::get(_mut)?::<usize>', c)
        if m:
            lst = a[0].get(); i = a[1]
            inb = s.binop('Lt', i, len(lst), 'usize')
            if not s.branch(inb): return NONE()
            i = s.concretize(i, 0, len(lst) - 1)
            return mk_some(Ref(a[0].box, a[0].path + (i,)))
        m = re.fullmatch(r'Option::<.*>::map::<.*>', c)
        if m:
            if a[0].var == 0: return NONE()
            return mk_some(s.call_closure(a[1], [a[0].f[0]]))
        if c == '<&u8 as Shr<usize>>::shr':
            return s.binop('Shr', a[0].get(), s.trunc(a[1], 8), 'u8')
        m = re.fullmatch(r'Vec::<.*>::(len|push|pop)', c)
        if m:
            lst = a[0].get()
            if m.group(1) == 'len': return len(lst)
            if m.group(1) == 'push': lst.append(a[1]); return UNIT
            return mk_some(lst.pop()) if lst else NONE()
        if c == '<std::ops::Range<usize> as IntoIterator>::into_iter': return a[0]
        if c == '<std::ops::Range<usize> as Iterator>::next':
            r = a[0].get()
            if s.branch(s.binop('Lt', r.f[0], r.f[1], 'usize')):
                v = r.f[0]; r.f[0] = s.binop('Add', v, 1, 'usize'); return mk_some(v)
            return NONE()
        if c == '<Level as PartialOrd<LevelFilter>>::le': return False
        if c.startswith('HashMap::<String, usize>::remove'):
            d = a[0].get(); k = a[1].get() if isinstance(a[1], Ref) else a[1]
            return mk_some(d.pop(k)) if k in d else NONE()
        if re.fullmatch(r'<.* as Clone>::clone', c):
            v = a[0].get() if isinstance(a[0], Ref) else a[0]
            return s.clone(v)
        raise Unsupported('call ' + callee)

    def as_slice(s, v):
        if isinstance(v, SliceRef): return v
        if isinstance(v, Ref): return SliceRef(v, 0, len(v.get()))
        raise Unsupported('as_slice ' + repr(v))

    def iter_next(s, it):
        if isinstance(it, Ref): it = it.get()
        if isinstance(it, Agg) and it.ty == 'Box': it = it.f[0].f[0].f[0].get()
        if isinstance(it, SliceIter):
            if it.lo >= it.hi: return NONE()
            r = mk_some(Ref(it.lref.box, it.lref.path + (it.lo,))); it.lo += 1; return r
        if isinstance(it, RevIter):
            b = it.it
            if b.lo >= b.hi: return NONE()
            b.hi -= 1; return mk_some(Ref(b.lref.box, b.lref.path + (b.hi,)))
        if isinstance(it, EnumIter):
            r = s.iter_next(it.it)
            if r.var == 0: return r
            k = it.n; it.n += 1
            return mk_some(Agg('tuple', None, [k, r.f[0]]))
        raise Unsupported('iter_next ' + repr(it))

    def seq_models(s, c, a):
        c2 = c.replace('std::slice::Iter', 'Iter').replace('std::ops::', '')
        if re.fullmatch(r'core::slice::<impl \[.*\]>::iter', c2): return SliceIter(s.as_slice(a[0]))
        if re.fullmatch(r'<Iter<.*> as Iterator>::rev', c2): return RevIter(a[0])
        if re.fullmatch(r'<Iter<.*> as Iterator>::enumerate', c2): return EnumIter(a[0])
        m = re.fullmatch(r'<\[.*\] as Index<(RangeTo|RangeFrom|Range)<usize>>>::index', c2)
        if m:
            sl = s.as_slice(a[0]); r = a[1]
            n = sl.hi - sl.lo
            lo, hi = {'RangeTo': (0, r.f[0]), 'RangeFrom': (r.f[0], n), 'Range': (r.f[0], r.f[-1])}[m.group(1)]
            if is_sym(lo) or is_sym(hi): raise Unsupported('symbolic slice bounds')
            if lo > hi or hi > n: raise Panic('slice index out of range')
            return SliceRef(sl.lref, sl.lo + lo, sl.lo + hi)
        if re.fullmatch(r'Box::<.*>::new', c2):
            return Agg('Box', None, [Agg('Unique', None, [Agg('NonNull', None, [Ref(Box(a[0]))])])])
        if re.fullmatch(r'<&mut dyn Iterator<.*> as IntoIterator>::into_iter', c2): return a[0]
        if re.fullmatch(r'<&mut dyn Iterator<.*> as Iterator>::next', c2): return s.iter_next(a[0].get())
        m = re.fullmatch(r'<Enumerate<Iter<.*>> as Iterator>::find::<(\{closure@.*\})>', c2)
        if m:
            it = a[0].get()
            while True:
                r = s.iter_next(it)
                if r.var == 0: return NONE()
                item = r.f[0]
                ok = s.call_closure(a[1], [Ref(Box(item))], by_ref=True)
                if s.branch(ok if not isinstance(ok, bool) else ok): return mk_some(item)
        if c2 == 'core::num::<impl usize>::saturating_sub':
            x, y = a
            if not is_sym(x) and not is_sym(y): return max(0, x - y)
            xb = x if is_sym(x) else z3.BitVecVal(x, 64); yb = y if is_sym(y) else z3.BitVecVal(y, 64)
            return z3.If(z3.ULT(xb, yb), z3.BitVecVal(0, 64), xb - yb)
        m = re.fullmatch(r'<str as Index<(RangeTo|RangeFrom|Range)<usize>>>::index', c2)
        if m:
            sr = a[0]; r = a[1]
            offs, total = [], 0
            for _, w in sr.chars(): offs.append(total); total += w
            offs.append(total)
            lo, hi = {'RangeTo': (0, r.f[0]), 'RangeFrom': (r.f[0], total), 'Range': (r.f[0], r.f[-1])}[m.group(1)]
            if is_sym(lo) or is_sym(hi): raise Unsupported('symbolic str slice bounds')
            if lo > hi or hi > total or lo not in offs or hi not in offs: raise Panic('str slice out of range / not on char boundary')
            return StrRef(sr.obj, sr.a + offs.index(lo), sr.a + offs.index(hi))
        if c2.startswith("core::fmt::rt::Argument::<'_>::new_display"): return ('fmtarg', 'display', a[0])
        m = re.fullmatch(r"Arguments::<'_>::new::<\d+, \d+>", c2)
        if m: return ('fmtargs', a[0], a[1])
        if c2 in ('format', 'alloc::fmt::format') and isinstance(a[0], tuple) and a[0][0] == 'fmtargs':
            tpl = a[0][1]; args = a[0][2].get(); out = []; k = 0; ai = 0
            while True:
                n = tpl[k]; k += 1
                if n == 0: break
                if n < 0x80:
                    out += [(x, 1) for x in tpl[k:k+n]]; k += n      # ASCII literals only in this probe
                elif n == 0xC0:
                    arg = args[ai]; ai += 1
                    v = arg[2]
                    while isinstance(v, Ref): v = v.get()
                    out += list(v.chars()) if hasattr(v, 'chars') and callable(v.chars) else (list(v.chars) if hasattr(v, 'chars') else [(ord('?'), 1)])
                else:
                    # placeholder with options: skip option fields, emit opaque piece (probe only)
                    k += (4 if n & 1 else 0) + (2 if n & 2 else 0) + (2 if n & 4 else 0) + (2 if n & 8 else 0)
                    ai += 1; out.append((ord('?'), 1))
            return RString(out)
        if c2 == 'must_use::<String>': return a[0]
        return NotImplemented

    def ordering(s, lt, eq, gt=None):
        if s.branch(lt): return mk_some(Agg('Ordering', -1, []))
        if s.branch(eq): return mk_some(Agg('Ordering', 0, []))
        if gt is None or s.branch(gt): return mk_some(Agg('Ordering', 1, []))
        return NONE()

    def number_models(s, c, a):
        dr = lambda x: x.get() if isinstance(x, Ref) else x
        bv = lambda x, w: x if is_sym(x) else z3.BitVecVal(x, w)
        if c == '<i64 as PartialOrd>::partial_cmp':
            x, y = bv(dr(a[0]), 64), bv(dr(a[1]), 64)
            return s.ordering(x < y, x == y)
        if c == '<f64 as PartialOrd>::partial_cmp':
            x, y = dr(a[0]), dr(a[1])
            x = x if is_sym(x) else z3.FPVal(x, z3.Float64()); y = y if is_sym(y) else z3.FPVal(y, z3.Float64())
            return s.ordering(z3.fpLT(x, y), z3.fpEQ(x, y), z3.fpGT(x, y))
        if c == '<BigInt as From<i64>>::from': return z3.BV2Int(bv(a[0], 64), is_signed=True)
        if c == '<BigInt as PartialOrd>::partial_cmp':
            x, y = dr(a[0]), dr(a[1]); return s.ordering(x < y, x == y)
        if c == '<BigInt as ToPrimitive>::to_f64':
            return mk_some(z3.fpRealToFP(z3.RNE(), z3.ToReal(dr(a[0])), z3.Float64()))
        if c == '<BigInt as ToPrimitive>::to_i32':
            x = dr(a[0])
            if s.branch(z3.And(x >= -(1 << 31), x < (1 << 31))): return mk_some(z3.Int2BV(x, 32))
            return NONE()
        if c == 'Ratio::<i32>::from_integer': return Agg('Ratio', None, [a[0], 1])
        if c == '<Ratio<i32> as PartialOrd>::partial_cmp':
            x, y = dr(a[0]), dr(a[1])
            e = lambda v: z3.SignExt(32, bv(v, 32))
            l, r = e(x.f[0]) * e(y.f[1]), e(y.f[0]) * e(x.f[1])
            return s.ordering(l < r, l == r)
        if c == '<Ratio<i32> as ToPrimitive>::to_f64':
            x = dr(a[0]); f = lambda v: z3.fpSignedToFP(z3.RNE(), bv(v, 32), z3.Float64())
            return mk_some(z3.fpDiv(z3.RNE(), f(x.f[0]), f(x.f[1])))
        return None

    def trunc(s, v, w):
        if is_sym(v): return s.resize(v, w)
        return v & ((1 << w) - 1)

    def resolve(s, callee, a):
        c = re.sub(r"<'_>|'_, |'_ ", '', callee)
        c = re.sub(r'::<[^<>]*(<[^<>]*>)?[^<>]*>$', '', c)      # trailing turbofish
        m = re.fullmatch(r'<(.+) as (.+)>::(\w+)', c)
        if m:
            ty, tr, meth = m.group(1).split('::')[-1], re.sub(r'\s', '', m.group(2)), m.group(3)
            ty = re.sub(r'^&(mut )?', '', ty)
            for k in ('<%s as %s>::%s' % (ty, tr, meth), '<%s as %s>::%s' % (ty, re.sub(r'<.*', '', tr), meth)):
                if k in INDEX: return INDEX[k]
            im = re.match(r'Into<(.*)>$', tr)
            if im:
                k = '<%s as From<%s>>::from' % (im.group(1).split('::')[-1], m.group(1))
                if k in INDEX: return INDEX[k]
            return None
        m = re.fullmatch(r'(?:[\w:]+::)?<impl ([\w:]+)>::(\w+)', c)
        if m:
            k = '%s::%s' % (m.group(1).split('::')[-1], m.group(2))
            if k in INDEX: return INDEX[k]
        parts = c.split('::')
        if len(parts) >= 2:
            k = '%s::%s' % (re.sub(r'<.*', '', parts[-2]), parts[-1])
            if k in INDEX: return INDEX[k]
        if parts[-1] in INDEX and '::' not in c: return INDEX[parts[-1]]
        return None

    def summary(s, callee, a):
        # explore all paths of a pure scalar function under the current path condition, merge into one term
        key = (callee, tuple(str(x) for x in a))
        if key in s.sumcache: return s.sumcache[key]
        work = [[]]; res = []
        while work:
            dec = work.pop()
            sub = Interp(s.funcs, dec); sub.sumcache = s.sumcache
            for x in a:
                if is_sym(x) and x.size() == 32: sub.solver.add(z3.ULT(x, 128))
            base = len(sub.solver.assertions())
            try:
                r = sub.call(callee, a)
                pc = z3.And([x for x in list(sub.solver.assertions())[base:]] + [z3.BoolVal(True)])
                res.append((pc, r))
            except Infeasible: pass
            work.extend(sub.pending)
            s.steps += sub.steps; s.solver_calls += sub.solver_calls; s.solver_time += sub.solver_time
        out = None
        for pc, r in res:
            rb = r if is_sym(r) else z3.BoolVal(bool(r))
            out = z3.And(pc, rb) if out is None else z3.Or(out, z3.And(pc, rb))
        out = z3.simplify(out)
        s.sumcache[key] = out
        return out

    def call_closure(s, clo, args, by_ref=False):
        if by_ref:
            for name, f in s.funcs.items():
                if '{closure' in name and f.params and clo.ty in f.params[0][1]:
                    first = Ref(Box(clo)) if f.params[0][1].startswith('&') else clo
                    return s.call(name, [first] + args)
            raise Unsupported('closure ' + clo.ty)
        return s.call_closure_old(clo, args)

    def call_closure_old(s, clo, args):
        m = re.search(r'closure@marwood/src/(\w+)\.rs:(\d+):(\d+)', clo.ty)
        for name, f in s.funcs.items():
            if '{closure#' in name and f.params and clo.ty in f.params[0][1]:
                return s.call(name, [clo] + args)
        raise Unsupported('closure ' + clo.ty)

    def ci_next(s, ci):
        cs = ci.sr.chars()
        if ci.i >= len(cs): return NONE()
        ch, w = cs[ci.i]
        r = mk_some(Agg('tuple', None, [ci.off, ch]))
        ci.i += 1; ci.off += w
        return r

    def char_pred(s, name, ch):
        if isinstance(ch, Ref): ch = ch.get()
        if not is_sym(ch):
            c = chr(ch)
            return {'is_alphabetic': c.isalpha(), 'is_whitespace': c.isspace(), 'is_ascii_digit': c in '0123456789',
                    'is_ascii_hexdigit': c in '0123456789abcdefABCDEF', 'is_ascii_alphabetic': c.isascii() and c.isalpha(),
                    'is_ascii_alphanumeric': c.isascii() and c.isalnum(), 'is_numeric': c.isnumeric()}[name]
        rng = lambda lo, hi: z3.And(z3.UGE(ch, ord(lo)), z3.ULE(ch, ord(hi)))
        alpha = z3.Or(rng('a', 'z'), rng('A', 'Z'))
        digit = rng('0', '9')
        hexd = z3.Or(digit, rng('a', 'f'), rng('A', 'F'))
        ws = z3.Or(ch == 32, z3.And(z3.UGE(ch, 9), z3.ULE(ch, 13)))
        # prototype: symbolic chars are ASCII only
        return {'is_alphabetic': alpha, 'is_whitespace': ws, 'is_ascii_digit': digit, 'is_ascii_hexdigit': hexd,
                'is_ascii_alphabetic': alpha, 'is_ascii_alphanumeric': z3.Or(alpha, digit)}[name]


def explore(funcs, n, prop):
    work = [[]]
    paths = 0; viol = []; unsup = {}
    st = dict(steps=0, solver_calls=0, solver_time=0.0)
    t0 = time.time()
    while work:
        dec = work.pop()
        it = Interp(funcs, dec)
        chars = [z3.BitVec(f'c{i}', 32) for i in range(n)]
        for c in chars: it.solver.add(z3.ULT(c, 128))
        text = StrRef(StrObj([(c, 1) for c in chars]), 0, n)
        try:
            r = it.call('lex::scan', [text])
            bad = prop(it, r, n)
            if bad: viol.append((bad, it))
        except Panic as e:
            it.solver.check(); viol.append(('panic: ' + str(e), it))
        except Infeasible:
            pass
        except Unsupported as e:
            unsup[str(e)] = unsup.get(str(e), 0) + 1
        paths += 1
        work.extend(it.pending)
        for k in st: st[k] += getattr(it, k)
    return paths, viol, unsup, st, time.time() - t0

def token_prop(it, r, n):
    if r.var != 0: return None
    prev = 0
    for t in r.f[0]:
        a, b = t.f[0].f
        if not (a < b and b <= n and a >= prev): return f'bad span {a},{b}'
        prev = b
    return None

if __name__ == '__main__':
    funcs = parse_mir(open(sys.argv[1]).read())
    print('parsed', len(funcs), 'functions')
    n = int(sys.argv[2])
    paths, viol, unsup, st, wall = explore(funcs, n, token_prop)
    print(f'n={n} paths={paths} violations={len(viol)} unsupported={unsup} {st} wall={wall:.1f}s')
    for v, it in viol[:5]:
        it.solver.check(); print(v, it.solver.model())
