"""Feasibility probe (C20): the real ReplHighlighter::highlight (+ lex::scan) from MIR on symbolic text and cursor."""
import sys, os, time
sys.path.insert(0, os.path.dirname(os.path.abspath(__file__)))
import z3
import mirsym_prototype as M
from mirsym_prototype import Agg, Ref, Box, Interp, Panic, Unsupported, Infeasible, StrObj, StrRef, RString
funcs = M.parse_mir(open(os.environ.get('MARWOOD_MIR', 'marwood.mir')).read())
M.load_enums('/repo/marwood/src')
M.INDEX.update(M.build_index(funcs, '/repo/marwood/src'))
HL = M.INDEX['ReplHighlighter::highlight']
TT = M.ENUMS['TokenType']
ALPHABET = [ord(c) for c in '()[]# a"']     # symbolic choice per position (keeps the probe small)

def oracle(tokens, n, cursor):
    """independent matcher over token list [(lo,hi,type)] -> span to underline or None"""
    def at(i): return next(((k, t) for k, t in enumerate(tokens) if t[0] <= i < t[1]), None)
    cur = at(cursor) or (at(cursor - 1) if cursor > 0 else None)
    if not cur: return None
    k, t = cur
    opener = lambda x: x[2] in ('LeftParen', 'HashParen'); closer = lambda x: x[2] == 'RightParen'
    if opener(t):
        d = 0
        for u in tokens[k + 1:]:
            if opener(u): d += 1
            elif closer(u):
                if d == 0: return (u[0], u[1])
                d -= 1
    elif closer(t):
        d = 0
        for u in reversed(tokens[:k]):
            if closer(u): d += 1
            elif opener(u):
                if d == 0: return (u[0], u[1])
                d -= 1
    return None

def run(n):
    work = [[]]; paths = 0; viol = []; unsup = {}; t0 = time.time()
    while work:
        dec = work.pop(); it = Interp(funcs, dec)
        try:
            chars = [ALPHABET[it.choose(len(ALPHABET))] for _ in range(n)]
            text = StrRef(StrObj([(c, 1) for c in chars]), 0, n)
            cursor = z3.BitVec('cursor', 64); it.solver.add(z3.ULE(cursor, n + 1))
            out = it.call(HL, [Ref(Box(Agg('ReplHighlighter', None, []))), text, cursor])
            cur = it.concretize(cursor, 0, n + 1)
            lexed = it.call('lex::scan', [text])
            got = ''.join(chr(c) for c, _ in (out.f[0].chars() if out.var == 0 else out.f[0].chars))
            src = ''.join(map(chr, chars))
            if lexed.var != 0: want = src
            else:
                toks = [(t.f[0].f[0], t.f[0].f[1], TT[t.f[1].var]) for t in lexed.f[0]]
                sp = oracle(toks, n, cur)
                want = src if sp is None else src[:sp[0]] + '\x1b[4m' + src[sp[0]:sp[1]] + '\x1b[0m' + src[sp[1]:]
            if got != want: viol.append((src, cur, got, want))
        except Panic as e: viol.append(('panic', str(e)))
        except Unsupported as e: unsup[str(e)[:40]] = unsup.get(str(e)[:40], 0) + 1
        except Infeasible: pass
        paths += 1; work.extend(it.pending)
    print(f'n={n} paths={paths} violations={len(viol)} unsupported={unsup} wall={time.time()-t0:.1f}s')
    for v in viol[:6]: print('   ', v)
for n in [int(x) for x in sys.argv[1:]] or [2, 3]: run(n)
