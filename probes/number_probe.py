"""Feasibility probe (C09): the real `impl PartialOrd for Number` from MIR, all 16 representation pairs,
payloads symbolic at full width (rational denominators from a small palette); oracle = exact comparison in z3 reals."""
import sys, os, time
sys.path.insert(0, os.path.dirname(os.path.abspath(__file__)))
import z3
import mirsym_prototype as M
from mirsym_prototype import Agg, Ref, Box, Interp, Panic, Unsupported, Infeasible
funcs = M.parse_mir(open(os.environ.get('MARWOOD_MIR', 'marwood.mir')).read())
M.load_enums('/repo/marwood/src')
M.INDEX.update(M.build_index(funcs, '/repo/marwood/src'))
PCMP = M.INDEX['<Number as PartialOrd>::partial_cmp']
KINDS = ['Fixnum', 'Float', 'BigInt', 'Rational']
DENS = [1, 2, 3, 7, 65536, 2147483647]

def mk(it, kind, tag):
    """returns (Number value, exact value as z3 Real)"""
    if kind == 'Fixnum':
        v = z3.BitVec(tag + '_fix', 64); return Agg('Number', 0, [v]), z3.ToReal(z3.BV2Int(v, is_signed=True))
    if kind == 'Float':
        v = z3.FP(tag + '_flt', z3.Float64()); it.solver.add(z3.Not(z3.fpIsNaN(v)), z3.Not(z3.fpIsInf(v)))
        return Agg('Number', 1, [v]), z3.fpToReal(v)
    if kind == 'BigInt':
        v = z3.Int(tag + '_big'); it.solver.add(v > -(1 << 130), v < (1 << 130))
        return Agg('Number', 2, [Ref(Box(v))]), z3.ToReal(v)
    n = z3.BitVec(tag + '_num', 32); d = DENS[it.choose(len(DENS))]
    it.solver.add(n != -(1 << 31))
    return Agg('Number', 3, [Agg('Ratio', None, [n, d])]), z3.ToReal(z3.BV2Int(n, is_signed=True)) / d

F64 = z3.Float64()
def exact_int_float(a, b):
    """a: signed BV64, b: finite FP64 -> (lt, eq, gt) as z3 Bools, all in BV+FP (no reals)."""
    two63 = z3.FPVal(2.0 ** 63, F64)
    big_pos = z3.fpGEQ(b, two63); big_neg = z3.fpLT(b, z3.fpNeg(two63))
    t = z3.fpToSBV(z3.RTZ(), b, z3.BitVecSort(64))
    fr = z3.fpSub(z3.RNE(), b, z3.fpSignedToFP(z3.RNE(), t, F64))
    zero = z3.FPVal(0.0, F64)
    lt = z3.If(big_pos, True, z3.If(big_neg, False, z3.Or(a < t, z3.And(a == t, z3.fpGT(fr, zero)))))
    gt = z3.If(big_pos, False, z3.If(big_neg, True, z3.Or(a > t, z3.And(a == t, z3.fpLT(fr, zero)))))
    return lt, z3.And(z3.Not(lt), z3.Not(gt)), gt

def want_for(ka, kb, a, b, got):
    pa = a.f[0]; pb = b.f[0]
    if ka == 'Fixnum' and kb == 'Fixnum': tri = (pa < pb, pa == pb, pa > pb)
    elif ka == 'Float' and kb == 'Float': tri = (z3.fpLT(pa, pb), z3.fpEQ(pa, pb), z3.fpGT(pa, pb))
    elif ka == 'Fixnum' and kb == 'Float': tri = exact_int_float(pa, pb)
    elif ka == 'Float' and kb == 'Fixnum':
        l, e, g = exact_int_float(pb, pa); tri = (g, e, l)
    elif ka == 'Rational' and kb == 'Rational':
        ex = lambda v: z3.SignExt(32, v) if M.is_sym(v) else z3.BitVecVal(v, 64)
        l, r = ex(pa.f[0]) * ex(pb.f[1]), ex(pb.f[0]) * ex(pa.f[1]); tri = (l < r, l == r, l > r)
    else: return None
    return {-1: tri[0], 0: tri[1], 1: tri[2]}.get(got, z3.BoolVal(False))

RESTRICT = False
def run(ka, kb, budget=120):
    work = [[]]; paths = 0; cex = None; unsup = {}; t0 = time.time(); sc = 0
    while work and cex is None and time.time() - t0 < budget:
        dec = work.pop(); it = Interp(funcs, dec)
        try:
            a, ra = mk(it, ka, 'a'); b, rb = mk(it, kb, 'b')
            r = it.call(PCMP, [Ref(Box(a)), Ref(Box(b))])
            got = r.f[0].var if r.var == 1 else None
            want = want_for(ka, kb, a, b, got)
            if want is None: return
            if RESTRICT and ka == 'Fixnum' and kb == 'Float':
                it.solver.add(a.f[0] <= (1 << 53), a.f[0] >= -(1 << 53))
            it.solver.set('timeout', 20000)
            res = it.solver.check(z3.Not(want)); sc += 1
            if res == z3.sat:
                m = it.solver.model(); cex = (got, {str(d): m[d] for d in m.decls()})
            elif res == z3.unknown: unsup['solver unknown'] = unsup.get('solver unknown', 0) + 1
        except Unsupported as e: unsup[str(e)] = unsup.get(str(e), 0) + 1
        except Infeasible: pass
        paths += 1; work.extend(it.pending); sc += it.solver_calls
    status = 'COUNTEREXAMPLE' if cex else ('inconclusive' if unsup or work else 'holds')
    print(f'{ka:8} x {kb:8}: {status:14} paths={paths:3} queries={sc:4} wall={time.time()-t0:5.1f}s {unsup if unsup else ""} {cex if cex else ""}')

for ka in KINDS:
    for kb in KINDS: run(ka, kb)
RESTRICT = True
print('-- Fixnum x Float restricted to |a| <= 2^53 (expected to hold):')
run('Fixnum', 'Float')
