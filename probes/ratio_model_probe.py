"""Feasibility probe (C08): Ratio<i32>::checked_add transcribed from num-rational 0.4.1 over
(symbolic 32-bit numerators, concrete denominators); gcd(x, c) by divisor case split.
Decides, per denominator pair: (1) Some(r) => r equals the exact sum and is reduced, d>0;
(2) None => the exact reduced sum does not fit i32/i32 (else: 'inexact although representable')."""
import z3, time, math, itertools, sys
def divisors(c): return [d for d in range(1, int(c ** 0.5) + 1) if c % d == 0] + [c // d for d in range(1, int(c ** 0.5) + 1) if c % d == 0 and d * d != c]
def primes(c):
    ps, x, p = [], c, 2
    while p * p <= x:
        if x % p == 0:
            ps.append(p)
            while x % p == 0: x //= p
        p += 1
    if x > 1: ps.append(x)
    return ps
I32MAX, I32MIN = 2**31 - 1, -2**31
def fits32(x): return z3.And(x >= I32MIN, x <= I32MAX)          # x: 64-bit signed
def gcd_is(x, c, g):   # gcd(|x|, c) == g for concrete c, g | c ; x 64-bit signed
    conds = [z3.SRem(x, g) == 0]
    for p in primes(c // g): conds.append(z3.SRem(x, g * p) != 0)
    return z3.And(conds)

def check(d1, d2, timeout=60000):
    n1, n2 = z3.BitVec('n1', 32), z3.BitVec('n2', 32)
    s = z3.Solver(); s.set('timeout', timeout)
    e = lambda v: z3.SignExt(32, v)
    for n, d in ((n1, d1), (n2, d2)):
        s.add(n != I32MIN)
        for p in primes(d): s.add(z3.SRem(e(n), p) != 0)      # reduced inputs
    g = math.gcd(d1, d2); lcm = (d1 // g) * d2
    lcm_ok = lcm <= I32MAX
    m1, m2 = (lcm // d1, lcm // d2)
    a, b = e(n1) * m1, e(n2) * m2                                # exact in 64 bit
    total = a + b
    some = z3.And(lcm_ok, fits32(a), fits32(b), fits32(total)) if lcm_ok else z3.BoolVal(False)
    # exact reduced result: G = gcd(total, lcm)
    t0 = time.time(); verdicts = []
    # (2) None but representable?
    s.push(); s.add(z3.Not(some)); s.add(total != 0)
    rep = z3.Or([z3.And(gcd_is(total, lcm, G), fits32(total / G), lcm // G <= I32MAX) for G in divisors(lcm)])
    s.add(rep); r = s.check(); w = (s.model()[n1], s.model()[n2]) if r == z3.sat else None; s.pop()
    verdicts.append(('None-but-representable', r, w))
    # (1) Some => library result (reduce(total, lcm)) in range: numer/G fits (always), nothing else to check: exact by construction
    return verdicts, time.time() - t0

pal = [2, 3, 6, 65536, 65537, 2 * 32771, 2 * 32779, 2**30, 2**31 - 1]
pairs = [(6, 4), (3, 65537), (65536, 65537), (2 * 32771, 2 * 32779), (2**30, 3), (2**31 - 1, 2)]
for d1, d2 in pairs:
    v, t = check(d1, d2)
    print(f'd1={d1} d2={d2}: ' + '; '.join(f'{k}: {r} {w if w else ""}' for k, r, w in v) + f'  [{t:.1f}s]')
