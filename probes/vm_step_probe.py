"""Feasibility probe: run the real Vm::run_one (CALL / ENTER / TCALL / RET) from MIR on a fabricated Vm.
Lemma probed (C04): from a base state, CALL f; ENTER; push b1..bm,argc; TCALL g; ENTER  ==  CALL g; ENTER directly."""
import sys, os, time, itertools
sys.path.insert(0, os.path.dirname(os.path.abspath(__file__)))
import z3
import mirsym_prototype as M
from mirsym_prototype import Agg, Ref, Box, Interp, Panic, Unsupported, Infeasible
funcs = M.parse_mir(open(os.environ.get('MARWOOD_MIR', 'marwood.mir')).read())
M.load_enums('/repo/marwood/src')
M.INDEX.update(M.build_index(funcs, '/repo/marwood/src'))
V = M.ENUMS['VCell']; OP = M.ENUMS['OpCode']
def vc(name, *f): return Agg('VCell', V.index(name), list(f))
def op(name): return vc('OpCode', Agg('OpCode', OP.index(name), []))
def num(x): return vc('Number', Agg('Number', 0, [x]))
def rc(v): return Ref(Box(v))
def lam(nargs, bc):
    return vc('Lambda', rc(Agg('Lambda', None, [False, False, Agg('EnvironmentMap', None, [[]]),
                                                  [vc('Ptr', 100 + i) for i in range(nargs)], bc, Agg('Option', 0, [])])))
UNDEF = lambda: vc('Undefined')

def mk_vm(heap_cells, stack_cells, sp, acc, ep, ip, bp):
    n = 16
    cells = heap_cells + [UNDEF() for _ in range(n - len(heap_cells))]
    heap = Agg('Heap', None, [n, list(range(n - 1, len(heap_cells) - 1, -1)), cells, Agg('Map', None, [n, [0] * (n // 4)]), {}])
    stack = Agg('Stack', None, [stack_cells + [UNDEF() for _ in range(32 - len(stack_cells))], sp])
    glob = Agg('GlobalEnvironment', None, [{}, []])
    return Agg('Vm', None, [heap, glob, stack, acc, ep, Agg('tuple', None, [ip[0], ip[1]]), bp, ('opaque', 'sys'), Agg('Option', 0, [])])

RUN_ONE = M.INDEX['Vm::run_one'] if 'Vm::run_one' in M.INDEX else [k for k in funcs if k.endswith('>::run_one')][0]

def step(it, vmbox, k=1):
    for _ in range(k):
        r = it.call(RUN_ONE, [Ref(vmbox)])
        if r.var != 0: raise Panic('run_one returned Err ' + repr(r))

def snapshot(it, vm):
    st = vm.f[2]
    sp = st.f[1]
    return (sp, [repr(c) for c in st.f[0][:sp + 1]], repr(vm.f[3]), vm.f[4], repr(vm.f[5]), vm.f[6])

def scenario(n, m):
    """caller lambda #3 calls f (#0, n args) which tail-calls g (#1, m args)"""
    it = Interp(funcs, [])
    a = [z3.BitVec(f'a{i}', 64) for i in range(n)]
    b = [z3.BitVec(f'b{i}', 64) for i in range(m)]
    f_l = lam(n, [op('Enter'), op('TCallAcc'), op('Halt')])
    g_l = lam(m, [op('Enter'), op('Ret')])
    caller = lam(0, [op('CallAcc'), op('Halt')])
    base = [num(7), num(8)]
    # --- path A: CALL f; ENTER; push b..; TCALL g; ENTER
    stackA = [UNDEF()] + base + [num(x) for x in a] + [vc('ArgumentCount', n)]
    vmA = mk_vm([f_l, g_l, UNDEF(), caller], stackA, len(stackA) - 1, vc('Ptr', 0), 55, (3, 0), 1)
    bA = Box(vmA)
    step(it, bA, 2)                       # CALL f, ENTER
    for x in b: it.do_call('Stack::push', [Ref(bA, (2,)), num(x)])
    it.do_call('Stack::push', [Ref(bA, (2,)), vc('ArgumentCount', m)])
    vmA.f[3] = vc('Ptr', 1)               # acc = g
    step(it, bA, 2)                       # TCALL g, ENTER
    # --- path B: CALL g; ENTER directly from the base state
    stackB = [UNDEF()] + base + [num(x) for x in b] + [vc('ArgumentCount', m)]
    vmB = mk_vm([f_l, g_l, UNDEF(), caller], stackB, len(stackB) - 1, vc('Ptr', 1), 55, (3, 0), 1)
    bB = Box(vmB)
    step(it, bB, 2)
    sa, sb = snapshot(it, vmA), snapshot(it, vmB)
    ok = (sa == sb)
    # and RET returns both to the base height
    step(it, bA, 1); step(it, bB, 1)
    ra, rb = snapshot(it, vmA), snapshot(it, vmB)
    return ok and ra == rb and ra[0] == len(base), it.steps, sa, sb

t0 = time.time(); bad = []; steps = 0
for n, m in itertools.product(range(0, 4), range(0, 4)):
    try:
        ok, st, sa, sb = scenario(n, m); steps += st
        if not ok: bad.append((n, m, sa, sb))
    except (Unsupported, Panic) as e:
        bad.append((n, m, repr(e)))
print(f'frames checked={16} mismatches={len(bad)} mir_steps={steps} wall={time.time()-t0:.1f}s')
for x in bad[:3]: print('  ', x)
ok, st, sa, sb = scenario(2, 1)
print('sample snapshot after TCALL g;ENTER (n=2,m=1):'); print('  sp', sa[0]); [print('   ', c) for c in sa[1]]; print('  acc', sa[2], 'ep', sa[3], 'ip', sa[4], 'bp', sa[5])
