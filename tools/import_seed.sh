#!/bin/bash
# usage: import_seed.sh <agent out dir, e.g. /tmp/seedwt/C15.out/A> <label, e.g. C15E>   -- copies, confirms natively
set -u
SRC=$1; L=$2
D=/verif/seeded/$L
mkdir -p $D
cp $SRC/patch.diff $SRC/seed_demo.rs $SRC/README.md $D/ 2>/dev/null
/verif/tools/confirm_seed.sh $D $L
