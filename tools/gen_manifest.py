#!/usr/bin/env python3
"""regenerates MANIFEST.json from the table below (keeps the file valid at all times)"""
import json, os
V = os.path.dirname(os.path.dirname(os.path.abspath(__file__)))

CLAIMED = {
    'C20': dict(
        text='Bounded symbolic model checking of the real highlighter + lexer code (from the MIR of the current tree): every text of '
             '<= 4 characters (quick; 5 thorough) where each character is a 7-bit ASCII solver variable (<= 3 / 4 characters also over 8 '
             'non-ASCII representatives) and every cursor 0..=bytes+2 as a solver variable; all paths explored, every branch decided by z3; '
             'oracle = independent nesting matcher; panics are violations. Nothing is claimed beyond the length bound.',
        note='Trusted: rustc MIR dump as the program; Python models of std iterators/str/Vec/format! (differentially validated against '
             'the native build); z3. Counterexamples are replayed against the real dev and release builds before being reported.',
        technique='symbolic execution of rustc MIR with z3 (path-complete within length bound), native replay of counterexamples',
        design='4/C20'),
}

CLAIMED.update({
    'C11': dict(
        text='Bounded symbolic model checking of the real lexer and parser (MIR of the current tree). Lexer: every text of <= 4 characters '
             '(thorough 5) of 7-bit ASCII solver variables (<= 3/4 also over 8 non-ASCII representatives): spans non-empty, in bounds, on char '
             'boundaries, ordered, gaps only whitespace/comments, prefix stability. Parser: parse_text on texts of <= 3 ASCII characters, 4 over the '
             '21-character structural alphabet, 5 over an 11-character one and 6 over the dotted-list alphabet (thorough: one more each), compared with a '
             'reference datum grammar on token types: tokens consumed, remaining text, Incomplete vs error, every token-boundary cut of a datum is Incomplete.',
        note='Trusted: MIR dump; Python models of std iterators/str/Vec/Box/String/from_str_radix; Number::parse_with_exactness is a nondeterministic stub '
             '(both outcomes); z3. Counterexamples replayed natively (dev + release) with the same oracle before being reported.',
        technique='symbolic execution of rustc MIR with z3, differential oracle (reference grammar), native replay', design='4/C11'),
    'C03': dict(
        text='Inductive step, bounded: ONE collection (the real Vm::run_gc incl. mark*, sweep, free, grow, gc::Map) from an arbitrary valid VM state over '
             'a heap of 8 cells (thorough 12): 28 templates place every reference-holding cell kind (pair, ptr, closure, lambda bytecode/args/envmap, '
             'lexical environment incl. env pointers, vector, continuation stack/ip/ep) and every root kind (acc, stack slots up to a symbolic sp, ip, ep, '
             'global bindings and slots); all embedded heap indices are solver variables. Asserted: every cell reachable in the pre-state is unchanged, '
             'allocated, not on the free list, symbols keep their table entry, registers and stack untouched. Histories of any length follow by the '
             'induction argument of DESIGN.md (not solver-checked).',
        note='Trusted: MIR dump, models of Vec/Rc/RefCell/HashMap(concrete keys)/iterators, the representation invariant assumed for the pre-state, z3. '
             'Counterexamples are rebuilt natively through the verif-hooks feature and judged by the same oracle (dev + release).',
        technique='symbolic execution of rustc MIR with z3 from fabricated symbolic pre-states (one inductive step), native replay through hooks', design='4/C03'),
    'C12': dict(
        text='Second sentence of the property only ("immediately after a collection no unreachable object remains allocated"), as a bounded inductive step: '
             'same harness as C03; asserted: every allocated cell not reachable in the pre-state is Free, cleared to Undefined, on the free list exactly once, '
             'its symbol removed from the symbol table; free cells stay intact; the heap grows exactly when utilisation after the sweep exceeds 75 %.',
        note='The first sentence (heap stops growing over unbounded executions) is outside the claim. Trusted base as C03.',
        technique='symbolic execution of rustc MIR with z3 from fabricated symbolic pre-states (one inductive step), native replay through hooks', design='4/C12'),
    'C18': dict(
        text='Invariant preservation + name round trips, bounded: (a) Heap::put / maybe_put of a symbol (present / absent name) preserves "table[name]=p <=> '
             'heap[p]=Symbol(name), not free" and changes no other cell; (b) the symbol table across one collection (subset of the C03 templates); '
             '(c) (symbol->string (string->symbol s)) = s for every string of <= 3 characters (thorough 4) over ALL Unicode scalar values (width class '
             'forked, code point symbolic) through the real encoder and parse_string decoder; (d) (string->symbol (symbol->string y)) = y for every '
             'symbol of <= 3 characters the real lexer reads as one symbol token.',
        note='Two recorded findings for clause (d) (reader symbols containing a backslash or starting with + - . digit); one defect of clause (c) was repaired '
             '(fix: commit). Routes through macro output / eval are whole-VM and outside the claim. is_alphabetic outside ASCII is uninterpreted.',
        technique='symbolic execution of rustc MIR with z3 (encoder/decoder round trip, interning step), native replay through eval', design='4/C18'),
})

CLAIMED.update({
    'C14': dict(
        text='Bounded symbolic model checking of the list/vector procedures written in Rust (cons car cdr set-car! set-cdr! append reverse list-tail '
             'list-ref vector-length/-ref/-set!/-fill! vector->list list->vector vector-copy with start, vector-copy!, equal?) called through their real '
             'builtin entry on fabricated heaps: lists of 0..3 pairs (proper / improper), vectors of 0..3 elements, element pointers are solver variables over '
             '3 atom cells (aliasing explored), every index / start / end / at is a symbolic i64 in -1..len+2 or i64::MAX; both overflow semantics. Oracle: '
             'reference store model -- result, Err exactly for invalid indices / improper lists, frame condition over all other heap cells, identity of stored '
             'and returned objects, freshness of copied spines. One-step claim.',
        note='Prelude procedures (length, memq..., assq..., map, for-each, list, list?) are Scheme code and outside the claim; vector-copy end argument '
             'excluded as the property says. Counterexamples are rebuilt as Scheme programs and replayed through the real evaluator (dev + release).',
        technique='symbolic execution of rustc MIR with z3 from fabricated VM states (one step), native replay through eval', design='4/C14'),
    'C15': dict(
        text='Bounded symbolic model checking of builtin/string.rs and builtin/char.rs through the real builtin entries: strings of 0..3 characters '
             '(2 for the range procedures; thorough +1) over ALL Unicode scalar values (UTF-8 width class forked, code point symbolic), indices / start / '
             'end symbolic i64 in -1..len+2 or i64::MAX, set / fill characters symbolic, integer->char over the full i64 range, both overflow semantics. '
             'Oracle: a string is a vector of scalar values (R7RS): results, exactly-addressed mutation, Err for every invalid index / range / scalar value.',
        note='Case conversion and Unicode-table predicates are decided exactly on ASCII and on a 15-character non-ASCII palette whose mappings are read from '
             'the real library; -ci string comparisons are outside. Allocation sizes (make-string with huge counts) are outside. One-step claim.',
        technique='symbolic execution of rustc MIR with z3 from fabricated VM states (one step), native replay through eval', design='4/C15'),
})

CLAIMED.update({
    'C13': dict(
        text='Budget-composition lemma, bounded: the real Vm::run_count / run / run_one / run_gc executed from MIR on fabricated programs (a call with an '
             'allocation, nested calls; heaps with garbage so that slice-end collections do real work) with the slice budgets n1, n2, n3 as solver '
             'variables in 1..8 (thorough 1..12): every slice executes at least one instruction (ghost count of run_one), the sliced run terminates, and '
             'yields the value and final sp/bp/ep of the uninterrupted run.',
        note='Programs are fabricated bytecode, not compiler output; whole programs and the wasm front-end loop are outside the claim. Counterexamples are '
             're-run slice by slice on the real VM through the verif-hooks feature.',
        technique='symbolic execution of rustc MIR with z3 (symbolic budgets on fabricated programs), native replay through hooks', design='4/C13'),
    'C07': dict(
        text='Register / stack step lemma, bounded: a fabricated evaluation fails at call depth 0..2 (thorough 3) through each error source of run_one '
             '(non-procedure call, unbound global, arity mismatch, bad operand, and a call through a SYMBOLIC heap index ranging over procedures of arity '
             '0/1/2, a number, a string and nil so that the solver decides which calls fail), 1 or 3 (thorough 5) times in a row; afterwards sp/bp/ep must '
             'equal those of a VM that never failed, a later successful evaluation must return the same value and registers, and a later failing evaluation '
             'the same error and the same number of stack-trace frames as in a fresh VM. Memory clause: a failing evaluation that starts on a heap at 80% utilisation holding 40 '
             'unreachable cells ends with all of them reclaimed (the error arm collects as the success arm does), for 1 and 3 failures in a row. Stack-trace clause for failures that do not run: the real prepare_eval / compile_runnable / compile_expression on every atom (symbolic payloads) from a VM whose last_stacktrace is Some(..) must leave it None.',
        note='Effects of a failing compile of compound forms (e.g. a define-syntax bound at compile time: seeded change C07C is missed) and failures inside continuations are outside. The shapes are enumerated; the symbolic '
             'content is the call target and data operands. Counterexamples are replayed on the real VM through the verif-hooks feature.',
        technique='symbolic execution of rustc MIR with z3 from fabricated VM states, native replay through hooks', design='4/C07'),
})

CLAIMED.update({
    'C04': dict(
        text='Two lemmas. (1) Run-time, differential step lemma: the real run_one arms CALL / TCALL / ENTER / VARARG / RET and the builtins apply and call/cc executed from MIR on fabricated '
             'programs; for 132 shapes (caller/callee argument counts 0..2 (thorough 0..3), fixed / variadic callee with every required count and every number of passed arguments, '
             'lambda / closure callee, chains of two tail calls, tail calls through apply with every split between direct and list arguments, through call/cc) a chain '
             'main -CALL-> c0 -TCALL-> .. -> ck reaches the body of ck with the same sp, bp, frame contents and rest list as the direct call main -CALL-> ck, and both return to main '
             'with the same sp/bp/ep/acc. Argument values are solver variables. (2) Compile-time + run-time: the real load_builtins, the whole prelude.scm of the current tree, the real '
             'compiler and syntax-rules expander and the real run loop are executed from MIR: for 28 source forms with the call (g K) in each R7RS 3.5 tail position (last body expression, '
             'if arms incl. one-armed, cond / case clauses with and without else, and, or, when, unless, let, let*, letrec, named let, begin, nested combinations, lambda application, apply, eval) '
             'the callee is entered at exactly the sp / bp of a direct tail call and returns the same value; the tested boolean x and the argument K are solver variables (the solver decides '
             'which branches are feasible). A vacuity witness (g (g K)) must show the non-tail call higher. n tail calls = stack of one call follows by the induction argument in DESIGN.md.',
        note='The forms of lemma (2) are enumerated source texts read by a small harness-side reader (lex / parse are the subject of C11); HashSet iteration order is modelled as insertion order. '
             'The frame arithmetic does not branch on argument values, so in lemma (1) the solver decides only value-equality obligations. letrec* is not in the list: on the unchanged tree '
             '(letrec* ((y 1)) ..) fails with an unbound variable <undefined> (a C01 matter, not claimed). call/cc in lemma (2) and forms with internal defines are outside.',
        technique='symbolic execution of rustc MIR with z3: differential step lemma on fabricated frames, and the real compiler / macro expander / prelude / run loop on source forms with symbolic leaves; native replay by single-stepping through hooks and by stack-trace depth through the public API', design='4/C04, 9.7'),
    'C05': dict(
        text='Capture / restore step lemmas on the real call_cc, to_continuation, restore_continuation and the continuation arms of CALL/TCALL: (1) the captured '
             'object equals the machine state with receiver and argc popped and ip after the call; (2) from any later state (stack cells of symbolic kind and '
             'payload, symbolic bp/ep/ip) CALL/TCALL k with one argument restores stack[0..=sp], sp, bp, ep, ip and puts the value in acc, heap untouched; '
             '(3) zero arguments is an Err; (4) a stored continuation with a 300-slot saved stack is invoked from a later evaluation after Stack::clear on a '
             'grown stack without panicking.',
        note='The end-to-end meaning for whole programs is outside; marking of continuations by the collector is C03. Saved-stack lengths are enumerated '
             '(1, 3, 4, 300). Only the clear-then-restore scenario has a native replay; other counterexamples would be reported as inconclusive.',
        technique='symbolic execution of rustc MIR with z3 from fabricated VM states (step lemmas), native replay through hooks', design='4/C05'),
})

CLAIMED.update({
    'C09': dict(
        text='Numeric order and equality, per ordered pair of the four representations: `impl PartialOrd / PartialEq for Number` executed from MIR on '
             'symbolic operands (Fixnum: any i64; Float: any non-NaN double; BigInt: any integer up to 2^66 in magnitude, inside and outside the fixnum range; '
             'Rational: any i32 numerator over a palette of denominators) against an exact oracle kept in the bit-vector and floating-point theories '
             '(cross-multiplication, integer/float comparison by truncation and sign of the fraction, widened FP sort for rational/float); the variadic '
             'procedures =, <, >, <=, >= over 2 and 3 operands and zero?/positive?/negative? are folded over the same oracle. Kani harnesses re-decide the '
             'fixnum/float/bignum kernels on the compiled code (all 64-bit values, bignums up to 2^64).',
        note='Two recorded classes (bignum vs float, rational vs float compared through a rounded conversion) are confirmed natively on their witnesses and '
             'suppressed by role; everything else is a violation. Denominators off the palette, bignums beyond 2^66, NaN ordering and transitivity over '
             'triples (implied by agreement with the exact order) are outside.',
        technique='symbolic execution of rustc MIR with z3 (bit-vector + floating-point theories) and Kani/CBMC on the compiled code, native replay', design='4/C09'),
    'C08': dict(
        text='Exact arithmetic per operator and ordered pair of exact representations: `impl Add/Sub/Mul/Div/Rem for &Number`, Number::quotient, modulo, pow, '
             'abs, floor, ceil, truncate, numerator, denominator executed from MIR on symbolic operands (any i64 fixnum, bignums up to 2^66, any i32 numerator over a '
             'denominator palette). Oracle in 192-bit (768-bit for squares) bit-vector arithmetic: an exact result equals the exact rational value by '
             'cross-multiplication; a float result is accepted only if the exact value is not representable (cheap sufficient test); quotient / remainder / modulo '
             'satisfy the division lemma with truncating / flooring side conditions for divisors from a palette, each divisor carried as a fixnum (or a bignum where it does not fit) and a sub-palette also as a small bignum and as an integer-valued rational n/1. Kani harnesses re-decide fixnum kernels on the '
             'compiled code.',
        note='Symbolic x symbolic multiplication is windowed; rational multiplication and / take the second operand from a palette of concrete numbers; expt takes '
             'bases within 4 of stated centres, and above exponent 2 the solver enumerates the window. The error bound of inexact fall-backs is not checked. Two '
             'recorded classes (32-bit rational limits) are suppressed by role. Variadic folds and float operands are outside.',
        technique='symbolic execution of rustc MIR with z3 (bit-vectors, division lemma) and Kani/CBMC on the compiled code, native replay', design='4/C08'),
})

CLAIMED.update({
    'C16': dict(
        text='The real builtins number->string and string->number (hence `impl Display/LowerHex/Octal/Binary for Number`, Number::parse_with_exactness, '
             'parse, parse_rational) executed from MIR on a fabricated VM for a symbolic exact z per representation (any i64 fixnum, bignums up to 2^66, any i32 numerator '
             'over a denominator palette) at radix 2, 8, 10, 16; and for any finite double at radix 10; the printed text is a list of solver terms of symbolic length (one path per digit count). Claim per path: '
             'the value read back is a number of the same exactness equal to z; and the same text behind the matching #b/#o/#d/#x prefix, pushed through the real lex::scan and '
             'parse::parse_text, denotes z (literal clause).',
        note='Doubles: the digits a double is printed with are a library axiom (`{}` / `{:e}` yield a spelling that parses back to the same double: a skeleton text that keeps '
             'only the character classes; `{:.1}` of an integer-valued double below 2^63 goes through the integer printer); what is executed is marwood\'s choice of format, the '
             'parser chain and the lexer. NaN, infinities and inexact numbers at radix 2/8/16 are outside. The integer printers/parsers of std, num-bigint and num-rational are dependencies, modelled by the defining property of positional notation '
             '(models_fmtnum.py); a chain of divisions by ten is not decided by the back end (measured), so the round trip through identical digit terms is syntactic.',
        technique='symbolic execution of rustc MIR with z3 on fabricated VM states (symbolic-length digit strings), native replay', design='4/C16'),
})

CLAIMED.update({
    'C06': dict(
        text='Panic-freedom as a step lemma per entry point: each of the 128 global procedures written in Rust that the engine can execute (14 are excluded with a reason in '
             'the evidence: eval, apply, call/cc, I/O, random, clock, symbolic allocation sizes) is called from MIR on a fabricated VM at every arity 0..3 (thorough 0..4) with '
             'each argument drawn from 19 value kinds whose payloads are solver variables or boundary palettes (any i64, any double incl. NaN / infinities, bignums, rationals at the '
             'i32 limits, any ASCII char and non-ASCII representatives, strings / vectors / lists of length 0..2, improper lists, symbols, booleans, nil, void, procedures, '
             'continuations). Claim: the call returns Ok or Err without panic (overflow, index, unwrap, slice), a returned Err renders through the real `impl Display for Error`, and '
             'no path exceeds the step budget (a path that does is re-run natively with a time limit: non-termination is a violation). parse_text (hence lex::scan, parse) on every '
             'text of up to 3 (thorough 4) symbolic chars incl. non-ASCII representatives is covered the same way.',
        note='Outside: time bounds beyond the step budget, allocation failure, native stack exhaustion (C19), circular structures, containers longer than 2, the excluded procedures, '
             'the sliced evaluator and VM reuse after errors (C13, C07), the highlighter (its panics are reported by C20). With two or more arguments, later numeric arguments come '
             'from boundary palettes (symbolic x symbolic products and float/int conversion circuits are not decided in time); the radix arguments of string->number / number->string also take 0, 1, 3, 36, 37 and 2^32+10; expt/pow at arity 2 are excluded (C08 covers the arithmetic).',
        technique='symbolic execution of rustc MIR with z3 on fabricated VM states (one harness per procedure and arity), native replay incl. time-limited hang confirmation', design='4/C06'),
})

CLAIMED.update({
    'C10': dict(
        text='`impl Display for Cell` in write mode, char::write_escaped_char and `impl Display for Number` executed from MIR on a datum of a fixed, stated shape '
             '(leaves, lists, dotted lists, vectors, quote forms, nesting to depth 3, thorough 4) whose leaves are solver variables (any Unicode scalar value as a character and inside '
             'strings of up to 2 chars, any i64, bignums up to 2^66, rationals over a denominator palette, finite doubles, booleans); the produced text goes through the real lex::scan and '
             'parse::parse_text. Claims per path: the datum read back is structurally equal with equal leaves and nothing is left over; writing it again yields the same text; '
             'Heap::get_as_cell(Heap::put_cell(d)) = d. Symbols: every text of up to 3 (thorough 4) symbolic chars that the reader turns into one symbol is written and read back.',
        note='Shapes are enumerated (stated per harness in the evidence); the solver decides the leaf obligations. The digits of a printed double are a library axiom (see C16). The trip through the '
             'evaluator: (quote d) runs through the real compiler, syntax-rules expander and run loop in a VM with the whole prelude loaded (all from MIR) for 16 quoted lists headed by or containing every prelude macro keyword and core form with a symbolic fixnum leaf; other shapes take put_cell / get_as_cell only.',
        technique='symbolic execution of rustc MIR with z3 (printer -> lexer -> parser on symbolic-length texts), native replay', design='4/C10'),
})

NOT_APPLICABLE = {
    'C01': 'whole-pipeline property over arbitrary programs (reader -> syntax-rules prelude -> compiler -> VM): no engine here can push a symbolic program through it; enumerating program shapes would be testing, not solver work (DESIGN.md section 5)',
    'C02': 'scoping is a relation between compile-time environment maps and run-time environment chains across nested activations of whole programs; the only solver-sized kernel restates the code (DESIGN.md section 5)',
    'C17': 'matcher/expander are iterator state machines over unbounded Cell trees whose only symbolic content is symbol identity; the quantifier is over tree shapes (enumeration) (DESIGN.md section 5)',
    'C19': 'native-stack exhaustion at depth 10^5 is a property of the host stack and recursion depth, not of values; bounded unrolling says nothing about it (DESIGN.md section 5)',
}
PENDING = 'check not built yet in this session (planned, see DESIGN.md section 4); not claimed until it runs with zero unsupported constructs'

props = [json.loads(l)['id'] for l in open(os.path.join(V, 'properties.jsonl'))]
checks = []
for p in props:
    if p not in CLAIMED: continue
    c = CLAIMED[p]
    checks.append({
        'property_id': p,
        'quick_cmd': './check %s --tier quick' % p,
        'thorough_cmd': './check %s --tier thorough' % p,
        'evidence_file': '/verif/evidence/%s.json' % p,
        'replay_cmd_template': './check %s --replay {path}' % p,
        'engine': c.get('engine', 'mirsym'),
        'level_claimed': {'category': 'model_checking', 'text': c['text'], 'design_ref': 'DESIGN.md section ' + c['design']},
        'level_note': c['note'],
        'technique': c['technique'],
    })
na = []
for p in props:
    if p in CLAIMED: continue
    na.append({'property_id': p, 'reason': NOT_APPLICABLE.get(p, PENDING)})
man = {
    'version': 1,
    'setup_cmd': './setup.sh',
    'hooks': {'guard': 'cargo feature verif-hooks (marwood/Cargo.toml)', 'enable': 'replay crate built with --features hooks -> marwood/verif-hooks',
              'baseline_off_cmd': 'cd /repo && cargo test --workspace --no-fail-fast --offline', 'source_commits': ['570315d'], 'add_only': True},
    'engines': [
        {'name': 'mirsym', 'path': 'mirsym/', 'serves_properties': sorted(CLAIMED), 'kind_free_text': 'symbolic interpreter for rustc MIR (python + z3): path-complete exploration within stated bounds, decision-prefix forking sharded over 16 processes'},
        {'name': 'kani', 'path': 'kani/', 'serves_properties': ['C08', 'C09'], 'kind_free_text': 'Kani 0.68 / CBMC harness crate with a path dependency on /repo/marwood: re-decides fixnum / float / bignum kernels on the compiled code (driver vlib/kani.py, memory and time caps; a harness that does not finish is reported inconclusive, never as a pass)'},
        {'name': 'replay', 'path': 'replay/', 'serves_properties': sorted(CLAIMED), 'kind_free_text': 'native replay binary (dev + release) linked against /repo/marwood: confirms every counterexample, differential validation of the models'},
    ],
    'checks': checks,
    'not_applicable': na,
    'notes': 'Exit codes: 0 holds within bounds, 1 natively reproduced violation (VIOLATION line), 2 inconclusive (unsupported construct / solver unknown / non-reproducing counterexample). known_findings.json lists recorded and fixed defects.',
}
json.dump(man, open(os.path.join(V, 'MANIFEST.json'), 'w'), indent=1)
print('MANIFEST.json: %d checks, %d not_applicable' % (len(checks), len(na)))
