#!/usr/bin/env python3
"""regenerates MANIFEST.json from the table below (keeps the file valid at all times)"""
import json, os
V = os.path.dirname(os.path.dirname(os.path.abspath(__file__)))

CLAIMED = {
    'C20': dict(
        text='Bounded symbolic model checking of the real highlighter + lexer code (from the MIR of the current tree): every text of '
             '<= 4 characters (quick; 5 thorough) where each character is a 7-bit ASCII solver variable (<= 3 / 4 characters also over 8 '
             'non-ASCII representatives) and every cursor 0..=bytes+2 as a solver variable; all paths explored, every branch decided by z3; '
             'oracle = independent nesting matcher; panics are violations. Nothing is claimed beyond the length bound.',
        note='Trusted: rustc MIR dump as the program; Python models of std iterators/str/Vec/format! (differentially validated against '
             'the native build); z3. Counterexamples are replayed against the real dev and release builds before being reported.',
        technique='symbolic execution of rustc MIR with z3 (path-complete within length bound), native replay of counterexamples',
        design='4/C20'),
}

NOT_APPLICABLE = {
    'C01': 'whole-pipeline property over arbitrary programs (reader -> syntax-rules prelude -> compiler -> VM): no engine here can push a symbolic program through it; enumerating program shapes would be testing, not solver work (DESIGN.md section 5)',
    'C02': 'scoping is a relation between compile-time environment maps and run-time environment chains across nested activations of whole programs; the only solver-sized kernel restates the code (DESIGN.md section 5)',
    'C17': 'matcher/expander are iterator state machines over unbounded Cell trees whose only symbolic content is symbol identity; the quantifier is over tree shapes (enumeration) (DESIGN.md section 5)',
    'C19': 'native-stack exhaustion at depth 10^5 is a property of the host stack and recursion depth, not of values; bounded unrolling says nothing about it (DESIGN.md section 5)',
}
PENDING = 'check not built yet in this session (planned, see DESIGN.md section 4); not claimed until it runs with zero unsupported constructs'

props = [json.loads(l)['id'] for l in open(os.path.join(V, 'properties.jsonl'))]
checks = []
for p in props:
    if p not in CLAIMED: continue
    c = CLAIMED[p]
    checks.append({
        'property_id': p,
        'quick_cmd': './check %s --tier quick' % p,
        'thorough_cmd': './check %s --tier thorough' % p,
        'evidence_file': '/verif/evidence/%s.json' % p,
        'replay_cmd_template': './check %s --replay {path}' % p,
        'engine': c.get('engine', 'mirsym'),
        'level_claimed': {'category': 'model_checking', 'text': c['text'], 'design_ref': 'DESIGN.md section ' + c['design']},
        'level_note': c['note'],
        'technique': c['technique'],
    })
na = []
for p in props:
    if p in CLAIMED: continue
    na.append({'property_id': p, 'reason': NOT_APPLICABLE.get(p, PENDING)})
man = {
    'version': 1,
    'setup_cmd': './setup.sh',
    'hooks': {'guard': 'cargo feature verif-hooks (marwood/Cargo.toml)', 'enable': 'replay crate built with --features hooks -> marwood/verif-hooks',
              'baseline_off_cmd': 'cd /repo && cargo test --workspace --no-fail-fast --offline', 'source_commits': [], 'add_only': True},
    'engines': [
        {'name': 'mirsym', 'path': 'mirsym/', 'serves_properties': sorted(CLAIMED), 'kind_free_text': 'symbolic interpreter for rustc MIR (python + z3): path-complete exploration within stated bounds, decision-prefix forking sharded over 16 processes'},
        {'name': 'replay', 'path': 'replay/', 'serves_properties': sorted(CLAIMED), 'kind_free_text': 'native replay binary (dev + release) linked against /repo/marwood: confirms every counterexample, differential validation of the models'},
    ],
    'checks': checks,
    'not_applicable': na,
    'notes': 'Exit codes: 0 holds within bounds, 1 natively reproduced violation (VIOLATION line), 2 inconclusive (unsupported construct / solver unknown / non-reproducing counterexample). known_findings.json lists recorded and fixed defects.',
}
json.dump(man, open(os.path.join(V, 'MANIFEST.json'), 'w'), indent=1)
print('MANIFEST.json: %d checks, %d not_applicable' % (len(checks), len(na)))
