#!/bin/bash
# usage: run_seed.sh <seed label, e.g. C11A> <property> [tier]   -- applies the seeded patch to /repo, runs the check, reverts
S=$1; P=$2; T=${3:-quick}
cd /verif
export VERIF_EVIDENCE_DIR=/tmp/seed-evidence   # never clobber the committed evidence with a run on a mutated tree
git -C /repo apply /verif/seeded/$S/patch.diff || { echo "apply failed"; exit 3; }
./check $P --tier $T > /tmp/seedrun-$S-$P.log 2>&1; rc=$?
git -C /repo checkout -- .
echo "seed=$S prop=$P tier=$T exit=$rc $(grep -c '^VIOLATION' /tmp/seedrun-$S-$P.log) violation lines"
grep -E "^VIOLATION|^INCONCLUSIVE" -A1 /tmp/seedrun-$S-$P.log | head -8
