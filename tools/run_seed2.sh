#!/bin/bash
# usage: run_seed2.sh <seed label> <property> [tier]  -- applies the seeded patch to a scratch worktree of /repo (never /repo itself),
# runs the check against it (VERIF_REPO), removes the worktree and its cache.  Safe to run several at once.
S=$1; P=$2; T=${3:-quick}
W=/tmp/seedrun/$S-$P
rm -rf $W /tmp/seedrun-cache/$S-$P; mkdir -p /tmp/seedrun
git -C /repo worktree add -q --detach $W HEAD || exit 3
git -C $W apply /verif/seeded/$S/patch.diff || { echo "seed=$S apply failed"; git -C /repo worktree remove --force $W; exit 3; }
cd /verif
VERIF_REPO=$W VERIF_CACHE=/tmp/seedrun-cache/$S-$P VERIF_EVIDENCE_DIR=/tmp/seed-evidence/$S-$P ./check $P --tier $T > /tmp/seedrun-$S-$P.log 2>&1; rc=$?
git -C /repo worktree remove --force $W; rm -rf /tmp/seedrun-cache/$S-$P
echo "seed=$S prop=$P tier=$T exit=$rc $(grep -c '^VIOLATION' /tmp/seedrun-$S-$P.log) violation lines"
grep -E "^VIOLATION|^INCONCLUSIVE" -A1 /tmp/seedrun-$S-$P.log | head -6 | cut -c1-330
