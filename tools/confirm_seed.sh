#!/bin/bash
# usage: confirm_seed.sh <seed dir containing patch.diff + seed_demo.rs> <label>
# confirms: patch applies, workspace builds, full existing suite passes WITH the patch, demo fails with / passes without.
set -u
SD=$1; L=$2
W=/tmp/seedcheck/$L
rm -rf $W; mkdir -p /tmp/seedcheck
git -C /repo worktree add -q --detach $W HEAD || exit 3
cd $W
export CARGO_NET_OFFLINE=true
res="label=$L"
if ! git apply $SD/patch.diff; then echo "$res apply=FAIL"; git -C /repo worktree remove --force $W; exit 1; fi
suite=$(cargo test --workspace --no-fail-fast --offline 2>&1 | grep -E "^test result" | awk '{p+=$4; f+=$6} END{print p"/"f}')
res="$res suite_with_patch(pass/fail)=$suite"
cp $SD/seed_demo.rs marwood/tests/seed_demo.rs
demo_with=$(cargo test --offline -p marwood --test seed_demo 2>&1 | grep -E "^test result" | awk '{p+=$4; f+=$6} END{print p"/"f}')
res="$res demo_with_patch=$demo_with"
git checkout -q -- . 
demo_without=$(cargo test --offline -p marwood --test seed_demo 2>&1 | grep -E "^test result" | awk '{p+=$4; f+=$6} END{print p"/"f}')
res="$res demo_without_patch=$demo_without"
echo "$res"
cd /; git -C /repo worktree remove --force $W
