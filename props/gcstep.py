"""One collection from an arbitrary (bounded) valid VM state: the shared step harness of C03, C12 and C18.

Encoded (real code, MIR of the current tree): Vm::run_gc, Heap::mark / mark_vcell / mark_continuation /
mark_lambda / sweep / free / grow / used_size / capacity, gc::Map::{get,set,mark,is_marked}, Stack::iter_to_sp,
GlobalEnvironment::iter_bindings / iter_slots, derived Clone of VCell.
Symbolic: every heap index embedded in cells and roots (solver variables ranging over the allocated cells);
the stack pointer.  Shapes (which cell kinds sit where) are enumerated templates: a stated bound.
Oracle: reachability over the PRE-state computed by the harness's own traversal (refs() below).
"""
import z3
from mirsym.values import *
from mirsym.explore import explore
from mirsym.models_core import values_equal, clone_val
from .vmfab import Fab, USIZE_MAX

CAP = 8          # heap capacity of the quick templates (gc::Map needs a multiple of 4)


def refs(fab, v):
    """heap indices referenced by a VCell value (the semantic reference structure, independent of the marker)"""
    k = fab.kind(v)
    if k == 'Ptr': return [v.f[0]]
    if k == 'Pair': return [v.f[0], v.f[1]]
    if k == 'Closure': return [v.f[0], v.f[1]]
    if k == 'InstructionPointer': return [v.f[0]]
    if k == 'EnvironmentPointer': return [v.f[0]]
    if k == 'LexicalEnvPtr': return [v.f[0]]
    if k == 'Lambda':
        lam = v.f[0].get()
        out = []
        for c in fab.field(lam, 'Lambda', 'bc'): out += refs(fab, c)
        for c in fab.field(lam, 'Lambda', 'args'): out += refs(fab, c)
        for e in fab.field(fab.field(lam, 'Lambda', 'envmap'), 'EnvironmentMap', 'map'): out += refs(fab, e.f[0])
        return out
    if k == 'LexicalEnv':
        out = []
        for c in fab.field(v.f[0].get(), 'LexicalEnvironment', 'slots').f[0]: out += refs(fab, c)
        return out
    if k == 'Vector':
        out = []
        for c in fab.field(v.f[0].get(), 'Vector', 'vector').f[0]: out += refs(fab, c)
        return out
    if k == 'Continuation':
        cont = v.f[0].get()
        st = fab.field(cont, 'Continuation', 'stack')
        cells = fab.field(st, 'Stack', 'stack')
        out = []
        for c in cells: out += refs(fab, c)        # a saved stack is stored up to its sp (to_continuation)
        out.append(fab.field(cont, 'Continuation', 'ip').f[0])
        out.append(fab.field(cont, 'Continuation', 'ep'))
        return out
    return []


# ------------------------------------------------------------------------------------------- templates
CONCRETE = None      # dict name -> value: rebuild a state from a solver model (native confirmation)


def P(it, name, k):
    """a symbolic heap index ranging over the k allocated cells"""
    if CONCRETE is not None: return CONCRETE.get(name, 0)
    p = z3.BitVec(name, 64)
    it.assume(z3.ULT(p, k))
    return p


FOCUS_KINDS = ['Pair', 'Ptr', 'Closure', 'Lambda-bc', 'Lambda-args', 'Lambda-envmap', 'LexicalEnv-ptr', 'LexicalEnv-envptr',
               'Vector-ptr', 'Vector-pair', 'Vector-all', 'Continuation-stack', 'Continuation-ip', 'Continuation-ep', 'Leaf']
ROOT_KINDS = ['acc-ptr', 'acc-pair', 'acc-closure', 'stack-ptr', 'stack-ip', 'stack-ep', 'ip', 'ep', 'global-slot', 'global-binding', 'none']


def focus_cell(fab, it, kind, k):
    f = fab
    if kind == 'Pair': return f.pair(P(it, 'f0', k), P(it, 'f1', k))
    if kind == 'Ptr': return f.ptr(P(it, 'f0', k))
    if kind == 'Closure': return f.vc('Closure', P(it, 'f0', k), P(it, 'f1', k))
    if kind == 'Lambda-bc':
        return f.vlambda([f.op('PushImmediate'), f.ptr(P(it, 'f0', k)), f.op('Mov'), f.vc('Acc'), f.ptr(P(it, 'f1', k)), f.op('Halt')])
    if kind == 'Lambda-args':
        return f.vlambda([f.op('Halt')], args=[f.ptr(P(it, 'f0', k))])
    if kind == 'Lambda-envmap':
        return f.vlambda([f.op('Halt')], envmap=[Agg('tuple', None, [f.ptr(P(it, 'f0', k)), f.binding_source('Global')])])
    if kind == 'LexicalEnv-ptr': return f.lexenv([f.fixnum(1), f.ptr(P(it, 'f0', k))])
    if kind == 'LexicalEnv-envptr': return f.lexenv([f.vc('LexicalEnvPtr', P(it, 'f0', k), 0), f.vc('Undefined')])
    if kind == 'Vector-ptr': return f.vector([f.ptr(P(it, 'f0', k)), f.fixnum(7)])
    if kind == 'Vector-pair': return f.vector([f.pair(P(it, 'f0', k), P(it, 'f1', k))])
    if kind == 'Vector-all': return f.vector([f.ptr(i) for i in range(1, k)])
    if kind == 'Vector-half': return f.vector([f.ptr(i) for i in range(1, k // 2 + 2)])      # half of the cells live, the rest garbage
    if kind == 'Continuation-stack':
        return f.vcont([f.vc('Undefined'), f.ptr(P(it, 'f0', k)), f.vc('InstructionPointer', P(it, 'f1', k), 0)], 2, USIZE_MAX, (USIZE_MAX, 0), 0)
    if kind == 'Continuation-ip':
        return f.vcont([f.vc('Undefined')], 0, USIZE_MAX, (P(it, 'f0', k), 1), 0)
    if kind == 'Continuation-ep':
        return f.vcont([f.vc('Undefined')], 0, P(it, 'f0', k), (USIZE_MAX, 0), 0)
    if kind == 'Leaf': return f.vc('Bool', True)
    raise KeyError(kind)


def build_state(fab, it, focus, root, k, cap=CAP, chunk=None):
    """k allocated cells: [focus, Pair, Pair|leaf.., Symbol 'a', String, Number]; returns (vm, root_refs, info)"""
    f = fab
    cells = [focus_cell(f, it, focus, k), f.pair(P(it, 'q0', k), P(it, 'q1', k))]
    leaves = [f.symbol('a'), f.string('s'), f.fixnum(42), f.vc('Nil'), f.symbol('b'), f.vc('Char', 0x3bb)]
    i = 0
    while len(cells) < k:
        leaf = leaves[i % len(leaves)]
        if i >= len(leaves) and f.kind(leaf) == 'Symbol': leaf = f.symbol('s%d' % i)      # symbols are interned: every symbol cell has its own name
        cells.append(leaf); i += 1
    heap = f.heap(cells, cap, chunk=chunk)
    acc = f.vc('Undefined'); ep = USIZE_MAX; ip0 = USIZE_MAX
    stack_cells = [f.vc('Undefined') for _ in range(4)]
    sp = 0
    globals_ = ({}, [])
    roots = []
    if root == 'acc-ptr':
        r = P(it, 'r0', k); acc = f.ptr(r)
    elif root == 'acc-pair':
        acc = f.pair(P(it, 'r0', k), P(it, 'r1', k))
    elif root == 'acc-closure':
        acc = f.vc('Closure', P(it, 'r0', k), P(it, 'r1', k))
    elif root in ('stack-ptr', 'stack-ip', 'stack-ep'):
        mk = {'stack-ptr': lambda p: f.ptr(p), 'stack-ip': lambda p: f.vc('InstructionPointer', p, 3),
              'stack-ep': lambda p: f.vc('EnvironmentPointer', p)}[root]
        stack_cells = [f.vc('Undefined'), mk(P(it, 'r0', k)), f.vc('ArgumentCount', 1), mk(P(it, 'r1', k))]
        if CONCRETE is not None: sp = CONCRETE.get('sp', 0)
        else:
            sp = z3.BitVec('sp', 64)
            it.assume(z3.ULE(sp, 3))
    elif root == 'ip': ip0 = P(it, 'r0', k)
    elif root == 'ep': ep = P(it, 'r0', k)
    elif root == 'global-slot':
        globals_ = ({2: 0}, [f.ptr(P(it, 'r0', k))])          # symbol 'a' (cell 2) is bound to slot 0
    elif root == 'global-binding':
        globals_ = ({2: 0}, [f.vc('Undefined')])
    vm = f.vm(heap, f.stack(stack_cells, sp), acc=acc, ep=ep, ip=(ip0, 0), globenv=f.globenv(*globals_))
    return vm


def root_refs(fab, it, vm):
    """heap indices the VM's registers / stack / globals refer to (from the fields of Vm)"""
    f = fab
    out = []
    out += refs(f, f.field(vm, 'Vm', 'acc'))
    out.append(f.field(vm, 'Vm', 'ep'))
    out.append(f.field(vm, 'Vm', 'ip').f[0])
    st = f.field(vm, 'Vm', 'stack')
    sp = f.field(st, 'Stack', 'sp')
    sp = it.concretize(sp)
    cells = f.field(st, 'Stack', 'stack')
    for c in cells[:sp + 1]: out += refs(f, c)
    ge = f.field(vm, 'Vm', 'globenv')
    for key in f.field(ge, 'GlobalEnvironment', 'bindings').d: out.append(key)
    for c in f.field(ge, 'GlobalEnvironment', 'slots'): out += refs(f, c)
    return out, sp


def snapshot(fab, it, vm):
    f = fab
    heap = f.field(vm, 'Vm', 'heap')
    return {'cells': [clone_val(it, c) for c in f.field(heap, 'Heap', 'heap')],
            'regs': (clone_val(it, f.field(vm, 'Vm', 'acc')), f.field(vm, 'Vm', 'ep'), clone_val(it, f.field(vm, 'Vm', 'ip')), f.field(vm, 'Vm', 'bp')),
            'stack': [clone_val(it, c) for c in f.field(f.field(vm, 'Vm', 'stack'), 'Stack', 'stack')],
            'roots': root_refs(f, it, vm)}


def judge(fab, it, pre, vm, k, cap, chunk=None):
    """the oracle: compares the post-state `vm` with the pre-state snapshot.  -> None | (what, key).
    Used on symbolic paths (values may be z3 terms) and on native replay dumps (all concrete)."""
    f = fab
    heap = f.field(vm, 'Vm', 'heap')
    pre_cells = pre['cells']
    rr, sp = pre['roots']
    reach = set(); todo = list(rr)
    while todo:
        i = todo.pop()
        i = it.concretize(i) if is_sym(i) else i
        if i >= k or i in reach: continue          # usize::MAX / free cells: not a reference to an object
        reach.add(i)
        todo += refs(f, pre_cells[i])
    ran = (k / cap) >= 0.75
    cells = f.field(heap, 'Heap', 'heap')
    fl = f.field(heap, 'Heap', 'free_list')
    ncap = len(cells)
    table = f.field(heap, 'Heap', 'symbol_table').d
    if any(is_sym(x) for x in fl): fl = [it.concretize(x) for x in fl]
    for i in range(k):
        st = f.gc_state(heap, i)
        if is_sym(st): st = it.concretize(st)
        if i in reach or not ran:
            if st != 1: return ('reachable cell %d has gc state %d after the collection' % (i, st), 'live-cell-not-allocated')
            if i in fl: return ('reachable cell %d is on the free list' % i, 'live-cell-freed')
            if not it.must(values_equal(it, cells[i], pre_cells[i])):
                return ('reachable cell %d changed: %r -> %r' % (i, pre_cells[i], cells[i]), 'live-cell-changed')
            if f.kind(pre_cells[i]) == 'Symbol':
                name = ''.join(chr(x) for x, _ in pre_cells[i].f[0].get().chars)
                if name not in table or table[name].v != i:
                    return ('live symbol %r (cell %d) lost its symbol-table entry' % (name, i), 'live-symbol-uninterned')
        else:
            if st != 0: return ('unreachable cell %d survives the collection (gc state %d)' % (i, st), 'garbage-survives')
            if f.kind(cells[i]) != 'Undefined': return ('freed cell %d not cleared: %r' % (i, cells[i]), 'freed-not-cleared')
            if fl.count(i) != 1: return ('freed cell %d occurs %d times on the free list' % (i, fl.count(i)), 'free-list')
            if f.kind(pre_cells[i]) == 'Symbol':
                name = ''.join(chr(x) for x, _ in pre_cells[i].f[0].get().chars)
                if name in table: return ('collected symbol %r still in the symbol table' % name, 'dead-symbol-interned')
    for i in range(k, ncap):
        st = f.gc_state(heap, i)
        if is_sym(st): st = it.concretize(st)
        if st != 0 or fl.count(i) != 1 or f.kind(cells[i]) != 'Undefined':
            return ('free cell %d: state %d, %d free-list entries, content %r' % (i, st, fl.count(i), cells[i]), 'free-cell-corrupted')
    live = len(reach) if ran else k
    want_cap = cap
    if ran and live / cap > 0.75:
        want_cap = cap + (chunk or cap)          # Heap::grow adds one chunk
    if ncap != want_cap: return ('capacity %d after the collection, expected %d (live %d)' % (ncap, want_cap, live), 'growth-policy')
    if len(fl) != ncap - live:
        return ('free list has %d entries, expected %d' % (len(fl), ncap - live), 'free-list')
    regs = (f.field(vm, 'Vm', 'acc'), f.field(vm, 'Vm', 'ep'), f.field(vm, 'Vm', 'ip'), f.field(vm, 'Vm', 'bp'))
    if not it.must(values_equal(it, Agg('t', None, list(regs)), Agg('t', None, list(pre['regs'])))):
        return ('registers changed by the collection', 'registers-changed')
    st_cells = f.field(f.field(vm, 'Vm', 'stack'), 'Stack', 'stack')
    if not it.must(values_equal(it, st_cells, pre['stack'])):
        return ('stack changed by the collection', 'stack-changed')
    it.ghost['tags'] = ['ran' if ran else 'skipped', 'live=%d' % live]
    it.ghost['reach'] = sorted(reach)
    return None


def make_harness(prog, focus, root, k, cap=CAP, chunk=None):
    fab = Fab(prog)
    RUN_GC = prog.resolve_crate('Vm::run_gc')

    def harness(it):
        f = fab
        vm = build_state(f, it, focus, root, k, cap, chunk)
        it.ghost['state'] = (focus, root, k, cap, chunk)
        pre = snapshot(f, it, vm)
        vmb = Cell(vm)
        it.call(RUN_GC, [Ref(vmb)])
        bad = judge(f, it, pre, vmb.v, k, cap, chunk)
        if bad: return violation(it, bad[0], bad[1], focus, root, k, cap, chunk)
        m = it.witness()
        it.ghost['sample'] = {'focus': focus, 'root': root, 'reachable': it.ghost.get('reach'), 'pointers': describe(m)} if m is not None else None
        return None
    return harness


def native_verdict(prog, replay, req):
    """rebuild the concrete pre-state of a counterexample, run the REAL run_gc on it (hooks), judge the real post-state"""
    global CONCRETE
    from mirsym.interp import Interp
    from . import vmfab
    from vlib.core import hexs, unhexs
    fab = Fab(prog)
    it = Interp(prog)
    CONCRETE = dict(req['vars'])
    try:
        vm = build_state(fab, it, req['focus'], req['root'], req['k'], req['cap'], req.get('chunk'))
    finally:
        CONCRETE = None
    pre = snapshot(fab, it, vm)
    text = vmfab.show_vm(fab, vm)
    out = replay.ask('gcstep ' + hexs(text))
    if out.startswith(('PANIC', 'ABORT')):
        return True, 'run_gc panics natively on %s: %s' % (text, out)
    if not out.startswith('OK '):
        return None, 'native replay failed: ' + out
    post = vmfab.vm_of(fab, unhexs(out.split()[1]))
    bad = judge(fab, it, pre, post, req['k'], req['cap'], req.get('chunk'))
    if bad: return True, '%s [pre-state %s]' % (bad[0], text)
    return False, 'native run_gc satisfies the oracle on %s' % text


def describe(m):
    out = {}
    if m is None: return out
    for d in m.decls():
        out[d.name()] = m[d].as_long() if hasattr(m[d], 'as_long') else str(m[d])
    return out


def violation(it, what, key, focus, root, k, cap, chunk=None):
    m = it.witness()
    return {'what': what, 'key': key, 'request': {'cmd': 'gcstep', 'focus': focus, 'root': root, 'k': k, 'cap': cap, 'chunk': chunk, 'vars': describe(m)}}


def on_panic(it, e):
    st = it.ghost.get('state', (None, None, 0, 0, None))
    m = it.witness()
    return {'what': 'panic during collection: %s' % e, 'key': 'panic:' + e.kind,
            'request': {'cmd': 'gcstep', 'focus': st[0], 'root': st[1], 'k': st[2], 'cap': st[3], 'chunk': st[4] if len(st) > 4 else None, 'vars': describe(m)}}


FUNCTIONS = ['vm::run::Vm::run_gc', 'vm::heap::Heap::mark', 'vm::heap::Heap::mark_vcell', 'vm::heap::Heap::mark_continuation',
             'vm::heap::Heap::mark_lambda', 'vm::heap::Heap::sweep', 'vm::heap::Heap::free', 'vm::heap::Heap::grow', 'vm::heap::Heap::used_size',
             'vm::heap::Heap::capacity', 'vm::gc::Map::get', 'vm::gc::Map::set', 'vm::gc::Map::mark', 'vm::gc::Map::is_marked', 'vm::gc::Map::resize',
             'vm::stack::Stack::iter_to_sp', 'vm::environment::GlobalEnvironment::iter_bindings', 'vm::environment::GlobalEnvironment::iter_slots',
             'vm::environment::LexicalEnvironment::{slot_len,get}', 'vm::vector::Vector::{len,get}', '<VCell as Clone>::clone (derived)',
             'vm::continuation::Continuation::{stack,ip,ep}', 'vm::environment::EnvironmentMap::get_map']


def plans(tier):
    out = []
    if tier == 'quick':
        for fk in FOCUS_KINDS: out.append((fk, 'acc-ptr', 6, 8))
        for rk in ROOT_KINDS: out.append(('Pair', rk, 6, 8))
        out.append(('Pair', 'acc-ptr', 5, 8))       # below the 75 % threshold: the collection must not run
        out.append(('Vector-all', 'acc-ptr', 7, 8))    # everything live through one vector: > 75 % after the sweep, growth policy
        # two chunks of 8: the collection runs (12/16 allocated), the survivors stay below 75 % of the CAPACITY but above 75 % of one chunk: no growth
        out.append(('Leaf', 'acc-ptr', 12, 16, 8)); out.append(('Leaf', 'global-slot', 12, 16, 8)); out.append(('Vector-all', 'acc-ptr', 13, 16, 8)); out.append(('Vector-half', 'acc-ptr', 12, 16, 8)); out.append(('Vector-half', 'global-slot', 12, 16, 8))
    else:
        for fk in FOCUS_KINDS:
            for rk in ROOT_KINDS: out.append((fk, rk, 6, 8))
        for fk in FOCUS_KINDS: out.append((fk, 'acc-ptr', 10, 12))
        out.append(('Pair', 'acc-ptr', 5, 8)); out.append(('Vector-all', 'acc-ptr', 7, 8)); out.append(('Vector-all', 'stack-ptr', 8, 8))
        for fk in ('Leaf', 'Ptr', 'Vector-all'):
            for rk in ('acc-ptr', 'global-slot', 'ep'): out.append((fk, rk, 12, 16, 8))
        out.append(('Vector-all', 'acc-ptr', 13, 16, 8))
    return out


C03_KEYS = {'live-cell-not-allocated', 'live-cell-freed', 'live-cell-changed', 'live-symbol-uninterned', 'registers-changed', 'stack-changed'}
C12_KEYS = {'garbage-survives', 'freed-not-cleared', 'free-list', 'free-cell-corrupted', 'growth-policy', 'dead-symbol-interned'}
C18_KEYS = {'live-symbol-uninterned', 'dead-symbol-interned'}


def run_all(chk, prog, tier, replays, keys):
    """explore every template; confirm violations natively (hooks) and report those whose key belongs to `keys`"""
    from mirsym import models_vm
    models_vm.install(prog)
    dev, rel = replays
    for pl in plans(tier):
        focus, root, k, cap = pl[:4]; chunk = pl[4] if len(pl) > 4 else None
        name = 'gc-step/focus=%s/root=%s/alloc=%d/cap=%d%s' % (focus, root, k, cap, '/chunk=%d' % chunk if chunk else '')
        h = make_harness(prog, focus, root, k, cap, chunk)
        res = explore(prog, h, opts={'on_panic': on_panic, 'paranoid': (focus, root) == ('Pair', 'acc-ptr') and k == 5}, quiet=True)
        print('  harness %-70s %s' % (name, res.summary()), flush=True)
        chk.add_result(name, res, FUNCTIONS, {'heap_capacity': cap, 'allocated_cells': k, 'focus_cell': focus, 'root': root,
                                              'symbolic': 'all embedded heap indices (each ranges over the allocated cells), sp'})
        seen = set()
        for v in res.violations:
            if not (v['key'] in keys or v['key'].startswith('panic')): continue
            if v['key'] in seen and len(seen) > 3: continue
            seen.add(v['key'])
            b1, d1 = native_verdict(prog, dev, v['request'])
            b2, d2 = native_verdict(prog, rel, v['request'])
            if b1 is None and b2 is None:
                chk.inconclusive.append('%s: %s' % (name, d1)); continue
            chk.violation(v['key'], (d1 if b1 else d2), v['request'], bool(b1) or bool(b2))
    chk.models.update(['Vec, slice iterators, Rc, RefCell (borrow flags tracked), HashMap with concrete keys, Range/Rev iterators, f64 casts of concrete sizes'])
    chk.assumptions += ['representation invariant assumed for the pre-state: free-list entries are exactly the Free cells, free cells are Undefined, no Used marks, '
                        'symbol table <-> symbol cells, allocated cells and roots reference only allocated cells (or usize::MAX)',
                        'induction over histories (a collection runs only between instructions; the root set is built from the fields of Vm) is argued in DESIGN.md, not solver-checked',
                        'cell kinds and their positions are enumerated templates (stated bound); pointers inside them are solver variables']
    chk.outside += ['heaps larger than %d cells, aggregates with more than 2-3 embedded references' % (12 if tier == 'thorough' else 8),
                    'native stack depth of the recursive marker (C19)', 'whole-program collection schedules (replaced by the step claim)']


def replay_request(prog, req, replays):
    b1, d1 = native_verdict(prog, replays[0], req)
    b2, d2 = native_verdict(prog, replays[1], req)
    return bool(b1) or bool(b2), d1 if b1 else d2
