"""Harness machinery for builtin procedures (`fn(&mut Vm) -> Result<VCell, Error>`) on fabricated VMs.

A case = (procedure, argument generators).  Arguments are placed the way the compiler places them: aggregates
(strings, vectors, pairs) on the heap and a Ptr on the stack, numbers / chars / booleans as immediates, then
ArgumentCount(n) on top.  After the call the harness decodes the result and the post-state of every argument
object and compares with a reference model written against R7RS (a string is a vector of scalar values, ...).
"""
import re
import z3
from mirsym.values import *
from mirsym.models_core import values_equal, clone_val, deref
from .vmfab import Fab, USIZE_MAX


def builtin_table(prog):
    """scheme name -> MIR function name, read from the load_builtin calls of the current sources"""
    import glob, os
    tbl = {}
    root = prog.srcroot
    for fn in glob.glob(root + '/vm/builtin/*.rs'):
        mod = os.path.basename(fn)[:-3]
        src = open(fn).read()
        for m in re.finditer(r'load_builtin\(\s*"([^"]+)"\s*,\s*(\w+)\s*\)', src):
            sname, rname = m.group(1), m.group(2)
            cands = ['vm::builtin::%s::%s' % (mod, rname), 'builtin::%s::%s' % (mod, rname), '%s::%s' % (mod, rname), rname]
            for c in cands:
                if c in prog.funcs:
                    tbl[sname] = c; break
            else:
                r = prog.resolve_crate('%s::%s' % (mod, rname)) or prog.resolve_crate(rname)
                if r: tbl[sname] = r
    return tbl


class Args:
    """builds the heap + stack for one call; remembers where each argument object lives"""
    def __init__(s, fab, it):
        s.f, s.it = fab, it
        s.cells = []          # heap cells
        s.stack = []          # argument VCells in call order
        s.objs = []           # per argument: ('str', heap index, chars) | ('imm', value) | ...

    def heap_obj(s, cell):
        s.cells.append(cell)
        return len(s.cells) - 1

    def string(s, chars):
        """chars: list of (cp, width)"""
        i = s.heap_obj(s.f.string(StrObj(list(chars))))
        s.stack.append(s.f.ptr(i)); s.objs.append(('str', i, [c for c, _ in chars]))
        return i

    def char(s, cp):
        s.stack.append(s.f.vc('Char', cp)); s.objs.append(('char', cp))

    def fixnum(s, n):
        s.stack.append(s.f.fixnum(n)); s.objs.append(('int', n))

    def value(s, v, desc):
        s.stack.append(v); s.objs.append(desc)

    def vector(s, elems):
        i = s.heap_obj(s.f.vector(list(elems)))
        s.stack.append(s.f.ptr(i)); s.objs.append(('vec', i, list(elems)))
        return i

    def build(s, capacity=None):
        f = s.f
        cap = capacity or ((len(s.cells) + 12) // 4 * 4)
        heap = f.heap(s.cells, cap)
        st = [f.vc('Undefined')] + s.stack + [f.vc('ArgumentCount', len(s.stack))] + [f.vc('Undefined')] * 3
        return f.vm(heap, f.stack(st, len(s.stack) + 1))


def heap_cells(fab, vm):
    return fab.field(fab.field(vm, 'Vm', 'heap'), 'Heap', 'heap')


def decode(fab, it, vm, v, depth=0):
    """VCell result -> python structure, following heap pointers: ('str', [cps]) ('char', c) ('int', n) ('bool', b)
    ('list', [..], tail) ('vec', [..]) ('void',) ('nil',) ('other', kind)"""
    f = fab
    if depth > 12: return ('deep',)
    k = f.kind(v)
    if k == 'Ptr':
        i = v.f[0]
        if is_sym(i): i = it.concretize(i)
        return decode(f, it, vm, heap_cells(f, vm)[i], depth + 1)
    if k == 'String': return ('str', [c for c, _ in v.f[0].get().f[0].chars])
    if k == 'Char': return ('char', v.f[0])
    if k == 'Bool': return ('bool', v.f[0])
    if k == 'Nil': return ('nil',)
    if k == 'Void': return ('void',)
    if k == 'Undefined': return ('undefined',)
    if k == 'Number':
        n = v.f[0]
        if n.var == 0: return ('int', n.f[0])
        return ('num', n)
    if k == 'Symbol': return ('sym', [c for c, _ in v.f[0].get().chars])
    if k == 'Vector':
        return ('vec', [decode(f, it, vm, x, depth + 1) for x in f.field(v.f[0].get(), 'Vector', 'vector').f[0]])
    if k == 'Pair':
        items = []
        cur = v
        n = 0
        while f.kind(cur) == 'Pair' and n < 12:
            a, d = cur.f
            if is_sym(a): a = it.concretize(a)
            if is_sym(d): d = it.concretize(d)
            items.append(decode(f, it, vm, heap_cells(f, vm)[a], depth + 1))
            cur = heap_cells(f, vm)[d]
            while f.kind(cur) == 'Ptr':
                j = cur.f[0]
                if is_sym(j): j = it.concretize(j)
                cur = heap_cells(f, vm)[j]
            n += 1
        tail = decode(f, it, vm, cur, depth + 1)
        return ('list', items, tail)
    return ('other', k)


def same(it, a, b):
    """structural comparison of decoded values; leaves compared with the solver (must hold on the whole path)"""
    if a[0] != b[0]: return False
    t = a[0]
    if t in ('str', 'sym'):
        return len(a[1]) == len(b[1]) and all(it.must(it.binop('Eq', x, y, 'char')) for x, y in zip(a[1], b[1]))
    if t == 'char': return it.must(it.binop('Eq', a[1], b[1], 'char'))
    if t == 'int': return it.must(it.binop('Eq', a[1], b[1], 'i64'))
    if t == 'bool':
        x, y = a[1], b[1]
        if isinstance(x, bool) and isinstance(y, bool): return x == y
        return it.must(it.bool_binop('Eq', x, y))
    if t == 'vec': return len(a[1]) == len(b[1]) and all(same(it, x, y) for x, y in zip(a[1], b[1]))
    if t == 'list': return len(a[1]) == len(b[1]) and all(same(it, x, y) for x, y in zip(a[1], b[1])) and same(it, a[2], b[2])
    return a == b


def conc_val(m, v):
    """concretise a decoded value / argument description under a model (for samples and replay requests)"""
    def c(x):
        if is_sym(x):
            r = m.eval(x, model_completion=True)
            if z3.is_bool(r): return z3.is_true(r)
            return r.as_long()
        return x
    t = v[0]
    if t in ('str', 'sym'): return (t, [c(x) for x in v[-1]] if t == 'sym' or len(v) == 2 else [c(x) for x in v[2]])
    if t == 'char': return ('char', c(v[1]))
    if t == 'int':
        n = c(v[1])
        if isinstance(n, int) and n >= 1 << 63: n -= 1 << 64
        return ('int', n)
    if t == 'bool': return ('bool', c(v[1]))
    if t == 'vec': return ('vec', [conc_val(m, x) for x in v[-1]])
    if t == 'list': return ('list', [conc_val(m, x) for x in v[1]], conc_val(m, v[2]))
    return v


def scheme_of(v):
    """scheme source text for a concretised argument description (used by the native replay through eval)"""
    t = v[0]
    if t == 'str':
        if not v[1]: return '(make-string 0 #\\a)'          # (string) with no argument is an arity error in marwood
        return '(string%s)' % ''.join(' #\\x%x' % x for x in v[1])
    if t == 'char': return '#\\x%x' % v[1]
    if t == 'int': return str(v[1])
    if t == 'bool': return '#t' if v[1] else '#f'
    if t == 'vec': return '(vector%s)' % ''.join(' ' + scheme_of(x) for x in v[1])
    if t == 'list':
        if v[2][0] == 'nil': return '(list%s)' % ''.join(' ' + scheme_of(x) for x in v[1])
        out = scheme_of(v[2])
        for x in reversed(v[1]): out = '(cons %s %s)' % (scheme_of(x), out)
        return out
    if t == 'nil': return "'()"
    if t == 'sym': return "(string->symbol %s)" % scheme_of(('str', v[1]))
    if t == 'raw': return v[1]
    raise ValueError('scheme_of %r' % (v,))


def canon(v):
    """canonical text of a concrete decoded value, same format as the replay binary's `evalc` printer"""
    t = v[0]
    if t == 'str': return 'S[%s]' % ','.join(str(x) for x in v[1])
    if t == 'sym': return 'Y[%s]' % ','.join(str(x) for x in v[1])
    if t == 'char': return 'C%d' % v[1]
    if t == 'int': return 'I%d' % v[1]
    if t == 'bool': return 'B%d' % int(v[1])
    if t == 'nil': return 'N'
    if t == 'void': return 'V'
    if t == 'undefined': return 'U'
    if t == 'vec': return '#(%s)' % ' '.join(canon(x) for x in v[1])
    if t == 'list':
        if not v[1]: return canon(v[2])
        return '(%s%s)' % (' '.join(canon(x) for x in v[1]), '' if v[2][0] == 'nil' else ' . ' + canon(v[2]))
    return '?%s' % (v,)
