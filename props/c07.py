"""C07 -- a failed evaluation leaves no trace beyond its completed effects (register / stack step lemma).

Encoded (real code): Vm::run_count with its error arm, StackTrace::new, Vm::run_one for the fabricated programs, the
entry sequence compile_runnable emits, Stack::clear.
Shapes: call depth 0..3 x error source (non-procedure call, unbound global, arity mismatch, bad operand); the failing
evaluation is followed by (a) a succeeding evaluation and (b) a second failing evaluation on the same VM.
Asserted: after the failure sp / bp / ep are what they are in a VM that never failed; the later evaluation returns the
same value / failure and the SAME stack trace length as in a fresh VM; k consecutive failures leave sp where one does.
"""
import os
import z3
from mirsym.values import *
from mirsym.explore import explore
from mirsym.models_core import values_equal, clone_val
from mirsym import models_vm
from .vmfab import Fab, USIZE_MAX
from . import vmfab, vmstep
from vlib.core import hexs, unhexs

FAILS = ['symbolic-target', 'non-procedure', 'unbound-global', 'arity', 'bad-operand']


def build(fab, depth, fail, value):
    """heap image with TWO programs: the failing one (entry e1) and a later evaluation (entry e2: succeeds with `value`
    at depth 1) and (entry e3: fails at depth 1 with a non-procedure call)"""
    f = fab
    P, e1, sym = vmstep.prog_nested(f, depth, fail, 1)
    rng = getattr(P, 'target_range', None)
    # later evaluations live in the same heap (prepare_eval puts a new entry lambda and points %ip at it)
    m2 = P.add(f.vlambda([f.op('Enter'), f.op('MovImmediate'), f.fixnum(value), f.vc('Acc'), f.op('Ret')]))
    e2 = P.add(P.entry(m2))
    m3 = P.add(f.vlambda([f.op('Enter'), f.op('PushImmediate'), f.vc('ArgumentCount', 0), f.op('MovImmediate'), f.fixnum(5), f.vc('Acc'), f.op('CallAcc'), f.op('Ret')]))
    e3 = P.add(P.entry(m3))
    vm = P.vm(e1, (len(P.cells) + 8) // 4 * 4 + 4)
    f.set_field(vm, 'Vm', 'globenv', f.globenv({sym: 0}, [f.vc('Undefined')]))
    build.target_range = rng
    return vm, e1, e2, e3


def make_collect_harness(prog, depth, fail, nfail):
    """memory clause: a failing evaluation that starts on a heap at >= 75% utilisation full of unreachable cells ends with those
    cells reclaimed (the error arm collects as the success arm does), however often it is repeated"""
    fab = Fab(prog)
    RUN_COUNT = prog.resolve_crate('Vm::run_count')
    G = 40

    def harness(it):
        f = fab
        it.ghost['shape'] = (depth, fail, nfail)
        P, e1, sym = vmstep.prog_nested(f, depth, fail, 1)
        n = len(P.cells)
        cap = ((n + G) * 5 // 4 + 3) // 4 * 4           # utilisation 0.8
        vm = P.vm(e1, cap, garbage=G)
        # slot 1 keeps the program reachable across collections (a real session re-creates the entry code per evaluation)
        f.set_field(vm, 'Vm', 'globenv', f.globenv({sym: 0}, [f.vc('Undefined'), f.ptr(e1)]))
        rng = getattr(P, 'target_range', None)
        if rng:
            t = z3.BitVec('target', 64)
            it.assume(z3.And(z3.UGE(t, rng[0]), z3.ULE(t, rng[1])))
        vb = Cell(vm)
        for k in range(nfail):
            set_ip(f, vb.v, e1)
            r = vmstep.result_cell(it, it.call(RUN_COUNT, [Ref(vb), USIZE_MAX]))
            if r[0] != 'err':
                if fail == 'symbolic-target': raise Infeasible()
                return cviol(it, 'the failing program did not fail', 'harness', n, cap)
        heap = f.field(vb.v, 'Vm', 'heap')
        left = []
        for i in range(n, n + G):
            st = f.gc_state(heap, i)
            if is_sym(st):
                if not it.must(st == 0): left.append(i)
            elif st != 0: left.append(i)
        if left:
            return cviol(it, 'after %d failed evaluation(s) %d of %d unreachable cells are still allocated (no collection on the error path)' % (nfail, len(left), G), 'failure-not-collected', n, cap)
        it.ghost['sample'] = {'depth': depth, 'error': fail, 'failures': nfail, 'garbage_cells': G, 'reclaimed': G}
        return None

    def cviol(it, what, key, n, cap):
        m = it.witness()
        t = m.eval(z3.BitVec('target', 64), model_completion=True).as_long() if m is not None else 0
        return {'what': what, 'key': key, 'request': {'cmd': 'c07collect', 'depth': depth, 'fail': fail, 'nfail': nfail, 'target': t, 'garbage': G, 'cells': n, 'cap': cap}}
    return harness


def native_collect(prog, replay, req):
    fab = Fab(prog)
    P, e1, sym = vmstep.prog_nested(fab, req['depth'], req['fail'], 1)
    vm = P.vm(e1, req['cap'], garbage=req['garbage'])
    fab.set_field(vm, 'Vm', 'globenv', fab.globenv({sym: 0}, [fab.vc('Undefined'), fab.ptr(e1)]))
    class M:
        def eval(self, t, model_completion=True):
            import z3 as _z
            return _z.BitVecVal(req.get('target', 0), 64)
    text = vmfab.show_vm(fab, vm, M())
    out = replay.ask('script %s %s used' % (hexs(text), ' '.join(['setip:%d:0 run:0' % e1] * req['nfail'])))
    if out.startswith(('PANIC', 'ABORT')): return True, 'sequence panics natively: ' + out[:200]
    toks = out.split()
    used = [x for x in toks if x.startswith('USED:')]
    if not used: return None, 'native replay failed: %s' % out[:200]
    u = int(used[0][5:])
    return u >= req['cells'] + req['garbage'], 'after %d failing evaluation(s) on a heap of %d cells holding %d unreachable ones: %d cells in use (live program: %d)' % (req['nfail'], req['cap'], req['garbage'], u, req['cells'])


def regs(f, vm):
    return (f.field(f.field(vm, 'Vm', 'stack'), 'Stack', 'sp'), f.field(vm, 'Vm', 'bp'), f.field(vm, 'Vm', 'ep'))


def frames(f, vm):
    t = f.field(vm, 'Vm', 'last_stacktrace')
    if t.var == 0: return -1
    return len(f.field(t.f[0], 'StackTrace', 'frames'))


def set_ip(f, vm, lam):
    f.set_field(vm, 'Vm', 'ip', Agg('tuple', None, [lam, 0]))


def make_harness(prog, depth, fail, nfail, slice_=None):
    """slice_: the failing evaluations run in slices of that many instructions (run_count(slice_) until done)"""
    fab = Fab(prog)
    RUN_COUNT = prog.resolve_crate('Vm::run_count')

    def harness(it):
        f = fab
        value = z3.BitVec('value', 64)
        it.ghost['shape'] = (depth, fail, nfail, slice_)
        # reference: a VM that never failed runs the two later evaluations
        ref, _, e2, e3 = build(f, depth, fail, value)
        rb = Cell(ref)
        set_ip(f, rb.v, e2)
        r_ok = vmstep.result_cell(it, it.call(RUN_COUNT, [Ref(rb), USIZE_MAX]))
        regs_ok = regs(f, rb.v)
        set_ip(f, rb.v, e3)
        r_err = vmstep.result_cell(it, it.call(RUN_COUNT, [Ref(rb), USIZE_MAX]))
        frames_ref = frames(f, rb.v)
        # the VM under test: nfail failing evaluations first
        vm, e1, e2, e3 = build(f, depth, fail, value)
        if build.target_range:
            t = z3.BitVec('target', 64)
            it.assume(z3.And(z3.UGE(t, build.target_range[0]), z3.ULE(t, build.target_range[1])))
        vb = Cell(vm)
        sps = []
        outcomes = []
        for k in range(nfail):
            set_ip(f, vb.v, e1)
            nsl = 0
            while True:
                r = vmstep.result_cell(it, it.call(RUN_COUNT, [Ref(vb), USIZE_MAX if slice_ is None else slice_]))
                nsl += 1
                if r[0] != 'none' or nsl > 200: break
            it.ghost.setdefault('slices', []).append(nsl)
            if r[0] != 'err' and fail != 'symbolic-target': return viol(it, 'the failing program did not fail (%s)' % (r[0],), 'harness')
            outcomes.append(r[0] if r[0] != 'err' else 'err%d' % r[1])
            sps.append(regs(f, vb.v))
        it.ghost['tags'] = ['first=' + outcomes[0]]
        fresh = (0, 0, USIZE_MAX)
        if sps[0] != fresh:
            return viol(it, 'after the failed evaluation (depth %d, %s) sp/bp/ep = %s; a VM that never failed has %s' % (depth, fail, sps[0], fresh), 'registers-not-reset')
        if any(x != sps[0] for x in sps):
            return viol(it, 'repeated failures accumulate stack depth: sp/bp/ep after each failure %s' % (sps,), 'failures-accumulate')
        set_ip(f, vb.v, e2)
        r2 = vmstep.result_cell(it, it.call(RUN_COUNT, [Ref(vb), USIZE_MAX]))
        if r2[0] != r_ok[0] or (r2[0] == 'value' and not it.must(values_equal(it, r2[1], r_ok[1]))):
            return viol(it, 'a later evaluation returns %r, in a fresh VM %r' % (r2, r_ok), 'later-value')
        if regs(f, vb.v) != regs_ok:
            return viol(it, 'registers after a later successful evaluation %s, in a fresh VM %s' % (regs(f, vb.v), regs_ok), 'later-registers')
        set_ip(f, vb.v, e3)
        r3 = vmstep.result_cell(it, it.call(RUN_COUNT, [Ref(vb), USIZE_MAX]))
        if r3 != r_err: return viol(it, 'a later failing evaluation returns %r, in a fresh VM %r' % (r3, r_err), 'later-error')
        if frames(f, vb.v) != frames_ref:
            return viol(it, 'stack trace of a later failure has %d frames, %d in a VM that never failed before: frames of the failed evaluation leak into it' % (frames(f, vb.v), frames_ref), 'stale-frames-in-trace')
        it.ghost['sample'] = {'depth': depth, 'error': fail, 'failures': nfail, 'trace_frames': frames_ref}
        return None

    def viol(it, what, key):
        m = it.witness()
        v = m.eval(z3.BitVec('value', 64), model_completion=True).as_long() if m is not None else 0
        t = m.eval(z3.BitVec('target', 64), model_completion=True).as_long() if m is not None else 0
        return {'what': what, 'key': key, 'request': {'cmd': 'c07', 'depth': depth, 'fail': fail, 'nfail': nfail, 'value': v, 'target': t, 'slice': slice_, 'slices': it.ghost.get('slices')}}
    return harness


def on_panic(it, e):
    sh = it.ghost.get('shape', (0, '?', 1))
    return {'what': 'panic: %s' % e, 'key': 'panic:' + e.kind, 'request': {'cmd': 'c07', 'depth': sh[0], 'fail': sh[1], 'nfail': sh[2], 'value': 0}}


def native_verdict(prog, replay, req):
    fab = Fab(prog)
    vm, e1, e2, e3 = build(fab, req['depth'], req['fail'], req['value'])
    class M:          # the only symbolic term in the image is the call target
        def eval(self, t, model_completion=True):
            import z3 as _z
            return _z.BitVecVal(req.get('target', 0), 64)
    text = vmfab.show_vm(fab, vm, M())
    ref = replay.ask('script %s setip:%d:0 run:0 setip:%d:0 run:0' % (hexs(text), e2, e3))
    if req.get('slice'):
        # sliced failing evaluations: as many run:<slice> ops as the symbolic run needed; only the last summary of each evaluation counts
        sl = req.get('slices') or []
        fops, keep, pos = [], [], 0
        for k in range(req['nfail']):
            n = sl[k] if k < len(sl) else 1
            fops += ['setip:%d:0' % e1] + ['run:%d' % req['slice']] * n
            pos += n; keep.append(pos - 1)
        ops = ' '.join(fops + ['setip:%d:0 run:0' % e2, 'setip:%d:0 run:0' % e3])
    else:
        keep = None
        ops = ' '.join(['setip:%d:0 run:0' % e1] * req['nfail'] + ['setip:%d:0 run:0' % e2, 'setip:%d:0 run:0' % e3])
    out = replay.ask('script %s %s' % (hexs(text), ops))
    if out.startswith(('PANIC', 'ABORT')): return True, 'sequence panics natively: ' + out
    if not out.startswith('OK ') or not ref.startswith('OK '): return None, 'native replay failed: %s / %s' % (out, ref)
    rs = ref.split()[1:3]
    toks = out.split()[1:-1]
    if keep is not None: toks = [toks[i] for i in keep] + toks[-2:]
    os_ = toks[:req['nfail'] + 2]
    def tail(x): return x.split('/', 1)[1]       # frames/sp/bp/ep
    fails = os_[:req['nfail']]
    for k, x in enumerate(fails):
        if 'sp=0/bp=0/ep=%d' % ((1 << 64) - 1) not in x:
            return True, 'after failing evaluation %d (depth %d, %s): %s -- a VM that never failed has sp=0 bp=0 ep=MAX' % (k + 1, req['depth'], req['fail'], tail(x))
    if os_[-2] != rs[0]: return True, 'later successful evaluation: %s, in a fresh VM: %s' % (os_[-2], rs[0])
    if os_[-1] != rs[1]: return True, 'later failing evaluation: %s, in a fresh VM: %s (stale frames / registers)' % (os_[-1], rs[1])
    return False, 'failure leaves no trace: ' + ' '.join(os_)


def make_stale_trace_harness(prog):
    """read / compile failures after a run-time failure: the stack trace reported for the later failure must be the one a VM
    without the earlier failure reports (none: nothing ran).  The real prepare_eval / compile_runnable / compile /
    transform / compile_expression run from MIR on every atom that is not a valid program and on self-evaluating atoms."""
    fab = Fab(prog)
    PREP = prog.resolve_crate('Vm::prepare_eval')
    CE = prog.enums['Cell']
    ATOMS = ['Nil', 'Void', 'Undefined', 'Macro', 'Continuation', 'Bool', 'Char', 'Number']

    def harness(it):
        f = fab
        heap = f.heap([f.vc('Nil')], 16)
        vm = f.vm(heap, f.stack([f.vc('Undefined') for _ in range(8)], 0))
        # what an earlier failed evaluation left behind: Some(trace)
        f.set_field(vm, 'Vm', 'last_stacktrace', Agg('Option', 1, [Agg('StackTrace', None, [[]])]))
        vb = Cell(vm)
        name = ATOMS[it.choose(len(ATOMS))]
        payload = {'Bool': [z3.Bool('b')], 'Char': [z3.BitVec('c', 32)], 'Number': [Agg('Number', 0, [z3.BitVec('n', 64)])]}.get(name, [])
        if name == 'Char': it.assume(z3.And(z3.ULT(payload[0], 0xD800)))
        it.ghost['atom'] = name
        r = it.call(PREP, [Ref(vb), Ref(Cell(Agg('Cell', CE.index(name), payload)))])
        ls = f.field(vb.v, 'Vm', 'last_stacktrace')
        it.ghost['tags'] = ['%s-%s' % (name, 'err' if r.var == 1 else 'ok')]
        if ls.var != 0:
            failed = r.var == 1
            return {'what': 'after a failed evaluation, %s of the atom %s still reports the stack trace of the EARLIER failure (a fresh VM reports none)' % ('the compile failure' if failed else 'preparing the evaluation', name),
                    'key': 'stale-stack-trace-after-compile-failure' if failed else 'stale-stack-trace-at-prepare', 'request': {'cmd': 'c07trace', 'atom': name}}
        return None
    return harness


# ---- later evaluations through the real compiler: a failed top-level form leaves only its COMPLETED effects
LATER = [
    # (failing form, the effects it completed before failing, later probe)
    ("(begin (car '()) (define-syntax ten (syntax-rules () ((_) 10))))", None, "(ten)"),
    ("(begin (define-syntax m1 (syntax-rules () ((_) 1))) (if))", None, "(m1)"),
    ("(begin (car '()) (define zz K))", None, "zz"),
    ("(begin (define yy K) (car '()))", "(define yy K)", "yy"),
    ("(begin (set! car cdr) (vector-ref (vector) K))", "(set! car cdr)", "(car '(1 . 2))"),
    ("(let ((v (vector 1 2))) (define-syntax m2 (syntax-rules () ((_) 2))) (vector-ref v 5))", None, "(m2)"),
    ("((lambda (x) (define-syntax when (syntax-rules () ((_ a b) 0))) (x)) 5)", None, "(when #t K)"),
    ("(car K)", None, "(let ((a K)) (if a (begin a) 0))"),
]


def make_later_harness(prog, ws_src, idx):
    from . import compilefab as CF
    fab = Fab(prog)
    C = CF.Cells(prog)
    EVAL = prog.resolve_crate('Vm::eval'); LB = prog.resolve_crate('Vm::load_builtins')
    prelude = CF.read_all(open(ws_src + '/marwood/prelude.scm').read())
    failing, completed, probe = LATER[idx]

    def subst(sx, env):
        if isinstance(sx, list): return [subst(x, env) for x in sx]
        if isinstance(sx, tuple) and sx[0] == 'sym' and sx[1] in env: return env[sx[1]]
        if isinstance(sx, tuple) and sx[0] == 'dotted': return ('dotted', [subst(x, env) for x in sx[1]], subst(sx[2], env))
        return sx

    def harness(it):
        f = fab
        vm = f.vm(f.heap([f.vc('Nil')], 4096), f.stack([f.vc('Undefined') for _ in range(64)], 0))
        vb = Cell(vm)
        it.call(LB, [Ref(vb)])
        for fm in prelude:
            r = it.call(EVAL, [Ref(vb), Ref(Cell(C.of(fm)))])
            if r.var != 0: raise Unsupported('the prelude does not evaluate through the encoding: %r' % (r,))
        K = z3.BitVec('K', 64)
        env = {'K': C.cv('Number', Agg('Number', 0, [K]))}
        cell = lambda src: C.of(subst(CF.read_all(src)[0], env))
        va, vr = Cell(it.clone(vb.v)), Cell(it.clone(vb.v))
        r = it.call(EVAL, [Ref(va), Ref(Cell(cell(failing)))])
        if r.var != 1: raise Unsupported('the form %s was expected to fail' % failing)
        if completed is not None:
            r = it.call(EVAL, [Ref(vr), Ref(Cell(cell(completed)))])
            if r.var != 0: raise Unsupported('the completed prefix %s fails' % completed)
        ra = it.call(EVAL, [Ref(va), Ref(Cell(cell(probe)))])
        rr = it.call(EVAL, [Ref(vr), Ref(Cell(cell(probe)))])
        m = it.witness()
        kv = m.eval(K, model_completion=True).as_signed_long() if m is not None else 0
        req = {'cmd': 'c07later', 'idx': idx, 'K': kv}
        def show(r): return 'error #%d' % r.f[0].var if r.var == 1 else 'a value'
        same = ra.var == rr.var and ((ra.var == 1 and ra.f[0].var == rr.f[0].var) or (ra.var == 0 and it.must(values_equal(it, ra.f[0], rr.f[0]))))
        if not same:
            return {'what': 'after the failed form %s the later form %s gives %s; in a VM that only performed %s it gives %s' % (failing, probe, show(ra), completed or 'nothing', show(rr)),
                    'key': 'failed-form-leaves-a-trace-visible-to-later-forms', 'request': req}
        it.ghost['tags'] = ['later-form-agrees']
        return None
    return harness


def native_later(replay, req):
    failing, completed, probe = LATER[req['idx']]
    k = str(req.get('K', 0))
    replay.ask('newvm')
    a0 = replay.ask('eval %s' % hexs(failing.replace('K', k)))
    a = replay.ask('eval %s' % hexs(probe.replace('K', k)))
    replay.ask('newvm')
    if completed: replay.ask('eval %s' % hexs(completed.replace('K', k)))
    r = replay.ask('eval %s' % hexs(probe.replace('K', k)))
    if not a0.startswith('ERR'): return None, 'natively the form %s does not fail: %s' % (failing, a0[:60])
    dec = lambda o: ' '.join(unhexs(x) for x in o.split()[1:2]) if len(o.split()) > 1 else o
    return a != r, 'after the failed form %s, %s => %s %s; in a VM that only performed %s => %s %s' % (failing, probe, a.split()[0], dec(a), completed or 'nothing', r.split()[0], dec(r))


def native_trace(replay, req):
    """(car 1) fails at run time (trace recorded), then a form that fails before running: which trace is reported?"""
    form = {'Nil': '()', 'Void': '()', 'Undefined': '()', 'Macro': '()', 'Continuation': '()'}.get(req['atom'])
    if form is None: return None, 'no source text produces this atom after a failure'
    replay.ask('newvm')
    out1 = replay.ask('eval %s' % hexs('(car 1)'))
    t1 = replay.ask('trace')
    out2 = replay.ask('eval %s' % hexs(form))
    t2 = replay.ask('trace')
    if not out1.startswith('ERR') or not out2.startswith('ERR'): return None, 'unexpected native outcome %s / %s' % (out1, out2)
    return t2 != 'NOTRACE', 'after (car 1) [%s] the compile failure of %s reports %s (a VM without the first failure reports NOTRACE)' % (t1, form, t2)


FUNCTIONS = ['vm::run::Vm::run_count', 'vm::run::Vm::run_one', 'vm::trace::StackTrace::new', 'vm::stack::Stack::{clear,push,pop,get,get_offset}',
             'vm::run::Vm::{read_opcode,read_operand,load_operand,store_operand,get_str_bound_to}', 'vm::environment::GlobalEnvironment::{get_slot,get_symbol}']


def run(chk, ws, prog, tier, replays):
    dev, rel = replays
    models_vm.install(prog)
    depths = range(0, 3) if tier == 'quick' else range(0, 4)
    seen = {}
    for depth in depths:
        for fail in FAILS:
            for nfail in ((1, 3) if tier == 'quick' else (1, 2, 5)):
                name = 'failed-evaluation/depth=%d/%s/failures=%d' % (depth, fail, nfail)
                h = make_harness(prog, depth, fail, nfail)
                res = explore(prog, h, opts={'on_panic': on_panic, 'render_fmt': False}, quiet=True)
                print('  harness %-58s %s' % (name, res.summary()), flush=True)
                chk.add_result(name, res, FUNCTIONS, {'call_depth': depth, 'error_source': fail, 'consecutive_failures': nfail, 'symbolic': 'call target (heap index over procedures of arity 0/1/2, a number, a string, nil) for error source symbolic-target; the value of the later evaluation'}, nontrivial=res.completed)
                for v in res.violations:
                    if seen.get(v['key'], 0) >= 3: continue
                    seen[v['key']] = seen.get(v['key'], 0) + 1
                    b1, d1 = native_verdict(prog, dev, v['request'])
                    b2, d2 = native_verdict(prog, rel, v['request'])
                    if b1 is None and b2 is None:
                        chk.inconclusive.append('%s: %s' % (name, d1)); continue
                    chk.violation(v['key'], (d1 if b1 else d2) + ' | ' + v['what'], v['request'], bool(b1) or bool(b2))
    for depth in (1, 2):
        for fail in FAILS:
            for sl in ((2,) if tier == 'quick' else (1, 2, 3)):
                name = 'failed-sliced-evaluation/depth=%d/%s/slice=%d' % (depth, fail, sl)
                res = explore(prog, make_harness(prog, depth, fail, 1, slice_=sl), opts={'on_panic': on_panic, 'render_fmt': False}, quiet=True)
                print('  harness %-58s %s' % (name, res.summary()), flush=True)
                chk.add_result(name, res, FUNCTIONS, {'call_depth': depth, 'error_source': fail, 'slice_budget': sl}, nontrivial=res.completed)
                for v in res.violations:
                    if seen.get(v['key'], 0) >= 3: continue
                    seen[v['key']] = seen.get(v['key'], 0) + 1
                    b1, d1 = native_verdict(prog, dev, v['request'])
                    b2, d2 = native_verdict(prog, rel, v['request'])
                    if b1 is None and b2 is None:
                        chk.inconclusive.append('%s: %s' % (name, d1)); continue
                    chk.violation(v['key'], (d1 if b1 else d2) + ' | ' + v['what'], v['request'], bool(b1) or bool(b2))
    for depth in (0, 2):
        for fail in FAILS:
            for nfail in (1, 3):
                name = 'failed-evaluation-collects/depth=%d/%s/failures=%d' % (depth, fail, nfail)
                res = explore(prog, make_collect_harness(prog, depth, fail, nfail), opts={'on_panic': on_panic, 'render_fmt': False}, quiet=True)
                print('  harness %-58s %s' % (name, res.summary()), flush=True)
                chk.add_result(name, res, FUNCTIONS + ['vm::run::Vm::run_gc', 'vm::heap::Heap::{mark,sweep,free}'], {'call_depth': depth, 'error_source': fail, 'consecutive_failures': nfail, 'unreachable_cells': 40, 'utilisation': 0.8}, nontrivial=res.completed)
                for v in res.violations:
                    if seen.get(v['key'], 0) >= 3: continue
                    seen[v['key']] = seen.get(v['key'], 0) + 1
                    if v['request'].get('cmd') != 'c07collect':
                        chk.inconclusive.append('%s: %s' % (name, v['what'])); continue
                    b1, d1 = native_collect(prog, dev, v['request'])
                    b2, d2 = native_collect(prog, rel, v['request'])
                    if b1 is None and b2 is None:
                        chk.inconclusive.append('%s: %s' % (name, d1)); continue
                    chk.violation(v['key'], (d1 if b1 else d2) + ' | ' + v['what'], v['request'], bool(b1) or bool(b2))
    res = explore(prog, make_stale_trace_harness(prog), opts={'on_panic': on_panic, 'render_fmt': False}, quiet=True)
    print('  harness %-58s %s' % ('stack-trace-of-a-later-compile-failure', res.summary()), flush=True)
    chk.add_result('stack-trace-of-a-later-compile-failure', res, ['vm::Vm::prepare_eval', 'vm::compile::Vm::{compile_runnable,compile,transform,compile_expression,compile_quote}', 'vm::lambda::Lambda::{new,new_from_iof,emit}'],
                   {'atoms': 'nil, void, undefined, macro, continuation (compile errors); booleans, characters, fixnums with symbolic payloads (compile)', 'pre-state': 'last_stacktrace = Some(trace of an earlier failure)'}, nontrivial=res.completed)
    for v in res.violations:
        if seen.get(v['key'], 0) >= 1: continue
        seen[v['key']] = 1
        b1, d1 = native_trace(dev, v['request']); b2, d2 = native_trace(rel, v['request'])
        if b1 is None and b2 is None:
            chk.inconclusive.append('stack-trace-of-a-later-compile-failure: %s' % d1); continue
        chk.violation(v['key'], (d1 if b1 else d2) + ' | ' + v['what'], v['request'], bool(b1) or bool(b2))
    # The later-evaluation lemma (make_later_harness: failing SOURCE forms through the real compiler, then a later form in the same VM
    # against a VM that only performed the completed effects) is NOT part of the check: on the unchanged tree five of its eight forms end
    # in an interpreter-side panic ("invalid environment slot": internal defines inside the lambda that `begin` expands to, the order of
    # the modelled HashSet differs from what the compiler assumes) and one comparison of equal values is not decided.  It is kept for
    # development (VERIF_C07_LATER=1 runs it, results are reported as inconclusive only); seeded change C07C stays missed.
    if os.environ.get('VERIF_C07_LATER'):
        from mirsym.explore import explore_many
        for name, res in explore_many(prog, [('later-evaluation/%d' % i, make_later_harness(prog, ws.src(), i), {'on_panic': on_panic, 'render_fmt': False, 'step_limit': 30000000}) for i in range(len(LATER))], parallel=8, nproc_each=1):
            print('  [experimental] %-40s %s %s' % (name, res.summary(), [v['what'][:120] for v in res.violations]), flush=True)
    chk.extra['rule'] = ('evaluations = solver queries + MIR steps are reported per harness; distinct_nontrivial = completed paths (one per shape: call depth x error source x '
                         'number of failures; the data operand is symbolic). The shapes are enumerated, the run loop is executed from MIR.')
    chk.assumptions += ['read errors touch no VM state (parse_text takes no VM); compile errors: the stack-trace register is checked on prepare_eval of atoms, other state touched by a failing compile of compound forms is argued only; heap and global effects are "completed effects" by definition',
                        'programs are fabricated bytecode, not compiler output (effects of a failing COMPILE of compound forms, e.g. a define-syntax bound at compile time, are outside: seeded change C07C is missed); failures inside a continuation are outside']
    chk.outside += ['call depth above 3', 'errors raised by builtins (same error arm of run_count)']


def replay_request(req, replays):
    from vlib import core
    prog = core.load_program(core.Workspace())
    models_vm.install(prog)
    if req.get('cmd') == 'c07later':
        b1, d1 = native_later(replays[0], req); b2, d2 = native_later(replays[1], req)
        return bool(b1) or bool(b2), d1 if b1 else d2
    if req.get('cmd') == 'c07trace':
        b1, d1 = native_trace(replays[0], req); b2, d2 = native_trace(replays[1], req)
        return bool(b1) or bool(b2), d1 if b1 else d2
    nv = native_collect if req.get('cmd') == 'c07collect' else native_verdict
    b1, d1 = nv(prog, replays[0], req)
    b2, d2 = nv(prog, replays[1], req)
    return bool(b1) or bool(b2), d1 if b1 else d2
