"""C05 -- first-class continuations: capture / restore step lemmas.

Encoded (real code): builtin call_cc, Vm::to_continuation / restore_continuation, Stack::to_continuation /
restore_continuation / clear, the Continuation arms of CallAcc / TCallAcc in Vm::run_one, Vm::run_count (HALT arm).
(1) capture: after the call/cc dispatch the continuation object equals the machine state with receiver and argc popped
    and ip = the instruction after the call;
(2) restore: from ANY later state (stack contents, sp, bp, ep, ip symbolic; stack possibly grown), CALL k with one
    argument v yields stack[0..=sp0] = saved, sp/bp/ep/ip = saved, acc = v, heap and globals untouched;
(3) k applied to zero arguments is an Err, not a panic;
(4) restoring a continuation whose saved stack is longer than the initial 256 slots works after an evaluation completed
    (Stack::clear) on a stack that had grown -- no panic in split_at_mut.
Marking of continuations by the collector is part of C03.
"""
import z3
from mirsym.values import *
from mirsym.explore import explore
from mirsym.models_core import values_equal, clone_val
from mirsym import models_vm
from .vmfab import Fab, USIZE_MAX
from . import vmfab, vmstep
from vlib.core import hexs, unhexs


def sym_cell(f, it, name):
    """a stack cell of symbolic content: the kind is a shape choice, the payload a solver variable"""
    k = it.choose(4)
    v = z3.BitVec(name, 64)
    if k == 0: return f.fixnum(v)
    if k == 1:
        it.assume(z3.ULT(v, 4)); return f.ptr(v)
    if k == 2:
        it.assume(z3.ULT(v, 4)); return f.vc('InstructionPointer', v, 1)
    it.assume(z3.ULT(v, 8)); return f.vc('ArgumentCount', v)


def build_restore(fab, it, saved_len, cur_len, tail, argc, grown):
    """heap: 0 = continuation, 1 = lambda the continuation returns into, 2 = current lambda (CALL/TCALL k), 3 = data"""
    f = fab
    saved = [f.vc('Undefined')] + [sym_cell(f, it, 's%d' % i) for i in range(min(saved_len - 1, 3))]
    saved += [f.vc('Undefined')] * (saved_len - len(saved))
    sp0 = saved_len - 1
    bp0 = z3.BitVec('bp0', 64); it.assume(z3.ULE(bp0, sp0))
    ep0 = z3.BitVec('ep0', 64)
    ip1 = z3.BitVec('ip1', 64); it.assume(z3.ULT(ip1, 3))
    cont = f.vcont(saved, sp0, ep0, (1, ip1), bp0)
    l0 = f.vlambda([f.op('PushAcc'), f.op('PushAcc'), f.op('Halt')])
    cur = f.vlambda([f.op('TCallAcc' if tail else 'CallAcc'), f.op('Halt')])
    cells = [cont, l0, cur, f.fixnum(9)]
    heap = f.heap(cells, 8)
    v = z3.BitVec('v', 64)
    # the current stack: arbitrary contents, then the argument(s) and argc on top
    stack_total = max(cur_len + 4, saved_len) if not grown else max(512, saved_len + 8)
    if grown is False and stack_total < 16: stack_total = 16
    cells_now = [f.vc('Undefined')] + [sym_cell(f, it, 'c%d' % i) for i in range(min(cur_len, 3))]
    cells_now += [f.vc('Undefined')] * (cur_len - min(cur_len, 3))
    if argc == 1: cells_now.append(f.fixnum(v))
    cells_now.append(f.vc('ArgumentCount', argc))
    sp = len(cells_now) - 1
    cells_now += [f.vc('Undefined')] * (stack_total - len(cells_now))
    bp = z3.BitVec('bp', 64); it.assume(z3.ULE(bp, sp))
    vm = f.vm(heap, f.stack(cells_now, sp), acc=f.ptr(0), ep=z3.BitVec('ep', 64), ip=(2, 0), bp=bp,
              globenv=f.globenv({}, [f.fixnum(5)]))
    return vm, saved, (sp0, bp0, ep0, (1, ip1)), v


def make_restore_harness(prog, saved_len, cur_len, tail, argc, grown=False):
    fab = Fab(prog)
    RUN_ONE = prog.resolve_crate('Vm::run_one')

    def harness(it):
        f = fab
        it.ghost['shape'] = ('restore', saved_len, cur_len, tail, argc, grown)
        vm, saved, (sp0, bp0, ep0, ip0), v = build_restore(f, it, saved_len, cur_len, tail, argc, grown)
        pre_heap = [clone_val(it, c) for c in f.field(f.field(vm, 'Vm', 'heap'), 'Heap', 'heap')]
        pre_saved = [clone_val(it, c) for c in saved]
        vb = Cell(vm)
        r = it.call(RUN_ONE, [Ref(vb)])
        vm = vb.v
        if argc == 0:
            if r.var != 1: return viol(it, 'continuation applied to zero arguments did not report an error', 'zero-args')
            it.ghost['tags'] = ['zero-args-err']
            return None
        if r.var != 0: return viol(it, 'invoking the continuation failed: error variant %d' % r.f[0].var, 'invoke-error')
        st = f.field(vm, 'Vm', 'stack')
        cells = f.field(st, 'Stack', 'stack')
        if f.field(st, 'Stack', 'sp') != sp0: return viol(it, 'sp is %s after the invocation, saved sp %d' % (f.field(st, 'Stack', 'sp'), sp0), 'restore-registers')
        if not it.must(values_equal(it, Agg('t', None, [f.field(vm, 'Vm', 'bp'), f.field(vm, 'Vm', 'ep'), f.field(vm, 'Vm', 'ip')]),
                                    Agg('t', None, [bp0, ep0, Agg('tuple', None, [ip0[0], ip0[1]])]))):
            return viol(it, 'bp / ep / ip after the invocation are not the saved ones', 'restore-registers')
        if len(cells) < sp0 + 1: return viol(it, 'stack shorter than the restored sp', 'restore-stack')
        if not it.must(values_equal(it, cells[:sp0 + 1], pre_saved)):
            return viol(it, 'stack[0..=sp] after the invocation is not the saved stack', 'restore-stack')
        acc = f.field(vm, 'Vm', 'acc')
        if not (f.kind(acc) == 'Number' and it.must(values_equal(it, acc, f.fixnum(v)))):
            return viol(it, 'acc is %r, expected the value passed to the continuation' % (acc,), 'restore-acc')
        now_heap = f.field(f.field(vm, 'Vm', 'heap'), 'Heap', 'heap')
        if not it.must(values_equal(it, now_heap, pre_heap)): return viol(it, 'heap changed by invoking a continuation', 'restore-heap')
        it.ghost['tags'] = ['restored']
        it.ghost['sample'] = {'saved_stack_len': saved_len, 'current_stack_len': cur_len, 'tail': tail}
        return None

    def viol(it, what, key):
        m = it.witness()
        vals = {d.name(): m[d].as_long() for d in m.decls()} if m is not None else {}
        return {'what': what, 'key': key, 'request': {'cmd': 'c05', 'shape': list(it.ghost['shape']), 'vars': vals, 'decisions': [d for d in it.taken if isinstance(d, int) and not isinstance(d, bool)]}}
    return harness


def make_capture_harness(prog, depth):
    """the call/cc builtin on a stack of `depth` symbolic cells + receiver + argc"""
    fab = Fab(prog)
    CALLCC = prog.resolve_crate('call_cc')

    def harness(it):
        f = fab
        it.ghost['shape'] = ('capture', depth)
        below = [f.vc('Undefined')] + [sym_cell(f, it, 'c%d' % i) for i in range(depth)]
        recv = f.vlambda([f.op('Enter'), f.op('Ret')], args=[f.ptr(1)])
        heap = f.heap([recv, f.symbol('k'), f.fixnum(1)], 8)
        cells = below + [f.ptr(0), f.vc('ArgumentCount', 1)]
        sp = len(cells) - 1
        cells += [f.vc('Undefined')] * 6
        bp = z3.BitVec('bp', 64); it.assume(z3.ULE(bp, sp))
        ep = z3.BitVec('ep', 64)
        ip1 = z3.BitVec('ip1', 64); it.assume(z3.And(z3.UGE(ip1, 1), z3.ULE(ip1, 5)))
        vm = f.vm(heap, f.stack(cells, sp), acc=f.ptr(0), ep=ep, ip=(0, ip1), bp=bp)
        pre_below = [clone_val(it, c) for c in below]
        vb = Cell(vm)
        r = it.call(CALLCC, [Ref(vb)])
        vm = vb.v
        if r.var != 0: return viol(it, 'call/cc with a procedure argument failed', 'capture-error')
        st = f.field(vm, 'Vm', 'stack')
        cells2 = f.field(st, 'Stack', 'stack'); sp2 = f.field(st, 'Stack', 'sp')
        # the receiver is re-applied to the continuation: stack = below ++ [cont, argc 1]
        if sp2 != len(below) + 1: return viol(it, 'sp after call/cc dispatch is %s, expected %d' % (sp2, len(below) + 1), 'capture-layout')
        k = cells2[sp2 - 1]
        hp = f.field(f.field(vm, 'Vm', 'heap'), 'Heap', 'heap')
        while f.kind(k) == 'Ptr': k = hp[it.concretize(k.f[0]) if is_sym(k.f[0]) else k.f[0]]
        if f.kind(k) != 'Continuation': return viol(it, 'the receiver does not get a continuation object', 'capture-layout')
        ct = k.f[0].get()
        cst = f.field(ct, 'Continuation', 'stack')
        want_sp = len(below) - 1
        if f.field(cst, 'Stack', 'sp') != want_sp: return viol(it, 'captured sp %s, expected %d (receiver and argc popped)' % (f.field(cst, 'Stack', 'sp'), want_sp), 'capture-state')
        if not it.must(values_equal(it, f.field(cst, 'Stack', 'stack'), pre_below)):
            return viol(it, 'captured stack is not the stack below the call/cc operands', 'capture-state')
        # the capture happens while CALL executes: %ip already points after the CALL; afterwards ip.1 is decremented to re-run CALL
        if not it.must(values_equal(it, Agg('t', None, [f.field(ct, 'Continuation', 'ep'), f.field(ct, 'Continuation', 'bp'), f.field(ct, 'Continuation', 'ip')]),
                                    Agg('t', None, [ep, bp, Agg('tuple', None, [0, ip1])]))):
            return viol(it, 'captured ep / bp / ip are not the registers at the call', 'capture-state')
        ip = f.field(vm, 'Vm', 'ip')
        if not it.must(values_equal(it, ip, Agg('tuple', None, [0, ip1 - 1]))): return viol(it, 'ip not rewound to re-dispatch the receiver', 'capture-layout')
        it.ghost['tags'] = ['captured']
        it.ghost['sample'] = {'stack_cells_below': depth}
        return None

    def viol(it, what, key):
        m = it.witness()
        vals = {d.name(): m[d].as_long() for d in m.decls()} if m is not None else {}
        return {'what': what, 'key': key, 'request': {'cmd': 'c05', 'shape': list(it.ghost['shape']), 'vars': vals, 'decisions': []}}
    return harness


def ev1_code(f, fail):
    if not fail: return [f.op('MovImmediate'), f.fixnum(1), f.vc('Acc'), f.op('Halt')]
    # (5): a call of a number -> run-time error, error arm of run_count
    return [f.op('PushImmediate'), f.vc('ArgumentCount', 0), f.op('MovImmediate'), f.fixnum(5), f.vc('Acc'), f.op('CallAcc'), f.op('Halt')]


def make_clear_then_restore_harness(prog, saved_len, fail=False):
    """(4): an evaluation completes (HALT -> Stack::clear) on a grown stack, then a stored continuation with a LONG saved stack
    is invoked from a later evaluation"""
    fab = Fab(prog)
    RUN_COUNT = prog.resolve_crate('Vm::run_count')

    def harness(it):
        f = fab
        it.ghost['shape'] = ('fail-restore' if fail else 'clear-restore', saved_len)
        v = z3.BitVec('v', 64)
        saved = [f.vc('Undefined')] + [f.fixnum(z3.BitVec('s%d' % i, 64)) for i in range(3)] + [f.vc('Undefined')] * (saved_len - 4)
        # continuation returns into lambda 1 at its HALT with the value in acc
        cont = f.vcont(saved, saved_len - 1, USIZE_MAX, (1, 0), 0)
        l0 = f.vlambda([f.op('Halt')])
        ev1 = f.vlambda(ev1_code(f, fail))
        ev2 = f.vlambda([f.op('PushImmediate'), f.fixnum(v), f.op('PushImmediate'), f.vc('ArgumentCount', 1), f.op('MovImmediate'), f.ptr(0), f.vc('Acc'), f.op('CallAcc'), f.op('Halt')])
        heap = f.heap([cont, l0, ev1, ev2], 8)
        stack_len = 512 if saved_len > 256 else 256
        vm = f.vm(heap, f.stack([f.vc('Undefined')] * stack_len, 0), ip=(2, 0))
        vb = Cell(vm)
        r1 = vmstep.result_cell(it, it.call(RUN_COUNT, [Ref(vb), USIZE_MAX]))
        if r1[0] != ('err' if fail else 'value'): return viol(it, 'first evaluation did not %s' % ('fail' if fail else 'complete'), 'harness')
        f.set_field(vb.v, 'Vm', 'ip', Agg('tuple', None, [3, 0]))
        r2 = vmstep.result_cell(it, it.call(RUN_COUNT, [Ref(vb), USIZE_MAX]))
        if r2[0] != 'value': return viol(it, 'invoking the stored continuation from a later evaluation ends with %r' % (r2,), 'later-invoke')
        num = r2[1]
        if not (isinstance(num, Agg) and num.ty == 'Cell' and it.must(values_equal(it, num.f[0], Agg('Number', 0, [v])))):
            return viol(it, 'continuation invoked from a later evaluation yields %r, expected the passed value' % (num,), 'later-invoke')
        it.ghost['sample'] = {'saved_stack_len': saved_len}
        return None

    def viol(it, what, key):
        m = it.witness()
        vals = {d.name(): m[d].as_long() for d in m.decls()} if m is not None else {}
        return {'what': what, 'key': key, 'request': {'cmd': 'c05', 'shape': list(it.ghost['shape']), 'vars': vals, 'decisions': []}}
    return harness


def on_panic(it, e):
    m = it.witness()
    vals = {d.name(): m[d].as_long() for d in m.decls()} if m is not None else {}
    return {'what': 'panic: %s' % e, 'key': 'panic:%s:%s' % (it.ghost.get('shape', ('?',))[0], e.kind),
            'request': {'cmd': 'c05', 'shape': list(it.ghost.get('shape', ('?',))), 'vars': vals, 'decisions': [d for d in it.taken if isinstance(d, int) and not isinstance(d, bool)]}}


def native_verdict(prog, replay, req):
    """re-run the concrete counterexample natively: the harness itself is executed with every solver variable fixed to the
    model value, but `it.call` of the real code is replaced by the native VM (hooks): state out, dump in."""
    from mirsym.interp import Interp
    sh = req['shape']
    fab = Fab(prog)
    class NativeIt(Interp):
        pass
    if sh[0] in ('clear-restore', 'fail-restore'):
        fail = sh[0] == 'fail-restore'
        saved_len = sh[1]
        f = fab
        vals = req['vars']
        g = lambda n: vals.get(n, 0)
        saved = [f.vc('Undefined')] + [f.fixnum(g('s%d' % i)) for i in range(3)] + [f.vc('Undefined')] * (saved_len - 4)
        cont = f.vcont(saved, saved_len - 1, USIZE_MAX, (1, 0), 0)
        l0 = f.vlambda([f.op('Halt')])
        ev1 = f.vlambda(ev1_code(f, fail))
        ev2 = f.vlambda([f.op('PushImmediate'), f.fixnum(g('v')), f.op('PushImmediate'), f.vc('ArgumentCount', 1), f.op('MovImmediate'), f.ptr(0), f.vc('Acc'), f.op('CallAcc'), f.op('Halt')])
        heap = f.heap([cont, l0, ev1, ev2], 8)
        vm = f.vm(heap, f.stack([f.vc('Undefined')] * (512 if saved_len > 256 else 256), 0), ip=(2, 0))
        out = replay.ask('script %s run:0 setip:3:0 run:0' % hexs(vmfab.show_vm(f, vm)))
        if out.startswith(('PANIC', 'ABORT')): return True, 'invoking a stored continuation (saved stack of %d slots) after a %s evaluation: %s' % (saved_len, 'failed' if fail else 'completed', out)
        second = out.split()[2].split('/')[0]
        v = g('v'); v = v - (1 << 64) if v >= 1 << 63 else v
        want = 'VALUE:' + ('I%d' % v).encode().hex()
        return second != want, 'later invocation of the stored continuation: %s, expected %s' % (second, want)
    if sh[0] == 'capture':
        # a capture that saves more than the stack below the call/cc operands is observable natively as RETENTION: cells referenced
        # only from frames that had returned before the capture stay allocated while the continuation is reachable
        setup = ("(define k #f) (define (fill n) (if (= n 0) '() (cons n (fill (- n 1))))) "
                 "(define (deep n) (if (= n 0) 0 (let ((l (fill 100))) (+ (deep (- n 1)) (car l))))) "
                 "(begin (deep 150) (call/cc (lambda (c) (set! k c))) 'captured)")
        out = replay.ask('retention %s %s' % (hexs(setup), hexs('(set! k #f)')))
        if out.startswith(('PANIC', 'ABORT')): return True, 'capture scenario panics natively: ' + out[:200]
        if not out.startswith('OK '): return None, 'native capture scenario failed: ' + out[:200]
        u1, u2 = [int(x) for x in out.split()[1:3]]
        return (u1 - u2) > 1000, 'a continuation captured after 150 returned frames (100 fresh cells each) keeps %d cells allocated; dropping it releases %d cells it could never reach' % (u1, u1 - u2)
    return None, 'native reproduction of %s counterexamples is not implemented (symbolic result only)' % sh[0]


FUNCTIONS = ['vm::builtin::procedure::call_cc', 'vm::continuation::Vm::to_continuation', 'vm::continuation::Vm::restore_continuation', 'vm::stack::Stack::to_continuation',
             'vm::stack::Stack::restore_continuation', 'vm::stack::Stack::clear', 'vm::run::Vm::run_one (CallAcc / TCallAcc continuation arms)', 'vm::run::Vm::run_count', 'vm::builtin::pop_argc']


def run(chk, ws, prog, tier, replays):
    dev, rel = replays
    models_vm.install(prog)
    jobs = []
    for depth in range(0, 3 if tier == 'quick' else 4):
        jobs.append(('capture/depth=%d' % depth, make_capture_harness(prog, depth)))
    for saved_len in (1, 3, 4):
        for cur_len in (0, 2, 5):
            for tail in (False, True):
                jobs.append(('restore/saved=%d/current=%d/%s' % (saved_len, cur_len, 'tcall' if tail else 'call'), make_restore_harness(prog, saved_len, cur_len, tail, 1)))
    jobs.append(('restore/zero-args/call', make_restore_harness(prog, 3, 2, False, 0)))
    jobs.append(('restore/zero-args/tcall', make_restore_harness(prog, 3, 2, True, 0)))
    jobs.append(('restore/saved=300/current=2/grown-stack', make_restore_harness(prog, 300, 2, False, 1, grown=True)))
    jobs.append(('clear-then-restore/saved=4', make_clear_then_restore_harness(prog, 4)))
    jobs.append(('clear-then-restore/saved=300', make_clear_then_restore_harness(prog, 300)))
    jobs.append(('fail-then-restore/saved=4', make_clear_then_restore_harness(prog, 4, fail=True)))
    jobs.append(('fail-then-restore/saved=300', make_clear_then_restore_harness(prog, 300, fail=True)))
    seen = {}
    for name, h in jobs:
        res = explore(prog, h, opts={'on_panic': on_panic, 'render_fmt': False}, quiet=True)
        print('  harness %-46s %s' % (name, res.summary()), flush=True)
        chk.add_result(name, res, FUNCTIONS, {'symbolic': 'contents of the saved and the current stack (kind forked, payload symbolic), bp, ep, ip offset, the passed value'})
        for v in res.violations:
            if seen.get(v['key'], 0) >= 3: continue
            seen[v['key']] = seen.get(v['key'], 0) + 1
            b1, d1 = native_verdict(prog, dev, v['request'])
            b2, d2 = native_verdict(prog, rel, v['request'])
            if b1 is None and b2 is None:
                chk.inconclusive.append('%s: %s (%s)' % (name, v['what'], d1)); continue
            chk.violation(v['key'], (d1 if b1 else d2) + ' | ' + v['what'], v['request'], bool(b1) or bool(b2))
    chk.assumptions += ['the end-to-end meaning ("continues as if the call/cc expression had returned v") for whole programs is outside; the step lemmas quantify over the machine state instead',
                        'marking of continuations by the collector is decided by C03']
    chk.outside += ['saved stacks other than the enumerated lengths (1, 3, 4, 300)', 'continuations invoked through apply']


def replay_request(req, replays):
    from vlib import core
    prog = core.load_program(core.Workspace())
    models_vm.install(prog)
    b1, d1 = native_verdict(prog, replays[0], req)
    b2, d2 = native_verdict(prog, replays[1], req)
    return bool(b1) or bool(b2), d1 if b1 else d2
