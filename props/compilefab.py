"""Source forms for the compile-time harnesses: a small reader (text -> Cell values of the interpreter) used to hand the REAL
prelude macro definitions (read from the current tree's prelude.scm on every run) and fabricated programs to the real compiler
and macro expander, which run from MIR.  The reader is harness code (trusted); lex / parse are the subject of C11, not of C04."""
import re
import z3
from mirsym.values import *
from mirsym.models_core import mk_box


def read_all(text):
    """-> list of python S-expressions: list | ('sym', s) | ('num', n) | ('bool', b) | ('str', s) | ('quote', x)"""
    toks = re.findall(r'''\s*(;[^\n]*|,@|[('`,)\[\]]|"(?:\\.|[^\\"])*"|[^\s('"`,;)\[\]]+)''', text)
    toks = [t for t in toks if not t.startswith(';')]
    pos = [0]
    def rd():
        t = toks[pos[0]]; pos[0] += 1
        if t in '([':
            out = []
            while toks[pos[0]] not in ')]':
                if toks[pos[0]] == '.':
                    pos[0] += 1; tail = rd(); out = ('dotted', out, tail)
                    break
                out.append(rd())
            pos[0] += 1
            return out
        if t == "'": return [('sym', 'quote'), rd()]
        if t == '`': return [('sym', 'quasiquote'), rd()]
        if t == ',': return [('sym', 'unquote'), rd()]
        if t == ',@': return [('sym', 'unquote-splicing'), rd()]
        if t.startswith('"'): return ('str', t[1:-1])
        if t in ('#t', '#true'): return ('bool', True)
        if t in ('#f', '#false'): return ('bool', False)
        if re.fullmatch(r'-?\d+', t): return ('num', int(t))
        return ('sym', t)
    out = []
    while pos[0] < len(toks): out.append(rd())
    return out


class Cells:
    def __init__(s, prog):
        s.CELL = prog.enums['Cell']

    def cv(s, name, *a): return Agg('Cell', s.CELL.index(name), list(a))

    def of(s, sx):
        if isinstance(sx, Agg): return sx                       # an already built Cell (symbolic leaves)
        if isinstance(sx, list):
            cur = s.cv('Nil')
            for x in reversed(sx): cur = s.cv('Pair', mk_box(s.of(x)), mk_box(cur))
            return cur
        if sx[0] == 'dotted':
            cur = s.of(sx[2])
            for x in reversed(sx[1]): cur = s.cv('Pair', mk_box(s.of(x)), mk_box(cur))
            return cur
        if sx[0] == 'sym': return s.cv('Symbol', mkstr(sx[1]))
        if sx[0] == 'num': return s.cv('Number', Agg('Number', 0, [sx[1]]))
        if sx[0] == 'bool': return s.cv('Bool', sx[1])
        if sx[0] == 'str': return s.cv('String', mkstr(sx[1]))
        raise KeyError(sx)


def prelude_macros(repo_root):
    """the define-syntax forms of the current tree's prelude, in order"""
    text = open(repo_root + '/marwood/prelude.scm').read()
    return [f for f in read_all(text) if isinstance(f, list) and f and f[0] == ('sym', 'define-syntax')]
