"""C03 -- see gcstep.py: one collection from an arbitrary bounded valid VM state (inductive step)."""
from . import gcstep


def run(chk, ws, prog, tier, replays):
    gcstep.run_all(chk, prog, tier, replays, gcstep.C03_KEYS)


def replay_request(req, replays):
    from vlib import core
    prog = core.load_program(core.Workspace())
    from mirsym import models_vm
    models_vm.install(prog)
    return gcstep.replay_request(prog, req, replays)
