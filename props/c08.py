"""C08 -- exact arithmetic is exact; inexactness is never silently dropped.

Engine M (MIR of the current tree): `impl Add/Sub/Mul/Div for &Number`, Number::quotient, `impl Rem for &Number`,
Number::modulo, abs, floor, ceil, truncate, numerator, denominator, one harness per operator and ordered pair of exact
representations (Fixnum: any i64; BigInt: any integer with |x| <= 2^66; Rational: any i32 numerator reduced against a
denominator from a stated palette).  num-bigint and num-rational are models (dependencies), see mirsym/models_num.py.
Oracle (bit-vector arithmetic, denominators concrete):
  * an exact result equals the exact rational value of the operation (cross-multiplication);
  * an inexact (float) result is accepted only when the exact value is provably NOT representable by the cheap
    sufficient test (integer value, or unreduced numerator and denominator within i32) -- the accuracy of the fall-back
    float itself is not checked;
  * quotient / remainder / modulo: q*b + r = a with the truncating / flooring side conditions, divisors from a palette.
Engine K re-decides fixnum kernels on the compiled code.
"""
import z3
from mirsym.values import *
from mirsym.explore import explore
from mirsym import models_vm, models_num
from mirsym.models_num import Big, BW, wide_mul
from . import numsym as N
from vlib import core, kani

EW = 192          # oracle width = the width of the bignum model, so that equal values are built from identical terms
KANI_QUICK = ['c08_abs_fix', 'c08_to_usize_fix', 'c08_mixed_fix_float_add_sub']
KANI_THOROUGH = KANI_QUICK        # c08_add_sub_fix_guard (BigInt fall-back of + / -) needs 21 GB / 565 s when it finishes and ran out of memory under load: not registered
# powers of two only: gcd / divisibility reasoning modulo 2^k is bit-level and decided instantly, whereas an odd factor
# needs modular arithmetic that the bit-blasting back end does not finish (measured: unknown after 15 s for 3)
DENOMS_QUICK = [1, 2, 4, 65536, 1 << 30]
DENOMS_THOROUGH = DENOMS_QUICK + [8, 16, 256, 32768, 1 << 20, 1 << 29]
CONST_OPERANDS_QUICK = ['F:1', 'F:-1', 'F:2', 'F:3', 'F:-4', 'F:6', 'F:-2147483648', 'F:2147483648', 'F:-2147483649', 'F:-4294967295', 'F:4294967297', 'B:2', 'B:-3', 'R:2/1', 'R:1/2', 'R:-3/4', 'R:3/65536']
CONST_OPERANDS = CONST_OPERANDS_QUICK + ['F:2147483647', 'F:10', 'F:-7', 'B:-2147483648', 'R:-2147483648/1', 'R:2147483647/2', 'R:-1/1073741824']      # R:5/3 was tried: solver unknown (odd denominator against symbolic rationals)
DIVISORS_REP = [2, -1, 3, -(1 << 31), 1, 7, -4, (1 << 31) - 1]
DIVISORS = [1, -1, 2, -2, 3, -3, 7, -4, 10, 1 << 31, -(1 << 31), (1 << 31) - 1, (1 << 62) + 1, -(1 << 63)]


def ext(v, w_from):
    """signed BV / int -> BV(EW)"""
    if is_sym(v): return z3.SignExt(EW - v.size(), v) if v.size() < EW else z3.Extract(EW - 1, 0, v)
    return z3.BitVecVal(v, EW)


def exact_value(d):
    """payload description -> (N term of EW bits, D python int > 0)"""
    k = d[0]
    if k == 'fix': return ext(N.bv(d[1], 64), 64), 1
    if k == 'big': return ext(N.bv(d[1], BW), BW), 1
    if k == 'rat':
        den = d[2]
        if is_sym(den): raise Unsupported('oracle needs a concrete denominator')
        return ext(N.bv(d[1], 32), 32), den
    raise KeyError(k)


def exact_op(op, A, B):
    (n1, d1), (n2, d2) = A, B
    c = lambda k: z3.BitVecVal(k, EW)
    if op == 'add': return n1 * c(d2) + n2 * c(d1), d1 * d2
    if op == 'sub': return n1 * c(d2) - n2 * c(d1), d1 * d2
    if op == 'mul': return wide_mul(n1, n2, EW), d1 * d2
    if op == 'div':
        # divisor concrete: (n1/d1) / (k/d2) = n1*d2*sign(k) / (d1*|k|)
        k = z3.simplify(n2).as_signed_long()
        return n1 * c(d2 if k > 0 else -d2), d1 * abs(k)
    raise KeyError(op)


def concrete_number(rep):
    """replay representation (F:.. B:.. R:n/d) -> (Number Agg, payload description) with concrete payloads"""
    k, v = rep[:2], rep[2:]
    if k == 'F:': return Agg('Number', 0, [int(v)]), ('fix', int(v))
    if k == 'B:': return Agg('Number', 2, [Ref(Cell(Big(int(v))))]), ('big', int(v))
    n, d = v.split('/')
    return Agg('Number', 3, [models_num.ratio(int(n), int(d))]), ('rat', int(n), int(d))


def result_value(it, r):
    """Number produced by the code -> ('exact', N, D) | ('float', term)"""
    d = N.describe(it, r)
    if d[0] == 'flo': return ('float', d[1])
    if d[0] == 'rat':
        den = d[2]
        if is_sym(den): den = it.concretize(den)
        return ('exact', ext(N.bv(d[1], 32), 32), den, d)
    n, dd = exact_value(d)
    return ('exact', n, dd, d)


def make_binop_harness(prog, op, ra, rb, denoms, window=None, bvals=None):
    """bvals: the second operand is one of these concrete numbers (replay representations) instead of a symbolic `rb`"""
    if ra == 'Rational' and rb == 'Rational': denoms = denoms[:3] + denoms[-1:]        # pairs of denominators: keep the product small
    name = {'add': '<&Number as Add>::add', 'sub': '<&Number as Sub>::sub', 'mul': '<&Number as Mul>::mul', 'div': '<&Number as Div>::div'}[op]
    FN = prog.resolve_crate(name)

    def harness(it):
        a, da = N.sym_number(it, ra, 'a', denoms)
        if bvals is not None: b, db = concrete_number(bvals[it.choose(len(bvals))])
        else: b, db = N.sym_number(it, rb, 'b', denoms)
        it.ghost['desc'] = (op, da, db)
        if window is not None:
            # symbolic x symbolic multiplication: second operand restricted to the stated window
            vb = db[1]
            w = vb.size()
            c = lambda k: z3.BitVecVal(k, w)
            it.assume(z3.Or(z3.And(vb > c(-(1 << 15)), vb < c(1 << 15)), *[z3.And(vb >= c(k - 4), vb <= c(k + 4)) for k in window]))
        r = it.call(FN, [Ref(Cell(a)), Ref(Cell(b))])
        E = exact_op(op, exact_value(da), exact_value(db))
        rv = result_value(it, r)
        if rv[0] == 'exact':
            _, rn, rd, dd = rv
            import math
            g = math.gcd(E[1], rd)        # cancel the common factor of the two (concrete) denominators first
            k1, k2 = E[1] // g, rd // g
            lhs = rn if k1 == 1 else rn * z3.BitVecVal(k1, EW)
            rhs = E[0] if k2 == 1 else E[0] * z3.BitVecVal(k2, EW)
            if not it.must(lhs == rhs):
                return viol(it, da, db, 'exact result differs from the true value', '%s-%s-%s-wrong-exact' % (op, ra, rb if bvals is None else 'const'), lhs != rhs, dd)
            # canonical representation: a value that fits a fixnum is not left as a bignum? (not required by the property)
            it.ghost['tags'] = ['exact:' + dd[0]]
        else:
            # inexact fall-back: acceptable only if the exact value is not (cheaply provably) representable
            En, Ed = E
            small = z3.And(En >= -(1 << 31), En <= (1 << 31) - 1)
            # cheap SUFFICIENT test for representability (no divider circuits): the common denominator is 1, or the
            # unreduced numerator and denominator already fit an i32 pair
            if Ed == 1: repres = z3.BoolVal(True)
            elif Ed <= (1 << 31) - 1: repres = small
            else: repres = z3.BoolVal(False)
            if not it.must(z3.Not(repres)):
                # recorded classes (known_findings.json): (1) the library's checked operation overflowed on an intermediate
                # product; (2) an integer that is outside the i32 range, or carried as a bignum, meets a rational: marwood
                # only converts i32-range fixnums to rationals.  A witness OUTSIDE these classes is preferred and is a violation.
                key = '%s-%s-%s-inexact-where-exact' % (op, ra, rb if bvals is None else 'const')
                extra = repres
                if it.ghost.get('ratio_intermediate_overflow'):
                    key = 'rational-intermediate-overflow'
                else:
                    kinds = (da[0], db[0])
                    idescs = [d for d in (da, db) if d[0] in ('fix', 'big')]
                    if idescs and ('rat' in kinds or op == 'div'):
                        # rationals are i32 pairs: an integer operand takes part in rational arithmetic only as an i32 fixnum
                        if any(d[0] == 'big' for d in idescs): key = 'integer-outside-i32-meets-rational'
                        else:
                            inside = z3.And(*[z3.And(N.bv(d[1], 64) >= -(1 << 31), N.bv(d[1], 64) <= (1 << 31) - 1) for d in idescs])
                            if it.witness(z3.And(repres, inside)) is not None: extra = z3.And(repres, inside)
                            else: key = 'integer-outside-i32-meets-rational'
                return viol(it, da, db, 'inexact result although the exact value is representable', key, extra, ('flo', rv[1]))
            it.ghost['tags'] = ['inexact']
        m = it.witness()
        it.ghost['sample'] = {'op': op, 'a': N.conc(m, da), 'b': N.conc(m, db), 'result': it.ghost['tags'][0]} if m is not None else None
        return None

    def viol(it, da, db, what, key, extra, dres):
        m = it.witness(extra) or it.witness()
        return {'what': '%s %s x %s: %s' % (op, ra, rb, what), 'key': key, 'request': {'cmd': 'numop', 'op': op, 'a': N.conc(m, da), 'b': N.conc(m, db)}}
    return harness


def make_div_harness(prog, op, ra, divisor, rep='auto'):
    """quotient / rem / modulo with a concrete divisor.  rep: 'auto' = carried as a fixnum, or a bignum if it does not fit;
    'B' = carried as a bignum although it fits a fixnum (arithmetic that left the fixnum range and came back);
    'R' = carried as an integer-valued rational n/1 (what `/` and truncate return)"""
    if op == 'quotient': FN = prog.resolve_crate('Number::quotient')
    elif op == 'rem': FN = prog.resolve_crate('<&Number as Rem>::rem')
    else: FN = prog.resolve_crate('Number::modulo')

    def harness(it):
        a, da = N.sym_number(it, ra, 'a', [1])
        if ra == 'Rational': pass           # integer-valued rational (denominator 1)
        if rep == 'R': rb = 'R:%d/1' % divisor; b = concrete_number(rb)[0]
        elif rep == 'auto' and -(1 << 63) <= divisor < (1 << 63): b = Agg('Number', 0, [divisor]); rb = 'F:%d' % divisor
        else: b = Agg('Number', 2, [Ref(Cell(Big(divisor)))]); rb = 'B:%d' % divisor
        it.ghost['desc'] = (op, da, ('fix', divisor))
        r = it.call(FN, [Ref(Cell(a)), Ref(Cell(b))])
        if r.var == 0:
            return viol(it, da, rb, '%s of exact integers is reported undefined' % op, '%s-%s-undefined' % (op, ra), None)
        rv = result_value(it, r.f[0])
        if rv[0] != 'exact' or rv[2] != 1:
            return viol(it, da, rb, '%s of exact integers is not an exact integer' % op, '%s-%s-not-integer' % (op, ra), None)
        # reference: truncating division of the dividend by the concrete divisor through the division lemma (the same lemma,
        # hence the same q / r terms, that the interpreter uses for the machine operation); quotient, remainder and
        # flooring modulo are then simple expressions over q, r and the divisor
        dres = rv[3]
        def narrow_term(d):
            if d[0] == 'fix': return N.bv(d[1], 64), 64
            if d[0] == 'big': return N.bv(d[1], BW), BW
            return z3.SignExt(32, N.bv(d[1], 32)), 64          # integer-valued rational: numerator
        Aw, wa = narrow_term(da)
        xw, wx = narrow_term(dres)
        W = max(wa, wx)
        A = z3.SignExt(W - wa, Aw) if wa < W else Aw
        x = z3.SignExt(W - wx, xw) if wx < W else xw
        if abs(divisor) & (abs(divisor) - 1) == 0:
            Bc = z3.BitVecVal(divisor, W)
            q, r = (z3.If(A == z3.BitVecVal(-(1 << (W - 1)), W), A, A) / Bc, z3.SRem(A, Bc)) if divisor != -1 else (-A, z3.BitVecVal(0, W))
        else:
            q, r = it.div_lemma(A, divisor, W, True)
        if op == 'quotient': want = q
        elif op == 'rem': want = r
        else: want = z3.If(z3.And(r != 0, (r < 0) != (divisor < 0)), r + z3.BitVecVal(divisor, W), r)
        ok = x == want
        if not it.must(ok):
            return viol(it, da, rb, '%s result violates its defining equation' % op, '%s-%s-wrong' % (op, ra), z3.Not(ok))
        m = it.witness()
        it.ghost['sample'] = {'op': op, 'a': N.conc(m, da), 'b': rb} if m is not None else None
        return None

    def viol(it, da, rb, what, key, extra):
        m = (it.witness(extra) if extra is not None else None) or it.witness()
        return {'what': '%s %s by %s: %s' % (op, ra, rb, what), 'key': key, 'request': {'cmd': 'numop', 'op': op, 'a': N.conc(m, da), 'b': rb}}
    return harness


def make_unary_harness(prog, op, ra, denoms):
    FN = prog.resolve_crate('Number::' + op)

    def harness(it):
        a, da = N.sym_number(it, ra, 'a', denoms)
        it.ghost['desc'] = (op, da, None)
        r = it.call(FN, [Ref(Cell(a))])
        rv = result_value(it, r)
        if rv[0] != 'exact':
            return viol(it, da, '%s of an exact number is inexact' % op, '%s-%s-inexact' % (op, ra), None)
        _, x, xd, dd = rv
        n, d = exact_value(da)
        dc = z3.BitVecVal(d, EW)
        if op == 'abs':
            ok = z3.And(xd == d, x == z3.If(n < 0, -n, n))
        elif op == 'numerator': ok = z3.And(xd == 1, x == n)
        elif op == 'denominator': ok = z3.And(xd == 1, x == dc)
        else:
            # floor / ceil / truncate: integer result y with the defining inequalities on n/d
            if xd != 1: return viol(it, da, '%s is not an integer' % op, '%s-%s-not-integer' % (op, ra), None)
            y = x * dc
            if op == 'floor': ok = z3.And(y <= n, n < y + dc)
            elif op == 'ceil': ok = z3.And(y >= n, y - dc < n)
            else: ok = z3.And(z3.If(n >= 0, z3.And(y <= n, n < y + dc), z3.And(y >= n, y - dc < n)))
        if not it.must(ok):
            return viol(it, da, '%s result is wrong' % op, '%s-%s-wrong' % (op, ra), z3.Not(ok))
        m = it.witness()
        it.ghost['sample'] = {'op': op, 'a': N.conc(m, da)} if m is not None else None
        return None

    def viol(it, da, what, key, extra):
        m = (it.witness(extra) if extra is not None and not isinstance(extra, bool) else None) or it.witness()
        return {'what': '%s %s: %s' % (op, ra, what), 'key': key, 'request': {'cmd': 'numop', 'op': op, 'a': N.conc(m, da), 'b': None}}
    return harness


POW_CENTRES = {'Fixnum': [0, 1290, 46340, 55108, 65536, 2097152, 3037000499, 1 << 31, 1 << 32, (1 << 63) - 5, -(1 << 63) + 4],
               'BigInt': [0, 1 << 31, 1 << 63, -(1 << 64)],
               'Rational': [0, 1290, 46340, 65536, (1 << 31) - 5, -(1 << 31) + 4]}
POW_EXPONENTS = [0, 1, 2, 3, 4, 31, 40]


def make_pow_harness(prog, ra, exps, denoms):
    """(expt a e) for a within 4 of a stated centre (the representation switches lie there) and concrete exponents"""
    FN = prog.resolve_crate('Number::pow')

    def harness(it):
        e = exps[it.choose(len(exps))]
        a, da = N.sym_number(it, ra, 'a', denoms)
        cs = POW_CENTRES[ra]
        c = cs[it.choose(len(cs))]
        v = da[1]
        it.assume(z3.And(v >= c - 4, v <= c + 4))
        if e > 2:
            # higher powers: the solver enumerates the window (at most 9 values per centre) and the operation runs on each
            val = it.concretize(v)
            if val >= 1 << (v.size() - 1): val -= 1 << v.size()
            a, da = concrete_number({'Fixnum': 'F:%d', 'BigInt': 'B:%d'}[ra] % val if ra != 'Rational' else 'R:%d/%d' % (val, da[2]))
        it.ghost['desc'] = ('pow', da, ('fix', e))
        r = it.call(FN, [Ref(Cell(a)), e])
        n, d = exact_value(da)
        PW = 4 * EW if e <= 2 else 66 * e + 8
        En = z3.BitVecVal(1, PW); x = z3.SignExt(PW - EW, n)
        for _ in range(e): En = z3.simplify(En * x)
        Ed = d ** e
        rv = result_value(it, r)
        ext4 = lambda t: z3.SignExt(PW - EW, t) if PW > EW else z3.Extract(PW - 1, 0, t)
        if rv[0] == 'exact':
            _, rn, rd, dd = rv
            rnw = ext4(rn) if is_sym(dd[1]) else z3.BitVecVal(dd[1], PW)          # a concrete bignum result may exceed the model width
            ok = rnw * z3.BitVecVal(Ed, PW) == En * z3.BitVecVal(rd, PW)
            if not it.must(ok):
                m = it.witness(z3.Not(ok)) or it.witness()
                return {'what': 'expt %s ^ %d: exact result differs from the true value' % (ra, e), 'key': 'pow-%s-wrong-exact' % ra,
                        'request': {'cmd': 'numop', 'op': 'pow', 'a': N.conc(m, da), 'b': str(e)}}
        else:
            # inexact: only if the exact value is not representable: not an integer, and not an i32 pair
            if Ed == 1: repres = z3.BoolVal(True)
            elif Ed <= (1 << 31) - 1: repres = z3.And(En >= -(1 << 31), En <= (1 << 31) - 1)
            else: repres = z3.BoolVal(False)
            if not it.must(z3.Not(repres)):
                m = it.witness(repres) or it.witness()
                return {'what': 'expt %s ^ %d: inexact result although the exact value is representable' % (ra, e), 'key': 'pow-%s-inexact-where-exact' % ra,
                        'request': {'cmd': 'numop', 'op': 'pow', 'a': N.conc(m, da), 'b': str(e)}}
        m = it.witness()
        it.ghost['sample'] = {'op': 'pow', 'a': N.conc(m, da), 'b': e} if m is not None else None
        return None
    return harness


def on_panic(it, e):
    d = it.ghost.get('desc')
    m = it.witness()
    if d is None or m is None: return {'what': 'panic %s' % e, 'key': 'panic', 'request': None}
    b = d[2]
    bb = None if b is None else (('F:%d' % b[1] if -(1 << 63) <= b[1] < (1 << 63) else 'B:%d' % b[1]) if b[0] == 'fix' and not is_sym(b[1]) else N.conc(m, b))
    if d[0] == 'pow': bb = str(b[1])
    return {'what': '%s panics: %s' % (d[0], e), 'key': 'panic:%s:%s' % (d[0], e.kind), 'request': {'cmd': 'numop', 'op': d[0], 'a': N.conc(m, d[1]), 'b': bb}}


# --------------------------------------------------------------------------------------------- native verdicts
def native_verdict(replay, req):
    from fractions import Fraction
    import math
    op, a, b = req['op'], req['a'], req['b']
    out = replay.ask('num %s %s%s' % (op, a, '' if b is None else ' ' + b))
    call = '(%s %s%s)' % (op, a, '' if b is None else ' ' + b)
    if out.startswith(('PANIC', 'ABORT')): return True, '%s: %s' % (call, out)
    if op == 'pow':
        x = N.value_of(a); e = x ** int(b)
        if out.startswith('D:'):
            rep = e.denominator == 1 or (abs(e.numerator) <= (1 << 31) - 1 and e.denominator <= (1 << 31) - 1)
            return rep, '%s => inexact %s although the exact value is representable' % (call, out) if rep else '%s => inexact' % call
        return N.value_of(out) != e, '%s => %s, exact value %s' % (call, out, e)
    x = N.value_of(a); y = N.value_of(b) if b is not None else None
    if out == 'NONE': return op in ('quotient', 'rem', 'modulo'), '%s is reported undefined' % call
    if out.startswith('D:'):
        if op in ('add', 'sub', 'mul', 'div'):
            e = {'add': lambda: x + y, 'sub': lambda: x - y, 'mul': lambda: x * y, 'div': lambda: x / y}[op]()
            rep = e.denominator == 1 or (abs(e.numerator) <= (1 << 31) - 1 and e.denominator <= (1 << 31) - 1)
            return rep, '%s => inexact %s although the exact value %s is representable' % (call, out, e) if rep else '%s => inexact (exact value not representable)' % call
        return True, '%s => inexact %s' % (call, out)
    r = N.value_of(out)
    if op in ('add', 'sub', 'mul', 'div'):
        e = {'add': lambda: x + y, 'sub': lambda: x - y, 'mul': lambda: x * y, 'div': lambda: x / y}[op]()
    elif op == 'quotient': e = Fraction(int(abs(x) // abs(y)) * (1 if (x < 0) == (y < 0) else -1))
    elif op == 'rem': e = x - y * (int(abs(x) // abs(y)) * (1 if (x < 0) == (y < 0) else -1))
    elif op == 'modulo': e = x - y * math.floor(x / y)
    elif op == 'abs': e = abs(x)
    elif op == 'floor': e = Fraction(math.floor(x))
    elif op == 'ceil': e = Fraction(math.ceil(x))
    elif op == 'truncate': e = Fraction(math.trunc(x))
    elif op == 'numerator': e = Fraction(x.numerator)
    elif op == 'denominator': e = Fraction(x.denominator)
    else: return None, 'no reference for ' + op
    return r != e, '%s => %s, exact value %s' % (call, out, e)


FUNCTIONS = ['number::<impl Add for &Number>::add', 'number::<impl Sub for &Number>::sub', 'number::<impl Mul for &Number>::mul', 'number::Number::quotient',
             'number::<impl Div for &Number>::div', 'number::Number::ratio_of', 'number::Number::pow',
             'number::<impl Rem for &Number>::rem', 'number::Number::modulo', 'number::Number::{abs,floor,ceil,truncate,numerator,denominator}',
             'number::<impl From<..> for Number>::from']


def run(chk, ws, prog, tier, replays):
    dev, rel = replays
    models_vm.install(prog); models_num.install(prog)
    prog.rlimit = 400000000
    import threading
    kres = {}
    kt = threading.Thread(target=lambda: kres.update(kani.run(ws, KANI_QUICK if tier == 'quick' else KANI_THOROUGH, timeout=900 if tier == 'quick' else 2400, mem_gb=24, jobs=2)))
    kt.start()
    denoms = DENOMS_QUICK if tier == 'quick' else DENOMS_THOROUGH
    exact = ['Fixnum', 'BigInt', 'Rational']
    jobs = []
    for op in ('add', 'sub'):
        for ra in exact:
            for rb in exact:
                jobs.append(('%s/%s,%s' % (op, ra, rb), make_binop_harness(prog, op, ra, rb, denoms)))
    win = [1 << 31, -(1 << 31), (1 << 63) - 4, -(1 << 63) + 4]
    for ra in ('Fixnum', 'BigInt'):
        for rb in ('Fixnum', 'BigInt'):
            jobs.append(('mul/%s,%s/windowed' % (ra, rb), make_binop_harness(prog, 'mul', ra, rb, denoms, window=win)))
    # multiplication with a rational operand, and division: second operand from a palette of concrete numbers
    for op in ('mul', 'div'):
        for ra in exact:
            for bv in (CONST_OPERANDS if tier != 'quick' else CONST_OPERANDS_QUICK):
                if op == 'mul' and ra != 'Rational' and bv[0] != 'R': continue        # covered symbolically above
                jobs.append(('%s/%s by %s' % (op, ra, bv), make_binop_harness(prog, op, ra, None, denoms, bvals=[bv])))
    for ra in exact:
        for e in POW_EXPONENTS:
            jobs.append(('pow/%s^%d' % (ra, e), make_pow_harness(prog, ra, [e], denoms)))
    for op in ('quotient', 'rem', 'modulo'):
        for ra in ('Fixnum', 'BigInt', 'Rational'):
            for dv in (DIVISORS if tier != 'quick' else DIVISORS[:8] + DIVISORS[-2:]):
                jobs.append(('%s/%s/by %d' % (op, ra, dv), make_div_harness(prog, op, ra, dv)))
            # the same integers in the other representations of the divisor: a small value carried as a bignum, an integer-valued rational
            for dv in (DIVISORS_REP if tier != 'quick' else DIVISORS_REP[:4]):
                jobs.append(('%s/%s/by bignum %d' % (op, ra, dv), make_div_harness(prog, op, ra, dv, 'B')))
                jobs.append(('%s/%s/by rational %d/1' % (op, ra, dv), make_div_harness(prog, op, ra, dv, 'R')))
    for op in ('abs', 'floor', 'ceil', 'truncate', 'numerator', 'denominator'):
        for ra in exact:
            jobs.append(('%s/%s' % (op, ra), make_unary_harness(prog, op, ra, denoms)))
    seen = {}
    from mirsym.explore import explore_many
    for name, res in explore_many(prog, [(n, h, {'on_panic': on_panic, 'reuse_solver': False}) for n, h in jobs], parallel=12, nproc_each=1):
        print('  harness %-44s %s' % (name, res.summary()), flush=True)
        chk.add_result(name, res, FUNCTIONS, {'denominator palette': denoms, 'bignum bound': '|x| <= 2^66'})
        for v in res.violations:
            if v.get('request') is None:
                chk.inconclusive.append('%s: %s' % (name, v['what'])); continue
            if seen.get(v['key'], 0) >= 2: continue
            seen[v['key']] = seen.get(v['key'], 0) + 1
            b1, d1 = native_verdict(dev, v['request'])
            b2, d2 = native_verdict(rel, v['request'])
            if b1 is None and b2 is None:
                chk.inconclusive.append('%s: %s (%s)' % (name, v['what'], d1)); continue
            chk.violation(v['key'], (d1 if b1 else d2) + ' | ' + v['what'], v['request'], bool(b1) or bool(b2))
    kt.join()
    kev = []
    for name, r in sorted(kres.items()):
        kev.append({k: r.get(k) for k in ('harness', 'status', 'solver_time_s', 'wall_s', 'checks', 'cover')})
        chk.queries += r.get('checks') or 0
        chk.solver_time += r.get('solver_time_s') or 0
        if r['status'] == 'ok':
            chk.nontrivial += 1; chk.paths += 1
        elif r['status'] == 'fail':
            chk.inconclusive.append('kani %s found a counterexample that engine M did not report (failures: %s; playback: %s)' % (name, r.get('failures'), r.get('playback')))
        else:
            chk.inconclusive.append('kani %s: %s (%s)' % (name, r['status'], r.get('tail', '')[-200:]))
    chk.extra['kani_harnesses'] = kev
    chk.functions.update(['KANI: ' + n for n in kres])
    chk.assumptions += ['num-bigint and num-rational are modelled (BigInt as 192-bit vectors with |x| <= 2^66; Ratio<i32> by its published algorithms): dependencies, not marwood code',
                        'the accuracy of inexact fall-back results (error bound of the property) is NOT checked, only that they occur when the exact value is not cheaply provably representable',
                        'multiplication with a rational operand and division (/) take their second operand from a stated palette of concrete numbers; expt takes its base within 4 of stated centres and exponents from a palette, and for exponents above 2 the solver enumerates the window and the operation runs on each concrete base',
                        'libm functions (powf) return an arbitrary double', 'variadic folds are outside this check (binary operators only)']
    chk.outside += ['denominators off the palette', 'symbolic x symbolic multiplication outside the stated window', 'bignums beyond 2^66', 'second operands of / and of rational multiplication off the palette', 'expt bases outside the windows and exponents off the palette', 'float operands', 'inexact fall-backs whose exact value is representable only after reduction (the representability test is the cheap sufficient one)']


def replay_request(req, replays):
    b1, d1 = native_verdict(replays[0], req)
    b2, d2 = native_verdict(replays[1], req)
    return bool(b1) or bool(b2), d1 if b1 else d2
