"""Symbolic numbers of every internal representation, exact oracles in the bit-vector + floating-point theories,
and native replay helpers (shared by C08, C09, C16)."""
from fractions import Fraction
import struct
import z3
from mirsym.values import *
from mirsym.models_num import Big, BW, ratio

REPRS = ['Fixnum', 'Float', 'BigInt', 'Rational']
F64 = z3.Float64()
BIG_BOUND = 1 << 66


def sym_number(it, rep, name, denoms=None, float_finite=False, coprime=True):
    """-> (Number Agg, payload description).  Fixnum: any i64.  Float: any non-NaN double.  BigInt: any integer with
    |x| <= 2^66 (inside AND outside the fixnum range: a bignum may carry a small value).  Rational: numerator any i32,
    denominator symbolic > 0 (a superset of the reduced pairs) or drawn from `denoms` with the coprimality constraint."""
    if rep == 'Fixnum':
        v = z3.BitVec(name, 64)
        return Agg('Number', 0, [v]), ('fix', v)
    if rep == 'Float':
        v = z3.FP(name, F64)
        it.assume(z3.Not(z3.fpIsNaN(v)))
        if float_finite: it.assume(z3.Not(z3.fpIsInf(v)))
        return Agg('Number', 1, [v]), ('flo', v)
    if rep == 'BigInt':
        v = z3.BitVec(name, BW)
        it.assume(z3.And(v >= -BIG_BOUND, v <= BIG_BOUND))
        return Agg('Number', 2, [Ref(Cell(Big(v)))]), ('big', v)
    if rep == 'Rational':
        n = z3.BitVec(name + '_n', 32)
        if denoms is None:
            d = z3.BitVec(name + '_d', 32)
            it.assume(d > 0)
        else:
            d = denoms[it.choose(len(denoms))]
            # reduced: gcd(n, d) = 1  <=> no prime factor of d divides n
            if coprime:
                for p in prime_factors(d):
                    if p == 2: it.assume(z3.Extract(0, 0, n) == 1)        # odd numerator: bit-level
                    else: it.assume(z3.SRem(n, z3.BitVecVal(p, 32)) != 0)
        return Agg('Number', 3, [ratio(n, d)]), ('rat', n, d)
    raise KeyError(rep)


def prime_factors(d):
    out = []; p = 2; d = abs(d)
    while p * p <= d:
        if d % p == 0:
            out.append(p)
            while d % p == 0: d //= p
        p += 1
    if d > 1: out.append(d)
    return out


def describe(it, num):
    """payload description of a Number value produced by the code"""
    var = num.var
    if var == 0: return ('fix', num.f[0])
    if var == 1: return ('flo', num.f[0])
    if var == 2:
        b = num.f[0]
        while isinstance(b, Ref): b = b.get()
        return ('big', b.v)
    r = num.f[0]
    return ('rat', r.f[0], r.f[1])


# --------------------------------------------------------------------------------- exact comparison oracle (BV + FP)
def bv(x, w):
    if is_sym(x): return x
    return z3.BitVecVal(x, w)


def fp(x):
    return x if is_sym(x) else z3.FPVal(x, F64)


OW = 128        # width of the oracle's integer arithmetic: |bignum| <= 2^66, times a 32-bit denominator < 2^98


def int_term(d):
    """('fix', v) / ('big', v) -> signed BV of OW bits (bignums are bounded by 2^66, so truncation is exact)"""
    if d[0] == 'fix':
        v = bv(d[1], 64)
        return z3.SignExt(OW - 64, v)
    v = d[1]
    if is_sym(v): return z3.Extract(OW - 1, 0, v)
    return z3.BitVecVal(v, OW)


def cmp_int_float(a, b, sort=F64):
    """a: signed BV(BW) with |a| <= 2^67, b: non-NaN FP of `sort` -> (lt, eq) Bool terms, exact.
    Case split on |b| >= 2^68, else the truncation fp.to_sbv(RTZ, b) is exact and the sign of b - trunc(b) breaks ties."""
    lim = z3.FPVal(2.0 ** 100, sort)
    nlim = z3.FPVal(-(2.0 ** 100), sort)
    t = z3.fpToSBV(z3.RTZ(), b, z3.BitVecSort(OW))
    ti = z3.fpRoundToIntegral(z3.RTZ(), b)
    frac_pos = z3.fpGT(b, ti)
    frac_neg = z3.fpLT(b, ti)
    lt = z3.If(z3.fpGEQ(b, lim), True, z3.If(z3.fpLEQ(b, nlim), False, z3.Or(a < t, z3.And(a == t, frac_pos))))
    eq = z3.And(z3.fpLT(b, lim), z3.fpGT(b, nlim), a == t, z3.Not(frac_pos), z3.Not(frac_neg))
    return lt, eq


WIDE = z3.FPSort(15, 113)


def exact_cmp(da, db, small_ints=False, exact_quotient=False):
    """(lt, eq): Bool terms deciding value(da) < value(db) and value(da) = value(db) exactly.
    small_ints: the caller has constrained every integer operand to |x| <= 2^53, where the conversion to a double is
    exact; integer-vs-float comparisons are then decided on the converted value (much cheaper for the solver)."""
    ka, kb = da[0], db[0]
    ints = ('fix', 'big')
    if small_ints and ((ka in ints and kb == 'flo') or (ka == 'flo' and kb in ints)):
        # same conversion circuit as the BigInt::to_f64 model (72-bit window), so that the solver sees identical terms
        conv = lambda d: z3.fpSignedToFP(z3.RNE(), z3.Extract(71, 0, d[1]) if d[0] == 'big' and is_sym(d[1]) else z3.Extract(71, 0, z3.SignExt(64, int_term(d))), F64)
        x = conv(da) if ka in ints else fp(da[1])
        y = conv(db) if kb in ints else fp(db[1])
        return z3.fpLT(x, y), z3.fpEQ(x, y)
    if exact_quotient and ((ka == 'rat' and kb == 'flo') or (ka == 'flo' and kb == 'rat')):
        # the caller has constrained the denominator to a power of two: n/d is exactly representable, and one IEEE
        # division of the exactly converted parts yields it (same term as the Ratio::to_f64 model)
        q = lambda d: z3.fpDiv(z3.RNE(), z3.fpSignedToFP(z3.RNE(), bv(d[1], 32), F64), z3.fpSignedToFP(z3.RNE(), bv(d[2], 32), F64))
        x = q(da) if ka == 'rat' else fp(da[1])
        y = q(db) if kb == 'rat' else fp(db[1])
        return z3.fpLT(x, y), z3.fpEQ(x, y)
    if ka in ints and kb in ints:
        x, y = int_term(da), int_term(db)
        return x < y, x == y
    if ka == 'flo' and kb == 'flo':
        x, y = fp(da[1]), fp(db[1])
        return z3.fpLT(x, y), z3.fpEQ(x, y)
    if ka in ints and kb == 'flo':
        return cmp_int_float(int_term(da), fp(db[1]))
    if ka == 'flo' and kb in ints:
        lt, eq = cmp_int_float(int_term(db), fp(da[1]))
        return z3.And(z3.Not(lt), z3.Not(eq)), eq
    if ka == 'rat' and kb == 'rat':
        e = lambda v: z3.SignExt(32, bv(v, 32))
        l, r = e(da[1]) * e(db[2]), e(db[1]) * e(da[2])      # denominators > 0
        return l < r, l == r
    if ka == 'rat' and kb in ints:
        # n/d ? a  <=>  n ? a*d   (d > 0)
        n = z3.SignExt(OW - 32, bv(da[1], 32)); d = z3.SignExt(OW - 32, bv(da[2], 32))
        r = int_term(db) * d
        return n < r, n == r
    if ka in ints and kb == 'rat':
        lt, eq = exact_cmp(db, da)
        return z3.And(z3.Not(lt), z3.Not(eq)), eq
    if ka == 'rat' and kb == 'flo':
        # n/d ? b  <=>  n ? b*d, the product formed exactly in a widened FP sort
        b = z3.fpFPToFP(z3.RNE(), fp(db[1]), WIDE)
        d = z3.fpSignedToFP(z3.RNE(), bv(da[2], 32), WIDE)
        prod = z3.fpMul(z3.RNE(), b, d)                       # 53 + 31 bits < 113: exact
        n = z3.SignExt(OW - 32, bv(da[1], 32))
        return cmp_int_float(n, prod, WIDE)
    if ka == 'flo' and kb == 'rat':
        lt, eq = exact_cmp(db, da)
        return z3.And(z3.Not(lt), z3.Not(eq)), eq
    raise KeyError((ka, kb))


# --------------------------------------------------------------------------------- concretisation / native replay
def conc(m, d):
    """payload description -> replay representation string (F:.. D:.. B:.. R:../..)"""
    def ev(x, signed_w=None):
        if not is_sym(x): return x
        r = m.eval(x, model_completion=True)
        if z3.is_fp(r) or z3.is_fprm(r): return r
        v = r.as_long()
        if signed_w and v >= 1 << (signed_w - 1): v -= 1 << signed_w
        return v
    k = d[0]
    if k == 'fix': return 'F:%d' % ev(d[1], 64)
    if k == 'big': return 'B:%d' % ev(d[1], BW)
    if k == 'rat': return 'R:%d/%d' % (ev(d[1], 32), ev(d[2], 32))
    if k == 'flo':
        x = d[1]
        if is_sym(x):
            r = m.eval(z3.fpToIEEEBV(x), model_completion=True)
            return 'D:%016x' % r.as_long()
        return 'D:%016x' % struct.unpack('>Q', struct.pack('>d', x))[0]
    raise KeyError(k)


def value_of(rep):
    """replay representation string -> exact python value (Fraction) or float('inf') etc."""
    k, v = rep[:2], rep[2:]
    if k == 'F:' or k == 'B:': return Fraction(int(v))
    if k == 'R:':
        n, d = v.split('/'); return Fraction(int(n), int(d))
    if k == 'D:':
        x = struct.unpack('>d', struct.pack('>Q', int(v, 16)))[0]
        if x != x or x in (float('inf'), float('-inf')): return x
        return Fraction(x)
    raise KeyError(rep)


def py_cmp(a, b):
    """exact ordering of two replay representations: 'Less' / 'Equal' / 'Greater'"""
    x, y = value_of(a), value_of(b)
    if isinstance(x, float) or isinstance(y, float):
        fx = x if isinstance(x, float) else (float('-inf') if False else None)
        # infinities: compare by sign
        if isinstance(x, float) and isinstance(y, float): return 'Less' if x < y else ('Equal' if x == y else 'Greater')
        if isinstance(x, float): return 'Less' if x < 0 else 'Greater'
        return 'Greater' if y < 0 else 'Less'
    return 'Less' if x < y else ('Equal' if x == y else 'Greater')
