"""C18 -- symbols are interned: same name iff eq?, across collections and conversions.

Encoded (real code): Heap::put / maybe_put (symbol arms), Heap::free + sweep via Vm::run_gc (symbol table upkeep, shared
step harness gcstep.py), builtin string_symbol (encoder) and symbol_string -> parse::parse_string (decoder),
lex::is_initial_identifier / is_subsequent_identifier, lex::scan for "symbols the reader can produce".
Invariant I: table[name] = p  <=>  heap[p] = Symbol(name) and p is not free  (so equal names <=> same index <=> eq?).
"""
import z3
from mirsym.values import *
from mirsym.explore import explore
from mirsym.models_core import values_equal, clone_val, deref
from mirsym import models_vm
from . import gcstep, textgen
from .vmfab import Fab, USIZE_MAX
from vlib.core import hexs, unhexs

NAMES = ['a', 'b', 'c', '']       # palette of concrete names for the interning step ('c' and '' are not yet interned)


def sym_string(it, n, prefix='s'):
    """a string of n symbolic characters over ALL Unicode scalar values: per char the UTF-8 width class is a
    stated, enumerated shape choice; the code point inside the class is a solver variable"""
    chars = []
    for i in range(n):
        w = 1 + it.choose(4)
        chars.append((it.sym_char('%s%d' % (prefix, i), w), w))
    return StrObj(chars), [c for c, _ in chars]


def conc(model, chars):
    return ''.join(chr(model.eval(c, model_completion=True).as_long()) if is_sym(c) else chr(c) for c in chars)


def make_roundtrip_harness(prog, n):
    """(symbol->string (string->symbol s)) == s for every string s of n characters"""
    fab = Fab(prog)
    ENC = prog.resolve_crate('string_symbol')
    DEC = prog.resolve_crate('symbol_string')

    def harness(it):
        f = fab
        so, chars = sym_string(it, n)
        it.ghost['chars'] = chars
        heap = f.heap([f.string(so)], 8)
        vm = f.vm(heap, f.stack([f.vc('Undefined'), f.ptr(0), f.vc('ArgumentCount', 1), f.vc('Undefined')], 2))
        vmb = Cell(vm)
        r = it.call(ENC, [Ref(vmb)])
        if r.var != 0:
            return viol(it, chars, 'string->symbol fails: %r' % (r.f[0],), 'encode-error', 'rt1')
        sym = r.f[0]
        if f.kind(sym) != 'Symbol': return viol(it, chars, 'string->symbol did not return a symbol', 'encode-kind', 'rt1')
        enc_chars = list(sym.f[0].get().chars)
        # decode
        heap2 = f.heap([clone_val(it, sym)], 8)
        vm2 = f.vm(heap2, f.stack([f.vc('Undefined'), f.ptr(0), f.vc('ArgumentCount', 1), f.vc('Undefined')], 2))
        vmb2 = Cell(vm2)
        r2 = it.call(DEC, [Ref(vmb2)])
        if r2.var != 0:
            return viol(it, chars, 'symbol->string of the produced symbol fails', classify_rt(it, chars), 'rt1')
        out = r2.f[0]
        if f.kind(out) != 'String': return viol(it, chars, 'symbol->string did not return a string', 'decode-kind', 'rt1')
        got = out.f[0].get().f[0].chars
        if len(got) != len(chars):
            return viol(it, chars, 'round trip changes the length (%d -> %d)' % (len(chars), len(got)), classify_rt(it, chars), 'rt1')
        for (g, _), c in zip(got, chars):
            if not it.must(it.binop('Eq', g, c, 'char')):
                return viol(it, chars, 'round trip changes a character', classify_rt(it, chars), 'rt1')
        m = it.witness()
        it.ghost['sample'] = {'string': conc(m, chars), 'encoded_len': len(enc_chars)} if m is not None else None
        return None
    return harness


def classify_rt(it, chars, clause=1):
    """role key: the only recorded defect class is 'the name contains a backslash'"""
    m = it.witness()
    t = conc(m, chars) if m is not None else ''
    if '\\' in t: return 'backslash-in-string' if clause == 1 else 'backslash-in-reader-symbol'
    if clause == 2 and t and (t[0] in '+-.' or t[0].isdigit()): return 'reader-symbol-with-non-initial-first-char'
    return 'roundtrip-clause%d' % clause


def make_symbol_harness(prog, n):
    """(string->symbol (symbol->string y)) is y for every symbol y the reader can produce (n characters, ASCII + representatives)"""
    fab = Fab(prog)
    ENC = prog.resolve_crate('string_symbol')
    DEC = prog.resolve_crate('symbol_string')
    SCAN = prog.resolve_crate('lex::scan')
    TT = prog.enums['TokenType']

    def harness(it):
        f = fab
        text, chars = textgen.sym_text(it, n, non_ascii=True, prefix='y')
        it.ghost['chars'] = chars
        r = it.call(SCAN, [text])
        nbytes = sum(w for _, w in text.obj.chars)
        if r.var != 0 or len(r.f[0]) != 1: return None
        t = r.f[0][0]
        if TT[t.f[1].var] != 'Symbol' or t.f[0].f[0] != 0 or t.f[0].f[1] != nbytes: return None
        # y is a symbol the reader produces (Cell::new_symbol(span)): decode then encode
        y = f.symbol(StrObj(list(text.obj.chars)) and ''.join('?' for _ in chars))
        y = f.vc('Symbol', f.rc(StrObj(list(text.obj.chars))))
        vmb = Cell(f.vm(f.heap([y], 8), f.stack([f.vc('Undefined'), f.ptr(0), f.vc('ArgumentCount', 1), f.vc('Undefined')], 2)))
        r1 = it.call(DEC, [Ref(vmb)])
        if r1.var != 0:
            return viol(it, chars, 'symbol->string fails on a symbol the reader produces', classify_rt(it, chars, 2), 'rt2')
        s = r1.f[0]
        vmb2 = Cell(f.vm(f.heap([clone_val(it, s)], 8), f.stack([f.vc('Undefined'), f.ptr(0), f.vc('ArgumentCount', 1), f.vc('Undefined')], 2)))
        r2 = it.call(ENC, [Ref(vmb2)])
        if r2.var != 0: return viol(it, chars, 'string->symbol fails on symbol->string output', classify_rt(it, chars, 2), 'rt2')
        got = r2.f[0].f[0].get().chars
        same = len(got) == len(chars) and all(it.must(it.binop('Eq', g, c, 'char')) for (g, _), c in zip(got, chars))
        if not same:
            return viol(it, chars, '(string->symbol (symbol->string y)) has a different name than y', classify_rt(it, chars, 2), 'rt2')
        m = it.witness()
        it.ghost['sample'] = {'symbol': conc(m, chars)} if m is not None else None
        return None
    return harness


def viol(it, chars, what, key, cmd):
    # prefer a witness OUTSIDE the recorded defect classes (no backslash; first character not + - . digit):
    # a path that also fails on such an input is a different violation and must not be suppressed
    syms = [c for c in chars if is_sym(c)]
    m = None
    if syms:
        excl = [c != ord('\\') for c in syms]
        c0 = chars[0]
        if is_sym(c0) and cmd == 'rt2':
            excl += [c0 != ord(x) for x in '+-.'] + [z3.Or(z3.ULT(c0, 48), z3.UGT(c0, 57))]
        m = it.witness(z3.And(excl))
    if m is not None:
        t = conc(m, chars)
        if cmd == 'rt2' and t and (t[0] in '+-.' or t[0].isdigit()) or '\\' in t: m = None
    if m is not None:
        key = 'roundtrip-clause%d' % (1 if cmd == 'rt1' else 2)
    else:
        m = it.witness()
    return {'what': what, 'key': key, 'request': {'cmd': cmd, 'text': conc(m, chars)}}


def on_panic(it, e):
    m = it.witness(); chars = it.ghost.get('chars')
    if m is None or chars is None: return {'what': 'panic %s' % e, 'key': 'panic', 'request': {'cmd': 'rt1', 'text': None}}
    return {'what': 'panic: %s' % e, 'key': 'panic:' + e.kind, 'request': {'cmd': 'rt1', 'text': conc(m, chars)}}


def make_put_harness(prog, which):
    """I /\\ put(Symbol(name)) => I, for Heap::put / Heap::maybe_put; name from the palette (present / absent)"""
    fab = Fab(prog)
    PUT = prog.resolve_crate('Heap::' + which)

    def harness(it):
        f = fab
        k = it.choose(len(NAMES))
        name = NAMES[k]
        # pre-state: 'a' at 1, 'b' at 3 interned, plus other cells; a symbolic pair keeps the heap content non-trivial
        p = z3.BitVec('p', 64); it.assume(z3.ULT(p, 5))
        cells = [f.pair(p, p), f.symbol('a'), f.fixnum(7), f.symbol('b'), f.string('a')]
        heap = f.heap(cells, 8)
        pre = [clone_val(it, c) for c in f.field(heap, 'Heap', 'heap')]
        hb = Cell(heap)
        r = it.call(PUT, [Ref(hb), f.symbol(name)])
        heap = hb.v
        it.ghost['name'] = name
        if f.kind(r) != 'Ptr': return {'what': 'put of a symbol does not return a pointer', 'key': 'put-result', 'request': {'cmd': 'put', 'name': name}}
        i = r.f[0]
        if is_sym(i): i = it.concretize(i)
        cells2 = f.field(heap, 'Heap', 'heap')
        table = f.field(heap, 'Heap', 'symbol_table').d
        def bad(what, key): return {'what': what, 'key': key, 'request': {'cmd': 'put', 'name': name, 'which': which}}
        want = {'a': 1, 'b': 3}.get(name)
        if want is not None and i != want: return bad('symbol %r already interned at %d but put returns %d' % (name, want, i), 'intern-duplicate')
        if want is None and i < 5: return bad('new symbol %r placed over the live cell %d' % (name, i), 'intern-overwrite')
        c = cells2[i]
        if f.kind(c) != 'Symbol' or ''.join(chr(x) for x, _ in c.f[0].get().chars) != name:
            return bad('cell %d does not hold Symbol(%r) after put' % (i, name), 'intern-cell')
        if name not in table or table[name].v != i: return bad('symbol table does not map %r to %d' % (name, i), 'intern-table')
        if f.gc_state(heap, i) != 1: return bad('interned cell %d is not Allocated' % i, 'intern-state')
        if i in f.field(heap, 'Heap', 'free_list'): return bad('interned cell %d still on the free list' % i, 'intern-free-list')
        for j in range(len(pre)):
            if j != i and not it.must(values_equal(it, cells2[j], pre[j])): return bad('put changed the unrelated cell %d' % j, 'intern-frame')
        # I: every non-free symbol cell is its table entry, and each table entry points to such a cell
        for j, cj in enumerate(cells2):
            if f.kind(cj) == 'Symbol' and f.gc_state(heap, j) != 0:
                nm = ''.join(chr(x) for x, _ in cj.f[0].get().chars)
                if nm not in table or table[nm].v != j: return bad('symbol cell %d (%r) is not the table entry' % (j, nm), 'intern-invariant')
        for nm, cellv in table.items():
            j = cellv.v
            if f.kind(cells2[j]) != 'Symbol' or ''.join(chr(x) for x, _ in cells2[j].f[0].get().chars) != nm:
                return bad('table entry %r -> %d does not point to that symbol' % (nm, j), 'intern-invariant')
        it.ghost['sample'] = {'put': name, 'returned_index': i}
        return None
    return harness


# ---------------------------------------------------------------------------------------- native verdicts
def scheme_string(text):
    return '(string%s)' % ''.join(' #\\x%x' % ord(c) for c in text)


def native_verdict(replay, req):
    cmd = req['cmd']
    if cmd == 'rt1':
        s = scheme_string(req['text'])
        out = replay.ask('eval ' + hexs('(equal? (symbol->string (string->symbol %s)) %s)' % (s, s)))
        if out.startswith(('PANIC', 'ABORT')): return True, '(symbol->string (string->symbol %r)): %s' % (req['text'], out)
        if out.startswith('ERR'): return True, '(symbol->string (string->symbol %r)) fails: %s' % (req['text'], unhexs(out.split()[2]))
        return unhexs(out.split()[1]) != '#t', '(equal? (symbol->string (string->symbol %r)) ...) => %s' % (req['text'], unhexs(out.split()[1]))
    if cmd == 'rt2':
        y = req['text']
        out = replay.ask('eval ' + hexs("(eq? (string->symbol (symbol->string '%s)) '%s)" % (y, y)))
        if out.startswith(('PANIC', 'ABORT')): return True, "(string->symbol (symbol->string '%s)): %s" % (y, out)
        if out.startswith('ERR'): return True, "(string->symbol (symbol->string '%s)) fails: %s" % (y, unhexs(out.split()[2]))
        return unhexs(out.split()[1]) != '#t', "(eq? (string->symbol (symbol->string '%s)) '%s) => %s" % (y, y, unhexs(out.split()[1]))
    if cmd == 'put':
        # interning through the public API: two productions of the same name must be eq?, different names not
        nm = req['name']
        s = scheme_string(nm)
        out = replay.ask('eval ' + hexs("(list (eq? (string->symbol %s) (string->symbol %s)) (eq? (string->symbol %s) 'zzz))" % (s, s, s)))
        return not out.startswith('OK') or unhexs(out.split()[1]) != '(#t #f)', 'interning of %r through string->symbol: %s' % (nm, out)
    return None, 'unknown request'


FUNCTIONS = ['vm::builtin::symbol::string_symbol', 'vm::builtin::symbol::symbol_string', 'parse::parse_string', 'lex::is_initial_identifier',
             'lex::is_subsequent_identifier', 'vm::heap::Heap::put', 'vm::heap::Heap::maybe_put', 'vm::heap::Heap::alloc', 'vm::builtin::pop_argc',
             'vm::builtin::pop_string', 'vm::builtin::pop_symbol', 'vm::vcell::VCell::symbol', 'vm::vcell::VCell::string', 'lex::scan'] + gcstep.FUNCTIONS


def run(chk, ws, prog, tier, replays):
    dev, rel = replays
    models_vm.install(prog)
    textgen.load_chartable(prog, dev)
    for n_ in ('is_initial_identifier', 'is_subsequent_identifier', 'is_subsequent_number', 'is_initial_number', 'is_special_subsequent'):
        prog.pure.add(prog.resolve_crate(n_))
    jobs = []
    for which in ('put', 'maybe_put'):
        jobs.append(('intern-step/%s' % which, make_put_harness(prog, which), {'names': NAMES, 'heap': '5 allocated cells incl. symbols a, b; capacity 8'}))
    nmax = 3 if tier == 'quick' else 4
    for n in range(0, nmax + 1):
        jobs.append(('name-roundtrip/string->symbol->string/n=%d' % n, make_roundtrip_harness(prog, n),
                     {'chars': n, 'alphabet': 'all Unicode scalar values (width class forked, code point symbolic)'}))
    for n in range(1, (3 if tier == 'quick' else 4) + 1):
        jobs.append(('name-roundtrip/symbol->string->symbol/n=%d' % n, make_symbol_harness(prog, n),
                     {'chars': n, 'alphabet': 'symbolic ASCII + 8 non-ASCII representatives, restricted to texts the lexer reads as ONE symbol token'}))
    for name, h, bounds in jobs:
        res = explore(prog, h, opts={'on_panic': on_panic}, quiet=True)
        print('  harness %-60s %s' % (name, res.summary()), flush=True)
        chk.add_result(name, res, FUNCTIONS, bounds)
        seen = {}
        for v in res.violations:
            if v['request'].get('text') is None and v['request']['cmd'] != 'put':
                chk.inconclusive.append('%s: %s' % (name, v['what'])); continue
            if seen.get(v['key'], 0) >= 4: continue
            seen[v['key']] = seen.get(v['key'], 0) + 1
            b1, d1 = native_verdict(dev, v['request'])
            b2, d2 = native_verdict(rel, v['request'])
            chk.violation(v['key'], (d1 if b1 else d2) + ' | ' + v['what'], v['request'], bool(b1) or bool(b2))
    # symbol-table upkeep across a collection: the shared GC step harness, symbol-related verdicts only
    sub = [t for t in gcstep.plans('quick') if t[0] in ('Pair', 'Vector-all', 'Lambda-args', 'Lambda-envmap') and t[1] in ('acc-ptr', 'global-binding', 'global-slot')]
    saved = gcstep.plans
    gcstep.plans = lambda tier_: sub
    try:
        gcstep.run_all(chk, prog, tier, replays, gcstep.C18_KEYS)
    finally:
        gcstep.plans = saved
    chk.assumptions += ['routes through macro output and eval reach the same Heap::put / put_cell code; the routes themselves are whole-VM and outside the claim',
                        'char::is_alphabetic outside ASCII is an uninterpreted predicate in the round-trip harnesses (both outcomes explored)']
    chk.outside += ['names longer than the bound', 'collection schedules (replaced by the step claim)']


def replay_request(req, replays):
    if req['cmd'] == 'gcstep':
        from . import c03
        return c03.replay_request(req, replays)
    b1, d1 = native_verdict(replays[0], req)
    b2, d2 = native_verdict(replays[1], req)
    return bool(b1) or bool(b2), d1 if b1 else d2
