"""C16 -- number->string and string->number are mutually inverse (exact numbers; see the bounds below).

Engine M executes the real builtins `number->string` and `string->number` (vm/builtin/number.rs) on a fabricated VM,
hence the real `impl Display / LowerHex / Octal / Binary for Number`, `Number::parse_with_exactness`, `Number::parse`
and `Number::parse_rational` from the MIR of the current tree, on a SYMBOLIC exact number per representation
(Fixnum: any i64; BigInt: any integer up to 2^66 in magnitude; Rational: any i32 numerator over a denominator
palette) at each radix 2, 8, 10, 16.  The text is a list of solver terms of symbolic length (one path per digit
count).  The std / num-bigint / num-rational printers and parsers are dependencies and are modelled by the defining
property of positional notation (mirsym/models_fmtnum.py).  Claim per path: the value read back is a number, is exact,
and equals z.  The same text behind the matching #b/#o/#d/#x prefix is pushed through lex::scan and parse::parse
(literal clause).
Finite inexact numbers at radix 10: marwood's own dispatch (which of `{:e}`, `{:.1}`, `{}` prints a double, the order in which
the parsers are tried, the lexer's token classes) is executed; the library's printing of a double is an axiom (see
models_fmtnum.write_f64): the text is a skeleton registered as a spelling of z, except for integer-valued doubles
below 2^63, which go through the integer printer.
"""
import z3
from mirsym.values import *
from mirsym.explore import explore_many
from mirsym import models_vm, models_num, models_fmtnum
from mirsym.models_core import deref
from . import numsym as N
from . import builtins as B
from .vmfab import Fab
from vlib import core

RADICES = [2, 8, 10, 16]
DENOMS_QUICK = [2, 3, 4, 10, 65536, 1 << 30, (1 << 31) - 1]
DENOMS_THOROUGH = DENOMS_QUICK + [5, 7, 8, 16, 1 << 20, 1 << 29]      # 100 and 3^19 were tried: 20 min per radix (division lemmas per divisor), no new behaviour
PREFIX = {2: '#b', 8: '#o', 10: '#d', 16: '#x'}


def number_cell(fab, num):
    return fab.vc('Number', num)


def make_harness(prog, table, rep, radix, denoms, literal=False):
    fab = Fab(prog)
    SCAN = prog.resolve_crate('lex::scan') if literal else None
    PARSE = prog.resolve_crate('parse_text') if literal else None

    def harness(it):
        z, dz = N.sym_number(it, rep, 'z', denoms if rep == 'Rational' else None, float_finite=True)
        it.ghost['desc'] = (dz, radix)
        # (number->string z radix)
        A = B.Args(fab, it)
        A.value(number_cell(fab, z), ('num', dz))
        A.fixnum(radix)
        vmb = Cell(A.build())
        r = it.call(table['number->string'], [Ref(vmb)])
        if r.var != 0: return viol(it, 'number->string returns an error', 'number-string-error')
        s = B.decode(fab, it, vmb.v, r.f[0])
        if s[0] != 'str': return viol(it, 'number->string does not return a string', 'number-string-kind')
        chars = [(c, 1) for c in s[1]]
        it.ghost['text'] = chars
        # (string->number text radix)
        A2 = B.Args(fab, it)
        A2.string(chars)
        A2.fixnum(radix)
        vmb2 = Cell(A2.build())
        r2 = it.call(table['string->number'], [Ref(vmb2)])
        if r2.var != 0: return viol(it, 'string->number returns an error', 'string-number-error')
        v = r2.f[0]
        bad = judge(it, fab, vmb2.v, v, dz, 'string->number of the printed form')
        if bad: return bad
        if literal:
            text = StrObj([(ord(c), 1) for c in PREFIX[radix]] + chars)
            pr = it.call(PARSE, [StrRef(text)])
            if pr.var != 0: return viol(it, 'the printed form behind %s does not parse' % PREFIX[radix], 'literal-error')
            cell = pr.f[0].f[0] if isinstance(pr.f[0], Agg) and pr.f[0].ty == 'tuple' else pr.f[0]
            k = prog.enums['cell::Cell'][cell.var] if 'cell::Cell' in prog.enums else None
            if k != 'Number': return viol(it, 'the printed form behind %s reads as a %s' % (PREFIX[radix], k), 'literal-kind')
            bad = judge_number(it, cell.f[0], dz, 'the literal %s<printed form>' % PREFIX[radix], 'literal')
            if bad: return bad
        m = it.witness()
        it.ghost['sample'] = {'z': N.conc(m, dz), 'radix': radix} if m is not None else None
        return None

    def judge(it, fab, vm, v, dz, what):
        k = fab.kind(v)
        if k == 'Bool': return viol(it, '%s is #f (not a number)' % what, 'not-a-number')
        if k != 'Number': return viol(it, '%s is a %s' % (what, k), 'not-a-number')
        return judge_number(it, v.f[0], dz, what, 'roundtrip')

    def judge_number(it, num, dz, what, key):
        dn = N.describe(it, num)
        if dz[0] == 'flo':
            if dn[0] != 'flo': return viol(it, '%s is exact although z is inexact' % what, key + '-exact')
            e = z3.fpEQ(N.fp(dn[1]), dz[1])
            if not it.must(e): return viol(it, '%s is a different number' % what, key + '-different', z3.Not(e))
            return None
        if dn[0] == 'flo': return viol(it, '%s is inexact' % what, key + '-inexact')
        if dn[0] == 'rat' and is_sym(dn[2]): dn = ('rat', dn[1], it.concretize(dn[2]))
        lt, eq = N.exact_cmp(dn, dz)
        if not it.must(eq): return viol(it, '%s is a different number' % what, key + '-different', z3.Not(eq))
        return None

    def viol(it, what, key, extra=None):
        models_fmtnum.activate_defs(it)          # tie the printed digits to z before asking for a witness
        m = (it.witness(extra) if extra is not None else None) or it.witness()
        dz, radix = it.ghost['desc']
        return {'what': '%s radix %d: %s' % (rep, radix, what), 'key': '%s-%s' % (key, 'negative-radix-%d' % radix if radix != 10 else 'radix-10'),
                'request': {'cmd': 'roundtrip', 'z': N.conc(m, dz), 'radix': radix}}
    return harness


def text_of(m, chars):
    out = ''
    for c, _ in chars:
        if is_sym(c): c = m.eval(c, model_completion=True).as_long()
        out += chr(c)
    return out


def on_panic(it, e):
    d = it.ghost.get('desc')
    models_fmtnum.activate_defs(it)
    m = it.witness()
    if d is None or m is None: return {'what': 'panic %s' % e, 'key': 'panic', 'request': None}
    return {'what': 'round trip panics: %s' % e, 'key': 'panic:%s' % e.kind, 'request': {'cmd': 'roundtrip', 'z': N.conc(m, d[0]), 'radix': d[1]}}


# --------------------------------------------------------------------------------------------- native verdicts
FMT_OP = {10: 'display', 16: 'hex', 8: 'octal', 2: 'binary'}


def native_verdict(replay, req):
    z, radix = req['z'], req['radix']
    out = replay.ask('num %s %s' % (FMT_OP[radix], z))
    if out.startswith(('PANIC', 'ABORT')): return True, '(number->string %s %d): %s' % (z, radix, out)
    text = core.unhexs(out)
    back = replay.ask('numparse %s %d' % (core.hexs(text), radix))
    call = '(string->number (number->string %s %d) %d) via "%s"' % (z, radix, radix, text)
    if back.startswith(('PANIC', 'ABORT')): return True, '%s: %s' % (call, back)
    if back == 'NONE': return True, '%s => #f' % call
    if z.startswith('D:'):
        if not back.startswith('D:'): return True, '%s => exact %s' % (call, back)
        if N.value_of(back) != N.value_of(z): return True, '%s => %s' % (call, back)
        lit = replay.ask('evalc ' + core.hexs(PREFIX[radix] + text))
        ok = lit.startswith('OK MD:') and N.value_of(lit[4:]) == N.value_of(z)
        if not ok: return True, 'the literal %s%s evaluates to %s, not to %s' % (PREFIX[radix], text, lit, z)
        return False, '%s => %s' % (call, back)
    if back.startswith('D:'): return True, '%s => inexact %s' % (call, back)
    if N.value_of(back) != N.value_of(z): return True, '%s => %s' % (call, back)
    # literal clause through the evaluator
    lit = replay.ask('evalc ' + core.hexs(PREFIX[radix] + text))
    want = N.value_of(z)
    ok = lit.startswith('OK ') and canon_value(lit[3:]) == want
    if not ok: return True, 'the literal %s%s evaluates to %s, not to %s' % (PREFIX[radix], text, lit, z)
    return False, '%s => %s' % (call, back)


def canon_value(c):
    from fractions import Fraction
    if c.startswith('I'): return Fraction(int(c[1:]))
    if c.startswith('MB:'): return Fraction(int(c[3:]))
    if c.startswith('MR:'):
        n, d = c[3:].split('/'); return Fraction(int(n), int(d))
    return None


def setup_lexer(prog, dev):
    from . import textgen
    textgen.load_chartable(prog, dev)
    for n_ in ('is_initial_identifier', 'is_subsequent_identifier', 'is_subsequent_number', 'is_initial_number', 'is_special_subsequent'):
        prog.pure.add(prog.resolve_crate(n_))


FUNCTIONS = ['vm::builtin::number::number_string', 'vm::builtin::number::string_number', 'number::<impl Display for Number>::fmt',
             'number::<impl LowerHex for Number>::fmt', 'number::<impl Octal for Number>::fmt', 'number::<impl Binary for Number>::fmt',
             'number::Number::parse_with_exactness', 'number::Number::parse', 'number::Number::parse_rational', 'lex::scan', 'parse::parse_text', 'parse::parse_number']


def run(chk, ws, prog, tier, replays):
    dev, rel = replays
    models_vm.install(prog); models_num.install(prog); models_fmtnum.install(prog)
    prog.rlimit = 400000000
    table = B.builtin_table(prog)
    setup_lexer(prog, dev)
    denoms = DENOMS_QUICK if tier == 'quick' else DENOMS_THOROUGH
    jobs = []
    for rep in ('Fixnum', 'BigInt', 'Rational'):
        for radix in RADICES:
            jobs.append(('%s/radix %d' % (rep, radix), make_harness(prog, table, rep, radix, denoms, literal=True)))
    prog.model_f64_text = True
    jobs.append(('Float/radix 10', make_harness(prog, table, 'Float', 10, denoms, literal=True)))
    seen = {}
    for name, res in explore_many(prog, [(n, h, {'on_panic': on_panic, 'reuse_solver': False}) for n, h in jobs], parallel=12, nproc_each=1):
        print('  harness %-30s %s' % (name, res.summary()), flush=True)
        chk.add_result(name, res, FUNCTIONS, {'denominator palette': denoms, 'bignum bound': '|x| <= 2^66', 'radices': RADICES})
        for v in res.violations:
            if v.get('request') is None:
                chk.inconclusive.append('%s: %s' % (name, v['what'])); continue
            if seen.get(v['key'], 0) >= 2: continue
            seen[v['key']] = seen.get(v['key'], 0) + 1
            b1, d1 = native_verdict(dev, v['request'])
            b2, d2 = native_verdict(rel, v['request'])
            chk.violation(v['key'], (d1 if b1 else d2) + ' | ' + v['what'], v['request'], bool(b1) or bool(b2))
    chk.assumptions += ['the integer printers and parsers of std, num-bigint and num-rational are modelled by the defining property of positional notation '
                        '(unique digits d_i < r with value = sum d_i r^i; two\'s complement bit pattern for {:x} {:o} {:b} of primitive integers; sign and magnitude for BigInt); '
                        'Ratio formatting and Ratio / BigInt from_str_radix are transcribed from num-rational 0.4.1 / num-bigint 0.4.4',
                        'BigRational::to_f64 and f64::from_str_radix return an arbitrary double (only the exactness of the result is judged)']
    chk.assumptions += ['doubles: `{}` and `{:e}` print a spelling that parses back to the same double, `{:.1}` of an integer-valued double prints its exact expansion (library axioms); the skeleton text keeps only the character classes']
    chk.outside += ['NaN and infinities, inexact numbers at radix 2, 8, 16 (not required by the property)', 'denominators off the palette', 'bignums beyond 2^66',
                    'radices other than 2, 8, 10, 16']


def replay_request(req, replays):
    b1, d1 = native_verdict(replays[0], req)
    b2, d2 = native_verdict(replays[1], req)
    return bool(b1) or bool(b2), d1 if b1 else d2
