"""C06 -- total API: every input yields Ok or Err, never a panic.

Three groups of harnesses, all on the MIR of the current tree (engine M):
  builtins   every global procedure written in Rust that the engine can execute (see EXCLUDED for the others), called
             on a fabricated VM with 0..2 (thorough 0..3) arguments, each argument drawn from a set of value KINDS whose
             payloads are solver variables (any i64, any double incl. NaN and the infinities, bignums, rationals at the
             i32 limits, any char, strings / vectors / lists of length 0..2 with symbolic elements, symbols, booleans,
             nil, void, procedures, continuations).  Claim: the call returns Ok or Err -- no panic, no arithmetic
             overflow, no out-of-range index, no failed unwrap -- and a returned error renders through the real
             `impl Display for Error` without panicking.
  text       lex::scan, parse::parse_text and highlight::check / highlight on every text of up to n symbolic chars.
  errors     `impl Display for Error` for every variant with symbolic payloads (texts of length 0..2, any index).
"Never hangs", abort on allocation failure and native stack exhaustion are outside (C19 covers the latter and is not
applicable); the sliced evaluator and error recovery of the run loop are C13 / C07.
"""
import z3
from mirsym.values import *
from mirsym.explore import explore_many
from mirsym import models_vm, models_num, models_fmtnum
from mirsym.models_core import deref, Formatter
from mirsym.models_num import Big
from . import numsym as N
from . import builtins as B
from . import textgen
from .vmfab import Fab, USIZE_MAX
from vlib import core
from vlib.core import hexs, unhexs

# procedures the engine cannot execute, with the reason (each is OUTSIDE the claim)
EXCLUDED = {
    'eval': 'runs the compiler and the VM on a whole program', 'apply': 'transfers control into the run loop',
    'call/cc': 'captures the whole stack (C05)', 'call-with-current-continuation': 'captures the whole stack (C05)',
    'display': 'writes to the system interface (I/O)', 'write': 'writes to the system interface (I/O)',
    'term-cols': 'system interface', 'term-rows': 'system interface', 'time-utc': 'system interface',
    'random-integer': 'random source', 'random-real': 'random source', 'random-signed': 'random source',
    'make-string': 'allocation of a symbolic size', 'make-vector': 'allocation of a symbolic size',
}

KINDS = ['fixnum', 'float', 'bigint', 'rational', 'char', 'bool', 'nil', 'void', 'string0', 'string1', 'string2', 'symbol', 'vector0', 'vector2',
         'list1', 'list2', 'improper', 'lambda', 'continuation']
KINDS_SMALL = ['fixnum', 'float', 'char', 'string1', 'vector2', 'list2', 'nil', 'rational']
FIXNUM_PALETTE = [0, 1, -1, 2, -(1 << 63), 1 << 62, 1 << 31, -(1 << 31), 1 << 32, 16]      # powers of two: divisions stay shifts (2^63-1 as a divisor is not decided in time)
RANGE_PALETTE = [0, 1, 2]          # start / end around the length of the 1- and 2-element containers (arity 4 in the quick tier: 27 index triples per kind combination)
RADIX_PALETTE = [0, 1, 3, 36, 37, (1 << 32) + 10]
FLOAT_PALETTE = [0.0, -0.0, 1.5, -2.0, float('nan'), float('inf'), float('-inf'), 9223372036854775808.0, 1e308, 5e-324]
BIG_PALETTE = [0, 5, -1, 1 << 63, -(1 << 64), 1 << 64]
CHAR_PALETTE = [0xE9, 0xDF, 0x3A3, 0x130, 0x1C5, 0xFB01, 0x3042, 0x1F600]
RATIONAL_PAIRS = [(-(1 << 31), 1), ((1 << 31) - 1, 2), (1, 3), (-3, 4), (1, (1 << 31) - 1)]


class G:
    """argument generator on a fabricated VM"""
    def __init__(s, prog, fab, it, sym_float=True, fix_palette=None):
        s.prog, s.f, s.it = prog, fab, it
        s.fix_palette = fix_palette or FIXNUM_PALETTE
        s.A = B.Args(fab, it)
        s.desc = []
        s.sym_float = sym_float

    def arg(s, kind, name):
        f, it, A = s.f, s.it, s.A
        if kind == 'fixnum':
            if len(s.desc) == 0:
                v = z3.BitVec(name, 64)                              # first argument: any i64
            else:
                v = s.fix_palette[it.choose(len(s.fix_palette))]    # later arguments: boundary values (symbolic x symbolic products are not decided in time)
            A.fixnum(v); s.desc.append(('num', ('fix', v)))
        elif kind == 'float':
            v = z3.FP(name, z3.Float64()) if (len(s.desc) == 0 and s.sym_float) else FLOAT_PALETTE[it.choose(len(FLOAT_PALETTE))]
            A.value(f.vc('Number', Agg('Number', 1, [v])), None); s.desc.append(('num', ('flo', v)))
        elif kind == 'bigint':
            v = BIG_PALETTE[it.choose(len(BIG_PALETTE))]      # boundary values (int -> float conversion circuits of a symbolic bignum cost seconds per query)
            A.value(f.vc('Number', Agg('Number', 2, [Ref(Cell(Big(v)))])), None); s.desc.append(('num', ('big', v)))
        elif kind == 'rational':
            n, d = RATIONAL_PAIRS[it.choose(len(RATIONAL_PAIRS))]
            A.value(f.vc('Number', Agg('Number', 3, [models_num.ratio(n, d)])), None); s.desc.append(('num', ('rat', n, d)))
        elif kind == 'char':
            k = it.choose(1 + len(CHAR_PALETTE))
            c = it.sym_char(name, 1) if k == 0 else CHAR_PALETTE[k - 1]        # any ASCII char, or a non-ASCII representative
            A.char(c); s.desc.append(('char', c))
        elif kind == 'bool':
            b = it.choose(2) == 1
            A.value(f.vc('Bool', b), None); s.desc.append(('bool', b))
        elif kind == 'nil':
            A.value(f.vc('Nil'), None); s.desc.append(('nil',))
        elif kind == 'void':
            A.value(f.vc('Void'), None); s.desc.append(('raw', '(if #f #f)'))
        elif kind.startswith('string'):
            n = int(kind[6:]); chars = []
            for i in range(n):
                if i == 0: chars.append((it.sym_char('%s_%d' % (name, i), 1), 1))
                else:
                    cp = [None, 0xDF, 0x3042, 0x1F600][it.choose(4)]       # second char: any ASCII char or a non-ASCII representative
                    chars.append((it.sym_char('%s_%d' % (name, i), 1), 1) if cp is None else (cp, len(chr(cp).encode('utf-8'))))
            A.string(chars); s.desc.append(('str', [c for c, _ in chars]))
        elif kind == 'symbol':
            i = A.heap_obj(f.symbol('sym')); A.stack.append(f.ptr(i)); A.objs.append(('sym', i)); s.desc.append(('raw', "'sym"))
        elif kind.startswith('vector'):
            n = int(kind[6:])
            elems = [z3.BitVec('%s_%d' % (name, i), 64) for i in range(n)]
            A.vector([f.fixnum(e) for e in elems]); s.desc.append(('vec', [('int', e) for e in elems]))
        elif kind in ('list1', 'list2', 'improper'):
            n = 1 if kind == 'list1' else 2
            elems = [z3.BitVec('%s_%d' % (name, i), 64) for i in range(n)]
            tail_is_nil = kind != 'improper'
            tl = A.heap_obj(f.vc('Nil')) if tail_is_nil else A.heap_obj(f.fixnum(7))
            cur = tl
            for e in reversed(elems):
                ei = A.heap_obj(f.fixnum(e))
                cur = A.heap_obj(f.pair(ei, cur))
            A.stack.append(f.ptr(cur)); A.objs.append(('list', cur))
            s.desc.append(('list', [('int', e) for e in elems], ('nil',) if tail_is_nil else ('int', 7)))
        elif kind == 'lambda':
            i = A.heap_obj(f.vlambda([f.op('Enter'), f.op('Ret')])); A.stack.append(f.ptr(i)); A.objs.append(('lambda', i))
            s.desc.append(('raw', '(lambda () 1)'))
        elif kind == 'continuation':
            i = A.heap_obj(f.vcont([f.vc('Undefined')] * 2, 0, USIZE_MAX, (USIZE_MAX, 0), 0)); A.stack.append(f.ptr(i)); A.objs.append(('cont', i))
            s.desc.append(('raw', '(call/cc (lambda (k) k))'))
        else:
            raise KeyError(kind)


def conc_desc(m, d):
    if d[0] == 'num': return ('raw', scheme_number(N.conc(m, d[1])))
    return B.conc_val(m, d)


def scheme_number(rep):
    """scheme source that evaluates to the number in the given internal representation"""
    import struct
    k, v = rep[:2], rep[2:]
    if k == 'F:': return v if int(v) > -(1 << 63) else '(- -9223372036854775807 1)'
    if k == 'B:': return '(- (+ (expt 2 70) %s) (expt 2 70))' % v
    if k == 'R:':
        n, d = v.split('/'); return '(/ %s %s)' % (n, d)
    x = struct.unpack('>d', struct.pack('>Q', int(v, 16)))[0]
    if x != x: return '(string->number "NaN")'
    if x in (float('inf'), float('-inf')): return '(string->number "%sinf")' % ('-' if x < 0 else '')
    return '(string->number "%r")' % x


def make_builtin_harness(prog, table, proc, kinds, argc, sym_float=True, fix_palette=None):
    fab = Fab(prog)
    EDISP = prog.resolve_crate('<Error as Display>::fmt') or prog.resolve_crate('<error::Error as Display>::fmt')

    def harness(it):
        g = G(prog, fab, it, sym_float, fix_palette)
        it.ghost['g'] = g; it.ghost['proc'] = proc
        ks = []
        for i in range(argc):
            k = kinds[it.choose(len(kinds))]
            ks.append(k); g.arg(k, 'a%d' % i)
        it.ghost['kinds'] = ks
        vmb = Cell(g.A.build())
        r = it.call(table[proc], [Ref(vmb)])
        if r.var == 1:
            it.ghost['stage'] = 'rendering the returned error'
            f = Formatter([], False, {})
            it.call(EDISP, [Ref(Cell(r.f[0])), Ref(Cell(Agg('Formatter', None, [f])))])
        m = it.witness()
        if m is not None:
            it.ghost['sample'] = {'call': '(%s %s)' % (proc, ' '.join(ks)), 'result': 'error' if r.var == 1 else 'value'}
        return None
    return harness


def request_of(it):
    g = it.ghost.get('g')
    m = it.witness()
    if g is None or m is None: return None
    return {'cmd': 'call', 'proc': it.ghost['proc'], 'args': [list(conc_desc(m, d)) for d in g.desc]}


def on_panic(it, e):
    req = request_of(it)
    proc = it.ghost.get('proc', '?')
    if e.kind == 'capacity-overflow': return None            # allocation size: outside the claim
    return {'what': '(%s %s) panics%s: %s' % (proc, ' '.join(it.ghost.get('kinds', [])), ' while ' + it.ghost['stage'] if it.ghost.get('stage') else '', e),
            'key': 'panic:%s:%s' % (proc, e.kind), 'request': req}


def on_steplimit(it, e):
    """step budget exceeded inside a builtin: a candidate for non-termination, decided natively with a time limit"""
    req = request_of(it)
    if req is None: return None
    return {'kind': 'hang', 'what': '(%s %s) exceeds the step budget: %s' % (it.ghost.get('proc'), ' '.join(it.ghost.get('kinds', [])), e),
            'key': 'hang:%s' % it.ghost.get('proc'), 'request': req, 'decisions': list(it.taken)}


def native_hang(ws, req, profile, limit=20):
    """True if the real evaluator does not return within `limit` seconds"""
    import subprocess
    args = []
    for a in req['args']:
        a = tuple(a)
        if a[0] == 'vec': a = ('vec', [tuple(x) for x in a[1]])
        if a[0] == 'list': a = ('list', [tuple(x) for x in a[1]], tuple(a[2]))
        args.append(a)
    text = '(%s %s)' % (req['proc'], ' '.join(B.scheme_of(a) for a in args))
    p = subprocess.Popen([ws.replay_bin(profile)], stdin=subprocess.PIPE, stdout=subprocess.PIPE, text=True)
    try:
        out, _ = p.communicate('evalc ' + hexs(text) + '\n', timeout=limit)
        return False, '%s => %s' % (text, out.strip()[:120])
    except subprocess.TimeoutExpired:
        p.kill(); p.communicate()
        return True, '%s does not return within %d s' % (text, limit)


# ----------------------------------------------------------------------------------------------- native verdicts
def native_verdict(replay, req):
    if req['cmd'] == 'text':
        out = replay.ask('parse ' + hexs(req['text']))
        return out.startswith(('PANIC', 'ABORT')), 'parse_text(%r) => %s' % (req['text'], out[:160])
    args = []
    for a in req['args']:
        a = tuple(a)
        if a[0] == 'vec': a = ('vec', [tuple(x) for x in a[1]])
        if a[0] == 'list': a = ('list', [tuple(x) for x in a[1]], tuple(a[2]))
        args.append(a)
    text = '(%s %s)' % (req['proc'], ' '.join(B.scheme_of(a) for a in args))
    replay.ask('newvm')
    out = replay.ask('evalc ' + hexs(text))
    return out.startswith(('PANIC', 'ABORT')), '%s => %s' % (text, out[:160])


FUNCTIONS = ['vm::builtin::*::* (see the harness names)', 'vm::builtin::{pop_argc,pop_*}', 'error::<impl Display for Error>::fmt', 'lex::scan', 'parse::parse_text', 'parse::parse',
             'highlight::check']


# (procedure, arity) pairs outside the claim
EXCLUDED_ARITY = {('expt', 2): 'exponents up to 2^32 allocate / run for hours (allocation bound of the property); the arithmetic is C08',
                  ('pow', 2): 'same as expt'}


def plan(prog, table, tier):
    jobs = []
    quick = tier == 'quick'
    procs = [p for p in sorted(table) if p not in EXCLUDED]
    for p in procs:
        for argc in ((0, 1, 2, 3) if quick else (0, 1, 2, 3, 4)):
            if (p, argc) in EXCLUDED_ARITY: continue
            if argc <= 1: kinds = KINDS
            elif argc == 2: kinds = KINDS if not quick else KINDS_SMALL + ['bigint', 'improper', 'string0', 'lambda']
            elif argc == 3: kinds = KINDS_SMALL if not quick else ['fixnum', 'string1', 'vector2', 'char']
            else: kinds = ['fixnum', 'string1', 'vector2']
            # a symbolic double against boundary fixnums costs seconds per query (float -> int conversion circuits; number->string with a
            # symbolic double and a radix took 33 min and still met an unsupported construct): with two or more arguments doubles come from the palette
            jobs.append(('builtin %s argc=%d' % (p, argc), make_builtin_harness(prog, table, p, kinds, argc, sym_float=(argc <= 1)), on_panic))
    # the procedures that take a range as third and fourth argument, at arity 4 also in the quick tier (start / end around the length)
    if quick:
        for p in ('string-fill!', 'vector-fill!', 'string-copy!', 'vector-copy!', 'string-copy', 'substring', 'vector-copy', 'string->list', 'vector->list'):
            if p in procs and (p, 4) not in EXCLUDED_ARITY:
                jobs.append(('builtin %s argc=4' % p, make_builtin_harness(prog, table, p, ['fixnum', 'string1', 'vector2', 'char'], 4, sym_float=False, fix_palette=RANGE_PALETTE), on_panic))
    # radix arguments: the boundary values of a radix (0, 1, the largest legal 36, 37, a value that truncates to 10 in 32 bits)
    for p in ('string->number', 'number->string'):
        if p in procs:
            jobs.append(('builtin %s radix palette' % p, make_builtin_harness(prog, table, p, ['string1', 'fixnum'] if p == 'string->number' else ['fixnum'], 2, sym_float=False,
                                                                                fix_palette=RADIX_PALETTE), on_panic))
    return jobs


def run(chk, ws, prog, tier, replays):
    dev, rel = replays
    models_vm.install(prog); models_num.install(prog); models_fmtnum.install(prog)
    textgen.load_chartable(prog, dev, CHAR_PALETTE + [0xDF, 0x3042, 0x1F600])
    prog.numfmt_skeleton = True; prog.opaque_float_math = True
    prog.rlimit = 400000000
    table = B.builtin_table(prog)
    jobs = plan(prog, table, tier)
    seen = {}
    for name, res in explore_many(prog, [(n, h, {'on_panic': p, 'on_steplimit': on_steplimit, 'reuse_solver': False}) for n, h, p in jobs], parallel=14, nproc_each=1):
        if res.violations or res.unsupported or res.errors:
            print('  harness %-44s %s' % (name, res.summary()), flush=True)
        chk.add_result(name, res, FUNCTIONS, {'argument kinds': KINDS})
        for sl in res.steplimit:
            if sl.get('kind') != 'hang': continue
            if seen.get(sl['key'], 0) >= 2: continue
            seen[sl['key']] = seen.get(sl['key'], 0) + 1
            b1, d1 = native_hang(ws, sl['request'], 'release')
            if b1: chk.violation(sl['key'], d1 + ' | ' + sl['what'], dict(sl['request'], hang=True), True)
            else: chk.inconclusive.append('%s: %s (natively: %s)' % (name, sl['what'], d1))
        for v in res.violations:
            if v.get('request') is None:
                chk.inconclusive.append('%s: %s' % (name, v['what'])); continue
            if seen.get(v['key'], 0) >= 2: continue
            seen[v['key']] = seen.get(v['key'], 0) + 1
            b1, d1 = native_verdict(dev, v['request'])
            b2, d2 = native_verdict(rel, v['request'])
            chk.violation(v['key'], (d1 if b1 else d2) + ' | ' + v['what'], v['request'], bool(b1) or bool(b2))
    # text entry points: the lexer / parser harnesses of C11 on a second program instance (they stub Number::parse), panics only
    from . import c11
    from mirsym.explore import explore
    prog2 = core.load_program(ws)
    textgen.load_chartable(prog2, dev)
    for n_ in ('is_initial_identifier', 'is_subsequent_identifier', 'is_subsequent_number', 'is_initial_number', 'is_special_subsequent'):
        prog2.pure.add(prog2.resolve_crate(n_))
    c11.install_stubs(prog2)
    SCAN = prog2.resolve_crate('lex::scan')
    prog2.observers[SCAN] = lambda it, args, r: it.ghost.setdefault('scan', []).append(r)
    tn = 3 if tier == 'quick' else 4
    PT = prog2.resolve_crate('parse_text'); EDISP2 = prog2.resolve_crate('<Error as Display>::fmt')
    def make_text(n):
        def harness(it):
            text, chars = textgen.sym_text(it, n, non_ascii=True)
            it.ghost['chars'] = chars
            r = it.call(PT, [text])
            if r.var == 1:
                f = Formatter([], False, {})
                pe = prog2.resolve_crate('<parse::Error as Display>::fmt')
                if pe: it.call(pe, [Ref(Cell(r.f[0])), Ref(Cell(Agg('Formatter', None, [f])))])
            return None
        return harness
    def text_panic(it, e):
        chars = it.ghost.get('chars'); m = it.witness()
        if chars is None or m is None: return {'what': 'panic %s' % e, 'key': 'panic', 'request': None}
        t = textgen.concretize_text(m, chars)
        return {'what': 'parse_text(%r) panics: %s' % (t, e), 'key': 'panic:text:' + e.kind, 'request': {'cmd': 'text', 'text': t}}
    for n in range(0, tn + 1):
        name = 'text parse_text n=%d' % n
        res = explore(prog2, make_text(n), opts={'on_panic': text_panic}, quiet=True)
        chk.add_result(name, res, ['lex::scan', 'parse::parse_text', 'parse::parse', 'parse::<impl Display for Error>::fmt'], {'text_chars': n, 'alphabet': 'symbolic 7-bit ASCII or 8 non-ASCII representatives'})
        for v in res.violations:
            req = v['request']
            if req is None:
                chk.inconclusive.append('%s: %s' % (name, v['what'])); continue
            if seen.get(v['key'], 0) >= 2: continue
            seen[v['key']] = seen.get(v['key'], 0) + 1
            b1, d1 = native_verdict(dev, req)
            b2, d2 = native_verdict(rel, req)
            chk.violation(v['key'], (d1 if b1 else d2) + ' | ' + v['what'], req, bool(b1) or bool(b2))
    chk.extra['excluded_procedures'] = EXCLUDED
    chk.assumptions += ['num-bigint / num-rational / libm are modelled (see C08, C09, C16); libm functions return an arbitrary double',
                        'procedures listed under excluded_procedures are not executed (reason per procedure)',
                        'release-profile wrapping is not explored: the dev profile panics on every overflow that release wraps, so dev panic-freedom implies no silent wrap at the same sites']
    chk.outside += ['hangs and time bounds', 'allocation failure / capacity overflow', 'native stack exhaustion (C19)', 'arity above %d' % (3 if tier == 'quick' else 4),
                    'containers longer than 2, circular structures', 'texts longer than %d chars (longer texts: C11), the highlighter (C20 reports its panics)' % (3 if tier == 'quick' else 4)]


def replay_request(req, replays):
    if req.get('hang'):
        return native_hang(core.Workspace(), req, 'release')
    b1, d1 = native_verdict(replays[0], req)
    b2, d2 = native_verdict(replays[1], req)
    return bool(b1) or bool(b2), d1 if b1 else d2
