"""Fabrication of VM states for the step lemmas (C03, C04, C05, C07, C12, C13, C14, C15, C18).

Engine M can build any `Vm`, `Heap`, `Stack` value directly as interpreter data: no privacy, no hooks.  Struct
field orders are read from the sources of the current tree (prog.structs); a struct whose fields the builder
does not know (e.g. a field added by a change) is reported as Unsupported -> the check is inconclusive."""
import z3
from mirsym.values import *
from mirsym.models_core import mk_box
from mirsym.models_vm import HMap

USIZE_MAX = (1 << 64) - 1


class Fab:
    def __init__(s, prog):
        s.prog = prog
        s.V = prog.enums['VCell']
        s.OP = prog.enums['OpCode']

    # ---- generic
    def struct(s, name, **kw):
        fields = s.prog.structs.get(name)
        if fields is None: raise Unsupported('struct %s not found in the sources' % name)
        names = [n for n, _ in fields]
        if set(names) != set(kw):
            raise Unsupported('struct %s has fields %s, the harness builds %s' % (name, names, sorted(kw)))
        return Agg(name.split('::')[-1], None, [kw[n] for n in names])

    def field(s, agg, struct_name, fname):
        names = [n for n, _ in s.prog.structs[struct_name]]
        return agg.f[names.index(fname)]

    def set_field(s, agg, struct_name, fname, v):
        names = [n for n, _ in s.prog.structs[struct_name]]
        agg.f[names.index(fname)] = v

    def vc(s, name, *f):
        return Agg('VCell', s.V.index(name), list(f))

    def kind(s, v):
        return s.V[v.var]

    # ---- values
    def fixnum(s, n): return s.vc('Number', Agg('Number', 0, [n]))
    def ptr(s, p): return s.vc('Ptr', p)
    def pair(s, a, b): return s.vc('Pair', a, b)
    def op(s, name): return s.vc('OpCode', Agg('OpCode', s.OP.index(name), []))
    def rc(s, v): return Ref(Cell(v))
    def refcell(s, v): return Agg('RefCell', None, [v, 0])
    def string(s, text):
        so = text if isinstance(text, StrObj) else mkstr(text)
        return s.vc('String', s.rc(s.refcell(so)))
    def symbol(s, text): return s.vc('Symbol', s.rc(mkstr(text)))
    def vector(s, elems):
        return s.vc('Vector', s.rc(s.struct('Vector', vector=s.refcell(list(elems)))))
    def lexenv(s, slots):
        return s.vc('LexicalEnv', s.rc(s.struct('LexicalEnvironment', slots=s.refcell(list(slots)))))
    def envmap(s, entries):
        return s.struct('EnvironmentMap', map=list(entries))
    def binding_source(s, name, *f):
        return Agg('BindingSource', s.prog.enums['BindingSource'].index(name), list(f))
    def lambda_(s, bc, args=(), envmap=(), is_vararg=False, top_level=False):
        return s.struct('Lambda', top_level=top_level, is_vararg=is_vararg, envmap=s.envmap(envmap), args=list(args),
                        bc=list(bc), desc_args=mk_none())
    def vlambda(s, *a, **k): return s.vc('Lambda', s.rc(s.lambda_(*a, **k)))
    def builtin(s, desc, fn_name):
        """VCell::BuiltInProc whose fn pointer is the MIR function `fn_name`"""
        if fn_name is None: raise Unsupported('builtin procedure %s not found in the sources' % desc)
        return s.vc('BuiltInProc', s.rc(s.struct('BuiltInProc', desc=mkstr(desc), proc=Agg('fnitem', None, [fn_name]))))
    def stack(s, cells, sp):
        return s.struct('Stack', stack=list(cells), sp=sp)
    def continuation(s, cells, sp, ep, ip, bp):
        return s.struct('Continuation', stack=s.stack(cells, sp), ep=ep, ip=Agg('tuple', None, list(ip)), bp=bp)
    def vcont(s, *a): return s.vc('Continuation', s.rc(s.continuation(*a)))

    # ---- heap
    def gcmap(s, states):
        n = len(states)
        assert n % 4 == 0
        mp = []
        for b in range(n // 4):
            mp.append(sum(states[4 * b + k] << (2 * k) for k in range(4)))
        return s.struct('gc::Map', size=n, map=mp)

    def heap(s, cells, capacity, chunk=None, free_order=None):
        """cells: allocated cells (indices 0..k-1); the rest of `capacity` is free (Undefined, on the free list)"""
        k = len(cells)
        allc = list(cells) + [s.vc('Undefined') for _ in range(capacity - k)]
        states = [1] * k + [0] * (capacity - k)
        fl = list(range(capacity - 1, k - 1, -1)) if free_order is None else list(free_order)
        table = HMap()
        for i, c in enumerate(cells):
            if s.kind(c) == 'Symbol':
                chs = c.f[0].get().chars
                if any(is_sym(x) for x, _ in chs): continue     # symbolic names: the harness does not use the table
                table.d[''.join(chr(x) for x, _ in chs)] = Cell(i)
        return s.struct('Heap', chunk_size=chunk or capacity, free_list=fl, heap=allc, heap_map=s.gcmap(states), symbol_table=table)

    def globenv(s, bindings, slots):
        h = HMap()
        for k, v in bindings.items(): h.d[k] = Cell(v)
        return s.struct('GlobalEnvironment', bindings=h, slots=list(slots))

    def vm(s, heap, stack, acc=None, ep=USIZE_MAX, ip=(USIZE_MAX, 0), bp=0, globenv=None):
        return s.struct('Vm', heap=heap, globenv=globenv or s.globenv({}, []), stack=stack,
                        acc=acc if acc is not None else s.vc('Undefined'), ep=ep, ip=Agg('tuple', None, list(ip)), bp=bp,
                        sys=mk_box(Agg('StubInterface', None, [])), last_stacktrace=mk_none())

    # ---- inspection
    def gc_state(s, heap, i):
        hm = s.field(heap, 'Heap', 'heap_map')
        b = s.field(hm, 'gc::Map', 'map')[i // 4]
        if is_sym(b): return z3.simplify(z3.LShR(b, (i % 4) * 2) & 3)
        return (b >> ((i % 4) * 2)) & 3


# ------------------------------------------------------------------------------------------------------
# S-expression encoding of VM states, shared with the native replay binary (replay/src/state.rs)
def _conc(v, model):
    if is_sym(v):
        if model is None: raise Unsupported('symbolic value in a state dump without a model')
        r = model.eval(v, model_completion=True)
        return r.as_long()
    return v


def _hex(chars, model):
    b = ''.join(chr(_conc(c, model)) for c, _ in chars).encode('utf-8')
    return b.hex() if b else '-'


def show_vcell(fab, v, model=None):
    k = fab.kind(v)
    c = lambda i: _conc(v.f[i], model)
    if k == 'Undefined': return 'undef'
    if k == 'Void': return 'void'
    if k == 'Nil': return 'nil'
    if k == 'Acc': return 'acc'
    if k == 'Bool':
        b = v.f[0]
        if is_sym(b): b = z3.is_true(model.eval(b, model_completion=True))
        return '(bool %d)' % int(b)
    if k == 'Char': return '(char %d)' % c(0)
    if k == 'Number':
        n = v.f[0]
        if n.var == 0:
            x = _conc(n.f[0], model)
            if x >= 1 << 63: x -= 1 << 64
            return '(fix %d)' % x
        raise Unsupported('state dump of non-fixnum number')
    if k == 'String': return '(str %s)' % _hex(v.f[0].get().f[0].chars, model)
    if k == 'Symbol': return '(sym %s)' % _hex(v.f[0].get().chars, model)
    if k == 'Pair': return '(pair %d %d)' % (c(0), c(1))
    if k == 'Ptr': return '(ptr %d)' % c(0)
    if k == 'Closure': return '(closure %d %d)' % (c(0), c(1))
    if k == 'ArgumentCount': return '(argc %d)' % c(0)
    if k == 'BasePointer': return '(bp %d)' % c(0)
    if k == 'BasePointerOffset':
        x = c(0)
        if x >= 1 << 63: x -= 1 << 64
        return '(bpo %d)' % x
    if k == 'EnvironmentPointer': return '(ep %d)' % c(0)
    if k == 'GlobalEnvSlot': return '(gslot %d)' % c(0)
    if k == 'InstructionPointer': return '(ip %d %d)' % (c(0), c(1))
    if k == 'LexicalEnvSlot': return '(lslot %d)' % c(0)
    if k == 'LexicalEnvPtr': return '(lptr %d %d)' % (c(0), c(1))
    if k == 'OpCode': return '(op %s)' % fab.OP[v.f[0].var]
    if k == 'Vector':
        return '(vec%s)' % ''.join(' ' + show_vcell(fab, x, model) for x in fab.field(v.f[0].get(), 'Vector', 'vector').f[0])
    if k == 'LexicalEnv':
        return '(lexenv%s)' % ''.join(' ' + show_vcell(fab, x, model) for x in fab.field(v.f[0].get(), 'LexicalEnvironment', 'slots').f[0])
    if k == 'Lambda':
        lam = v.f[0].get()
        env = fab.field(fab.field(lam, 'Lambda', 'envmap'), 'EnvironmentMap', 'map')
        def src(b):
            name = fab.prog.enums['BindingSource'][b.var]
            return name if not b.f else '(%s %d)' % (name, _conc(b.f[0], model))
        return '(lambda %d %d (args%s) (bc%s) (env%s))' % (
            int(fab.field(lam, 'Lambda', 'is_vararg')), int(fab.field(lam, 'Lambda', 'top_level')),
            ''.join(' ' + show_vcell(fab, x, model) for x in fab.field(lam, 'Lambda', 'args')),
            ''.join(' ' + show_vcell(fab, x, model) for x in fab.field(lam, 'Lambda', 'bc')),
            ''.join(' (%s %s)' % (show_vcell(fab, e.f[0], model), src(e.f[1])) for e in env))
    if k == 'BuiltInProc':
        return '(builtin %s)' % _hex(fab.field(v.f[0].get(), 'BuiltInProc', 'desc').chars, model)
    if k == 'Continuation':
        ct = v.f[0].get()
        ip = fab.field(ct, 'Continuation', 'ip')
        return '(cont %d %d %d %d %s)' % (_conc(fab.field(ct, 'Continuation', 'ep'), model), _conc(ip.f[0], model), _conc(ip.f[1], model),
                                            _conc(fab.field(ct, 'Continuation', 'bp'), model), show_stack(fab, fab.field(ct, 'Continuation', 'stack'), model))
    raise Unsupported('state dump of VCell::' + k)


def show_stack(fab, st, model=None):
    return '(stack %d%s)' % (_conc(fab.field(st, 'Stack', 'sp'), model),
                             ''.join(' ' + show_vcell(fab, x, model) for x in fab.field(st, 'Stack', 'stack')))


def show_vm(fab, vm, model=None):
    heap = fab.field(vm, 'Vm', 'heap')
    cells = fab.field(heap, 'Heap', 'heap')
    states = [_conc(fab.gc_state(heap, i), model) for i in range(len(cells))]
    ge = fab.field(vm, 'Vm', 'globenv')
    ip = fab.field(vm, 'Vm', 'ip')
    return '(vm (heap %d (cells%s) (states%s) (free%s)) %s (acc %s) (ep %d) (ip %d %d) (bp %d) (globals (bindings%s) (slots%s)))' % (
        _conc(fab.field(heap, 'Heap', 'chunk_size'), model),
        ''.join(' ' + show_vcell(fab, x, model) for x in cells), ''.join(' %d' % x for x in states),
        ''.join(' %d' % _conc(x, model) for x in fab.field(heap, 'Heap', 'free_list')),
        show_stack(fab, fab.field(vm, 'Vm', 'stack'), model), show_vcell(fab, fab.field(vm, 'Vm', 'acc'), model),
        _conc(fab.field(vm, 'Vm', 'ep'), model), _conc(ip.f[0], model), _conc(ip.f[1], model), _conc(fab.field(vm, 'Vm', 'bp'), model),
        ''.join(' (%d %d)' % (k, _conc(c.v, model)) for k, c in fab.field(ge, 'GlobalEnvironment', 'bindings').d.items()),
        ''.join(' ' + show_vcell(fab, x, model) for x in fab.field(ge, 'GlobalEnvironment', 'slots')))


def parse_sx(text):
    toks = text.replace('(', ' ( ').replace(')', ' ) ').split()
    pos = [0]
    def rd():
        t = toks[pos[0]]; pos[0] += 1
        if t == '(':
            out = []
            while toks[pos[0]] != ')': out.append(rd())
            pos[0] += 1
            return out
        return t
    return rd()


def _unhex(h):
    return '' if h == '-' else bytes.fromhex(h).decode('utf-8')


def vcell_of(fab, sx):
    f = fab
    if isinstance(sx, str):
        return {'undef': f.vc('Undefined'), 'void': f.vc('Void'), 'nil': f.vc('Nil'), 'acc': f.vc('Acc')}[sx]
    h, a = sx[0], sx[1:]
    I = lambda i: int(a[i])
    if h == 'bool': return f.vc('Bool', a[0] == '1')
    if h == 'char': return f.vc('Char', I(0))
    if h == 'fix': return f.fixnum(I(0))
    if h == 'str': return f.string(_unhex(a[0]))
    if h == 'sym': return f.symbol(_unhex(a[0]))
    if h == 'pair': return f.pair(I(0), I(1))
    if h == 'ptr': return f.ptr(I(0))
    if h == 'closure': return f.vc('Closure', I(0), I(1))
    if h == 'argc': return f.vc('ArgumentCount', I(0))
    if h == 'bp': return f.vc('BasePointer', I(0))
    if h == 'bpo': return f.vc('BasePointerOffset', I(0))
    if h == 'ep': return f.vc('EnvironmentPointer', I(0))
    if h == 'gslot': return f.vc('GlobalEnvSlot', I(0))
    if h == 'ip': return f.vc('InstructionPointer', I(0), I(1))
    if h == 'lslot': return f.vc('LexicalEnvSlot', I(0))
    if h == 'lptr': return f.vc('LexicalEnvPtr', I(0), I(1))
    if h == 'op': return f.op(a[0])
    if h == 'vec': return f.vector([vcell_of(f, x) for x in a])
    if h == 'lexenv': return f.lexenv([vcell_of(f, x) for x in a])
    if h == 'lambda':
        def src(b):
            if isinstance(b, str): return f.binding_source(b)
            return f.binding_source(b[0], int(b[1]))
        return f.vlambda([vcell_of(f, x) for x in a[3][1:]], args=[vcell_of(f, x) for x in a[2][1:]],
                         envmap=[Agg('tuple', None, [vcell_of(f, e[0]), src(e[1])]) for e in a[4][1:]],
                         is_vararg=a[0] == '1', top_level=a[1] == '1')
    if h == 'cont':
        st = a[4]
        return f.vcont([vcell_of(f, x) for x in st[2:]], int(st[1]), I(0), (I(1), I(2)), I(3))
    if h == 'flo' or h == 'big' or h == 'rat':
        return f.vc('Number', Agg('Number', {'flo': 1, 'big': 2, 'rat': 3}[h], [('opaque', a)]))
    if h == 'builtin': return f.vc('BuiltInProc', ('opaque', a[0]))
    raise Unsupported('state parse ' + h)


def vm_of(fab, text):
    """parse a dump produced by the native replay binary into the same Agg structures the harness builds"""
    f = fab
    sx = parse_sx(text)
    parts = {p[0]: p for p in sx[1:]}
    hp = parts['heap']
    cells = [vcell_of(f, x) for x in hp[2][1:]]
    states = [int(x) for x in hp[3][1:]]
    fl = [int(x) for x in hp[4][1:]]
    table = HMap()
    for kv in hp[5][1:]:
        table.d[_unhex(kv[0])] = Cell(int(kv[1]))
    heap = f.struct('Heap', chunk_size=int(hp[1]), free_list=fl, heap=cells, heap_map=f.gcmap(states), symbol_table=table)
    st = parts['stack']
    stack = f.stack([vcell_of(f, x) for x in st[2:]], int(st[1]))
    g = parts['globals']
    ge = f.globenv({int(kv[0]): int(kv[1]) for kv in g[1][1:]}, [vcell_of(f, x) for x in g[2][1:]])
    return f.vm(heap, stack, acc=vcell_of(f, parts['acc'][1]), ep=int(parts['ep'][1]), ip=(int(parts['ip'][1]), int(parts['ip'][2])),
                bp=int(parts['bp'][1]), globenv=ge)
