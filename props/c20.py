"""C20 -- the REPL highlighter marks exactly the matching bracket and nothing else.

Encoded (real code, from the MIR of the current tree): ReplHighlighter::highlight, highlight_check,
find_token_at_cursor, find_token_at_index, find_matching_bracket (syntax.rs) and all of lex::scan.
Symbolic: every character (7-bit ASCII variable or one of 8 non-ASCII representatives), the cursor (usize).
Oracle: an independent nesting matcher over the token list the real lexer produced on that path.
"""
import z3
from mirsym.values import *
from mirsym.explore import explore
from . import textgen

BRACKETS = ('LeftParen', 'RightParen', 'HashParen')
ESC_ON = [0x1b, ord('['), ord('4'), ord('m')]
ESC_OFF = [0x1b, ord('['), ord('0'), ord('m')]


# ------------------------------------------------------------------ the oracle (pure python, used on symbolic paths
# with concrete spans/types AND on native replay data)
def covering(tokens, i):
    for k, t in enumerate(tokens):
        if t[0] <= i < t[1]: return k
    return None


def partner(tokens, k):
    t = tokens[k]
    opener = lambda x: x[2] in ('LeftParen', 'HashParen')
    closer = lambda x: x[2] == 'RightParen'
    if opener(t):
        d = 0
        for u in tokens[k + 1:]:
            if opener(u): d += 1
            elif closer(u):
                if d == 0: return (u[0], u[1])
                d -= 1
    elif closer(t):
        d = 0
        for u in reversed(tokens[:k]):
            if closer(u): d += 1
            elif opener(u):
                if d == 0: return (u[0], u[1])
                d -= 1
    return None


def acceptable(tokens, cursor):
    """set of acceptable outcomes: None = text unchanged, (lo, hi) = exactly that span underlined.
    `tokens` is None when lexing failed.  Every defensible reading of "the bracket at or just before the
    cursor" is accepted (the token under the cursor, else the one ending at the cursor)."""
    if tokens is None: return {None}
    k_at = covering(tokens, cursor)
    k_before = covering(tokens, cursor - 1) if cursor > 0 else None
    cands = []
    if k_at is not None and tokens[k_at][2] in BRACKETS: cands.append(k_at)
    if k_before is not None and k_before != k_at and tokens[k_before][2] in BRACKETS: cands.append(k_before)
    if not cands: return {None}
    acc = set()
    for k in cands: acc.add(partner(tokens, k))
    if k_at is not None and tokens[k_at][2] not in BRACKETS:
        acc.add(None)       # the token under the cursor is not a bracket: leaving the text alone is defensible
    return acc


def check_ok(tokens, cursor, nbytes):
    """highlight_check may be true only if a bracket token has a byte within [cursor-2, cursor+1]"""
    if tokens is None: return False
    for lo, hi, ty in tokens:
        if ty in BRACKETS and lo <= cursor + 1 and hi > cursor - 2: return True
    return False


def classify(tokens, cursor, got):
    """role key of a violation, for known_findings.json"""
    if tokens is not None:
        near = [tokens[k][2] for k in (covering(tokens, cursor), covering(tokens, cursor - 1) if cursor > 0 else None) if k is not None]
        acc = acceptable(tokens, cursor)
        spans_hash = {(t[0], t[1]) for t in tokens if t[2] == 'HashParen'}
        if 'HashParen' in near or any(a in spans_hash for a in acc if a) or (got in spans_hash):
            return 'hashparen-not-an-opener'
        # a '#(' between the bracket and its partner shifts the nesting count
        if any(t[2] == 'HashParen' for t in tokens): return 'hashparen-not-an-opener'
    return 'wrong-highlight'


def decode_output(text, out):
    """text, out: python lists of comparable items.  -> None (unchanged) | (lo_idx, hi_idx) char-index span | 'garbled'"""
    if len(out) == len(text):
        return None if all(textgen.same_term(a, b) for a, b in zip(text, out)) else 'garbled'
    if len(out) != len(text) + 8: return 'garbled'
    # find ESC_ON
    for i in range(len(text) + 1):
        if all((not is_sym(out[i + j])) and out[i + j] == ESC_ON[j] for j in range(4) if i + j < len(out)) and i + 4 <= len(out):
            # prefix must equal
            if not all(textgen.same_term(a, b) for a, b in zip(text[:i], out[:i])): continue
            for j in range(i, len(text) + 1):
                p = j + 4
                if p + 4 <= len(out) and all((not is_sym(out[p + q])) and out[p + q] == ESC_OFF[q] for q in range(4)):
                    mid_ok = all(textgen.same_term(a, b) for a, b in zip(text[i:j], out[i + 4:p]))
                    tail_ok = all(textgen.same_term(a, b) for a, b in zip(text[j:], out[p + 4:])) and len(text) - j == len(out) - p - 4
                    if mid_ok and tail_ok and j > i: return (i, j)
    return 'garbled'


# ------------------------------------------------------------------ symbolic harnesses
def make_harness(prog, n, which, non_ascii):
    HL = prog.resolve_crate('ReplHighlighter::highlight')
    HC = prog.resolve_crate('ReplHighlighter::highlight_check')
    SCAN = prog.resolve_crate('lex::scan')
    TT = prog.enums['TokenType']

    def harness(it):
        text, chars = textgen.sym_text(it, n, non_ascii=non_ascii)
        widths = [w for _, w in text.obj.chars]
        nbytes = sum(widths)
        cursor = z3.BitVec('cursor', 64)
        it.assume(z3.ULE(cursor, nbytes + 2))
        it.ghost['scan'] = []
        it.ghost['chars'] = chars
        it.ghost['which'] = 'hl'
        me = Ref(Cell(Agg('ReplHighlighter', None, [])))
        out = it.call(HL, [me, text, cursor])
        cur = it.concretize(cursor)
        # the oracle's token list: the real lexer on the same text (memoised: free when highlight already scanned)
        lexed = it.do_call('lex::scan', [text], None)
        if lexed.var != 0:
            tokens = None
        else:
            tokens = [(t.f[0].f[0], t.f[0].f[1], TT[t.f[1].var]) for t in lexed.f[0]]
        it.ghost['sample'] = None
        # byte offsets -> char indices
        offs = [0]
        for w in widths: offs.append(offs[-1] + w)
        got_chars = [c for c, _ in (out.f[0].chars() if out.var == 0 else out.f[0].chars)]
        got = decode_output(chars, got_chars)
        if got == 'garbled':
            return viol(it, chars, cur, 'output is not the text with one underline pair', 'garbled-output', 'hl')
        got_span = None if got is None else (offs[got[0]], offs[got[1]])
        acc = acceptable(tokens, cur)
        tags = ['underlined' if got_span else 'unchanged']
        if got_span not in acc:
            return viol(it, chars, cur, 'underlined %s, acceptable %s, tokens %s' % (got_span, sorted(acc, key=str), tokens),
                        classify(tokens, cur, got_span), 'hl')
        # the bracket-check predicate on the same text and cursor (lex::scan is memoised within the path)
        it.ghost['which'] = 'hlcheck'
        res = it.call(HC, [me, text, cur])
        res = res if isinstance(res, bool) else it.branch(res)
        tags.append('check=%s' % res)
        it.ghost['tags'] = tags
        if res and not check_ok(tokens, cur, nbytes):
            return viol(it, chars, cur, 'highlight_check is true although no bracket token lies within one position of the cursor', 'check-true-without-bracket', 'hlcheck')
        it.ghost['sample'] = sample(it, chars, cur, 'underline %s, check %s' % (got_span, res))
        return None

    def sample(it, chars, cur, what):
        m = it.witness()
        return {'text': textgen.concretize_text(m, chars), 'cursor': cur, 'result': what} if m is not None else None

    def viol(it, chars, cur, what, key, cmd):
        m = it.witness()
        text = textgen.concretize_text(m, chars)
        return {'kind': 'oracle', 'what': what, 'key': key, 'request': {'cmd': cmd, 'text': text, 'cursor': cur}}

    def on_panic(it, e):
        m = it.witness()
        chars = it.ghost.get('chars')
        if m is None or chars is None:
            return {'kind': 'panic', 'what': 'panic: %s' % e, 'key': 'panic', 'request': {'cmd': 'hl', 'text': None, 'cursor': 0}}
        cur = m.eval(z3.BitVec('cursor', 64), model_completion=True).as_long()
        return {'kind': 'panic', 'what': 'panic: %s' % e, 'key': 'panic:' + e.kind,
                'request': {'cmd': it.ghost.get('which', 'hl'), 'text': textgen.concretize_text(m, chars), 'cursor': cur}}
    return harness, on_panic


def native_verdict(replay, req):
    """run the real highlighter on a concrete input and judge it with the same oracle -> (violates, description)"""
    text, cur = req['text'], req['cursor']
    lex = replay.ask('lex ' + core_hex(text))
    tokens = None
    if lex.startswith('OK'):
        tokens = []
        for t in lex.split()[2:]:
            lo, hi, ty = t.split(',')
            tokens.append((int(lo), int(hi), ty))
    if req['cmd'] == 'hlcheck':
        out = replay.ask('hlcheck %s %d' % (core_hex(text), cur))
        if out.startswith(('PANIC', 'ABORT')): return True, out
        res = out.split()[1] == 'true'
        return (res and not check_ok(tokens, cur, len(text.encode()))), 'highlight_check(%r, %d) = %s, tokens %s' % (text, cur, res, tokens)
    out = replay.ask('hl %s %d' % (core_hex(text), cur))
    if out.startswith(('PANIC', 'ABORT')): return True, 'highlight(%r, %d): %s' % (text, cur, out)
    from vlib.core import unhexs
    o = unhexs(out.split()[1])
    got = decode_output([ord(c) for c in text], [ord(c) for c in o])
    if got == 'garbled': return True, 'highlight(%r, %d) = %r: not the text with one underline pair' % (text, cur, o)
    boff = [0]
    for c in text: boff.append(boff[-1] + len(c.encode()))
    got_span = None if got is None else (boff[got[0]], boff[got[1]])
    acc = acceptable(tokens, cur)
    return (got_span not in acc), 'highlight(%r, %d) underlines %s; acceptable: %s' % (text, cur, got_span, sorted(acc, key=str))


def core_hex(t):
    from vlib.core import hexs
    return hexs(t)


FUNCTIONS = ['syntax::ReplHighlighter::highlight', 'syntax::ReplHighlighter::highlight_check', 'syntax::find_token_at_cursor',
             'syntax::find_token_at_index', 'syntax::find_matching_bracket', 'lex::scan', 'lex::scan_simple_token',
             'lex::scan_hash_token', 'lex::scan_dot', 'lex::scan_string', 'lex::scan_symbol', 'lex::scan_number',
             'lex::scan_char', 'lex::scan_comment', 'lex::is_initial_identifier', 'lex::is_subsequent_identifier',
             'lex::is_initial_number', 'lex::is_subsequent_number', 'lex::is_special_subsequent', 'lex::Token::new']


def run(chk, ws, prog, tier, replays):
    dev, rel = replays
    textgen.load_chartable(prog, dev)
    SCAN = prog.resolve_crate('lex::scan')
    prog.observers[SCAN] = lambda it, args, r: it.ghost.setdefault('scan', []).append(r)
    for n_ in ('is_initial_identifier', 'is_subsequent_identifier', 'is_subsequent_number', 'is_initial_number', 'is_special_subsequent'):
        prog.pure.add(prog.resolve_crate(n_))
    prog.memo_str.add(SCAN)
    # (n, non-ASCII representatives?, all shorter lengths too?)
    plan = [(3, True, True), (4, False, False)] if tier == 'quick' else [(4, True, True), (5, False, False)]
    for n, non_ascii, shorter in plan:
        for k in (range(0, n + 1) if shorter else [n]):
            h, on_panic = make_harness(prog, k, 'both', non_ascii)
            name = 'highlight+check/n=%d/%s' % (k, 'ascii+8 non-ascii representatives' if non_ascii else 'ascii')
            print('  harness %s' % name, flush=True)
            res = explore(prog, h, opts={'on_panic': on_panic, 'paranoid': k <= 2})
            chk.add_result(name, res, FUNCTIONS, {'text_chars': k, 'alphabet': 'per position: symbolic 7-bit ASCII' + (' or one of U+00E9 U+00D7 U+00A0 U+03BB U+2003 U+3042 U+FF08 U+1F600' if non_ascii else ''),
                                                   'cursor': 'symbolic usize in 0..=bytes+2'})
            for v in res.violations:
                req = v['request']
                if req.get('text') is None:
                    chk.inconclusive.append('%s: panic path without concrete text: %s' % (name, v['what']))
                    continue
                bad_dev, d1 = native_verdict(dev, req)
                bad_rel, d2 = native_verdict(rel, req)
                chk.violation(v['key'], d1 if bad_dev else d2, req, bad_dev or bad_rel)
    chk.models.update(['std iterators (CharIndices, Peekable, slice::Iter, Rev, Enumerate, Box<dyn Iterator>)', 'str byte slicing with char-boundary panics',
                       'Vec<Token>', 'fmt::Arguments template decoding (format!)', 'char::is_alphabetic/is_whitespace: exact on ASCII, table from the real library for the 8 representatives'])
    chk.assumptions += ['library models of std iterators/str/Vec/format! are faithful (validated differentially against the native build on every run)',
                        'non-ASCII characters other than the 8 representatives are outside the claim']
    chk.outside += ['texts longer than the bound', 'non-ASCII characters other than the representatives']


def replay_request(req, replays):
    bad, desc = native_verdict(replays[0], req)
    bad2, desc2 = native_verdict(replays[1], req)
    return bad or bad2, desc if bad else desc2
