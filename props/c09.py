"""C09 -- numeric comparison is one consistent total order across representations.

Engine M (MIR of the current tree): `impl PartialEq for Number::eq` and `impl PartialOrd for Number::partial_cmp`, all
16 ordered representation pairs, payloads symbolic at full width (Fixnum: any i64; Float: any non-NaN double; BigInt:
any integer with |x| <= 2^66; Rational: any i32 numerator over any positive i32 denominator), against an exact oracle
kept inside the bit-vector + floating-point theories; the folds of builtin/number.rs (= < > <= >= on 2..3 operands,
min, max, zero?, positive?, negative?) on fabricated argument stacks.
Engine K (Kani on the compiled crate) re-decides the arms over {Fixnum, Float} and Fixnum/BigInt.
Transitivity and the variadic conjunction follow from agreement with a total order on values (argued, not re-proved).
"""
import z3
from mirsym.values import *
from mirsym.explore import explore
from mirsym import models_vm, models_num
from . import numsym as N
from . import builtins as B
from .vmfab import Fab
from vlib import core, kani

KANI_QUICK = ['c09_cmp_fix_fix', 'c09_cmp_float_float', 'c09_cmp_fix_float', 'c09_cmp_float_fix', 'c09_cmp_fix_rational_out_of_i32', 'c09_eq_fix_big']
KANI_THOROUGH = KANI_QUICK + ['c09_cmp_fix_big', 'c09_cmp_big_fix', 'c09_cmp_big_big']

# recorded defect classes (known_findings.json): the check assumes their negation so that the rest of the arm is
# still decided, and separately confirms that the recorded witness still fails
# at most one small odd factor: deciding whether n1*d2 = n2*d1 has a solution for two large coprime odd constants is a
# Diophantine question the bit-blasting back end does not finish (measured: 900 s, unknown)
DENOMS_QUICK = [1, 2, 3, 12, 1 << 16, 1 << 30]
DENOMS_THOROUGH = DENOMS_QUICK + [4, 6, 8, 16, 24, 256, 32768, 3 << 20, 1 << 29]

KNOWN_CLASS = {
    ('BigInt', 'Float'): 'bigint-float-compared-through-rounded-conversion',
    ('Float', 'BigInt'): 'bigint-float-compared-through-rounded-conversion',
    ('Float', 'Rational'): 'float-rational-compared-through-rounded-quotient',
    ('Rational', 'Float'): 'float-rational-compared-through-rounded-quotient',
}


def outside_known_class(it, ra, rb, da, db):
    """constraint describing the inputs of an arm that are NOT in its recorded defect class (None: no class)"""
    if (ra, rb) not in KNOWN_CLASS: return None
    if 'BigInt' in (ra, rb):
        big = da if ra == 'BigInt' else db
        v = big[1]
        return z3.And(v >= -(1 << 53), v <= (1 << 53))            # exactly convertible bignums
    rat = da if ra == 'Rational' else db
    d = rat[2]
    # quotient exactly representable: denominator a power of two (numerator < 2^31 fits the significand)
    if not is_sym(d): return z3.BoolVal(d & (d - 1) == 0)
    return z3.Or([d == (1 << k) for k in range(0, 31)])


def make_arm_harness(prog, ra, rb, which, restrict, denoms):
    CMP = prog.resolve_crate('<Number as PartialOrd>::partial_cmp')
    EQ = prog.resolve_crate('<Number as PartialEq>::eq')

    def harness(it):
        # comparisons do not depend on reducedness: unreduced pairs are a superset (sound for "holds"), and the
        # coprimality constraints (remainders modulo odd primes) would make every query hard
        a, da = N.sym_number(it, ra, 'a', denoms, coprime=False)
        b, db = N.sym_number(it, rb, 'b', denoms, coprime=False)
        it.ghost['desc'] = (da, db, which)
        cls = outside_known_class(it, ra, rb, da, db)
        if cls is not None:
            it.assume(cls if restrict == 'outside' else z3.Not(cls))
        lt, eq = N.exact_cmp(da, db, small_ints=(restrict == 'outside' and 'BigInt' in (ra, rb) and (ra, rb) in KNOWN_CLASS),
                               exact_quotient=(restrict == 'outside' and 'Rational' in (ra, rb) and (ra, rb) in KNOWN_CLASS))
        ra_, rb_ = Ref(Cell(a)), Ref(Cell(b))
        if which == 'cmp':
            r = it.call(CMP, [ra_, rb_])
            if r.var == 0: return viol(it, da, db, 'partial_cmp returned None for non-NaN operands', 'cmp')
            o = r.f[0].var
            want = lt if o == -1 else (eq if o == 0 else z3.And(z3.Not(lt), z3.Not(eq)))
            if not it.must(want):
                return viol(it, da, db, 'partial_cmp says %s but the exact values are ordered differently' % {-1: 'Less', 0: 'Equal', 1: 'Greater'}[o], 'cmp', z3.Not(want))
            it.ghost['tags'] = [{-1: 'Less', 0: 'Equal', 1: 'Greater'}[o]]
        else:
            r = it.call(EQ, [ra_, rb_])
            r = r if isinstance(r, bool) else it.branch(r)
            want = eq if r else z3.Not(eq)
            if not it.must(want):
                return viol(it, da, db, '== is %s but the exact values say otherwise' % r, 'eq', z3.Not(want))
            it.ghost['tags'] = ['eq=%s' % r]
        m = it.witness()
        it.ghost['sample'] = {'a': N.conc(m, da), 'b': N.conc(m, db), 'result': it.ghost['tags'][0]} if m is not None else None
        return None

    def viol(it, da, db, what, op, extra=None):
        m = it.witness(extra) if extra is not None else it.witness()
        if m is None: m = it.witness()
        key = KNOWN_CLASS.get((ra, rb), '%s-%s-%s' % (ra, rb, op)) if restrict == 'inside' else 'arm-%s-%s-%s' % (ra, rb, op)
        return {'what': '%s x %s: %s' % (ra, rb, what), 'key': key, 'request': {'cmd': 'num', 'op': op, 'a': N.conc(m, da), 'b': N.conc(m, db)}}
    return harness


def on_panic(it, e):
    d = it.ghost.get('desc')
    m = it.witness()
    if d is None or m is None: return {'what': 'panic %s' % e, 'key': 'panic', 'request': None}
    return {'what': 'comparison panics: %s' % e, 'key': 'panic:' + e.kind, 'request': {'cmd': 'num', 'op': d[2], 'a': N.conc(m, d[0]), 'b': N.conc(m, d[1])}}


# ----------------------------------------------------------------------------------------- folds (builtins)
def make_fold_harness(prog, table, proc, reps):
    fab = Fab(prog)

    def harness(it):
        f = fab
        A = B.Args(f, it)
        descs = []
        for i, rep in enumerate(reps):
            num, d = N.sym_number(it, rep, 'x%d' % i, DENOMS_QUICK, coprime=False)
            A.value(f.vc('Number', num), ('num', d)); descs.append(d)
        it.ghost['fold'] = (proc, descs)
        vm = A.build()
        vb = Cell(vm)
        r = it.call(table[proc], [Ref(vb)])
        if r.var != 0: return viol(it, proc, descs, 'returned an error for numeric arguments', 'fold-error')
        res = r.f[0]
        k = f.kind(res)
        pairs = [N.exact_cmp(descs[i], descs[i + 1]) for i in range(len(descs) - 1)]
        zero = ('fix', 0)
        if proc in ('=', '<', '>', '<=', '>='):
            if k != 'Bool': return viol(it, proc, descs, 'did not return a boolean', 'fold-kind')
            rel = {'=': lambda lt, eq: eq, '<': lambda lt, eq: lt, '>': lambda lt, eq: z3.And(z3.Not(lt), z3.Not(eq)),
                   '<=': lambda lt, eq: z3.Or(lt, eq), '>=': lambda lt, eq: z3.Not(lt)}[proc]
            want = z3.And([rel(lt, eq) for lt, eq in pairs])
            got = res.f[0] if isinstance(res.f[0], bool) else it.branch(res.f[0])
            if not it.must(want if got else z3.Not(want)):
                return viol(it, proc, descs, 'returns %s: not the conjunction of the exact pairwise relation over adjacent operands' % got, 'fold-' + proc, z3.Not(want) if got else want)
            it.ghost['tags'] = ['%s=%s' % (proc, got)]
        elif proc in ('zero?', 'positive?', 'negative?'):
            lt, eq = N.exact_cmp(descs[0], zero)
            want = {'zero?': eq, 'negative?': lt, 'positive?': z3.And(z3.Not(lt), z3.Not(eq))}[proc]
            got = res.f[0] if isinstance(res.f[0], bool) else it.branch(res.f[0])
            if not it.must(want if got else z3.Not(want)):
                return viol(it, proc, descs, 'returns %s but the exact value compares differently with 0' % got, 'fold-' + proc, z3.Not(want) if got else want)
            it.ghost['tags'] = ['%s=%s' % (proc, got)]
        else:       # min / max: the result is an argument, and it is <= / >= every argument
            if k != 'Number': return viol(it, proc, descs, 'did not return a number', 'fold-kind')
            dr = N.describe(it, res.f[0])
            conds = []
            for d in descs:
                lt, eq = N.exact_cmp(dr, d)
                conds.append(z3.Or(lt, eq) if proc == 'min' else z3.Not(lt))
            isarg = z3.Or([N.exact_cmp(dr, d)[1] for d in descs])
            want = z3.And(conds + [isarg])
            if not it.must(want):
                return viol(it, proc, descs, 'result is not the %s of its arguments' % proc, 'fold-' + proc, z3.Not(want))
            it.ghost['tags'] = [proc]
        m = it.witness()
        it.ghost['sample'] = {'call': [proc] + [N.conc(m, d) for d in descs]} if m is not None else None
        return None

    def viol(it, proc, descs, what, key, extra=None):
        m = it.witness(extra) if extra is not None else None
        if m is None: m = it.witness()
        return {'what': '(%s ...): %s' % (proc, what), 'key': key, 'request': {'cmd': 'fold', 'proc': proc, 'args': [N.conc(m, d) for d in descs]}}
    return harness


# ----------------------------------------------------------------------------------------- native verdicts
def scheme_num(rep):
    k, v = rep[:2], rep[2:]
    if k in ('F:', 'B:'): return v
    if k == 'R:': return v
    import struct
    x = struct.unpack('>d', struct.pack('>Q', int(v, 16)))[0]
    if x == float('inf'): return '(/ 1.0 0.0)'
    return None


def native_verdict(replay, req):
    if req['cmd'] == 'num':
        a, b = req['a'], req['b']
        want = N.py_cmp(a, b)
        if req['op'] == 'cmp':
            out = replay.ask('num cmp %s %s' % (a, b))
            if out.startswith(('PANIC', 'ABORT')): return True, 'partial_cmp(%s, %s): %s' % (a, b, out)
            return out != 'Some(%s)' % want, 'partial_cmp(%s, %s) = %s, exact order: %s' % (a, b, out, want)
        out = replay.ask('num eq %s %s' % (a, b))
        if out.startswith(('PANIC', 'ABORT')): return True, 'eq(%s, %s): %s' % (a, b, out)
        return (out == 'true') != (want == 'Equal'), '(%s == %s) = %s, exact order: %s' % (a, b, out, want)
    if req['cmd'] == 'fold':
        proc, args = req['proc'], req['args']
        vals = [N.value_of(x) for x in args]
        out = replay.ask('numfold %s %s' % (proc, ' '.join(args)))
        if out.startswith(('PANIC', 'ABORT')): return True, '(%s %s): %s' % (proc, ' '.join(args), out)
        def cmp(i, j): return N.py_cmp(args[i], args[j])
        if proc in ('=', '<', '>', '<=', '>='):
            ok = {'=': ('Equal',), '<': ('Less',), '>': ('Greater',), '<=': ('Less', 'Equal'), '>=': ('Greater', 'Equal')}[proc]
            want = all(cmp(i, i + 1) in ok for i in range(len(args) - 1))
            return out != ('B1' if want else 'B0'), '(%s %s) => %s, expected %s' % (proc, ' '.join(args), out, want)
        if proc in ('zero?', 'positive?', 'negative?'):
            c = N.py_cmp(args[0], 'F:0')
            want = {'zero?': c == 'Equal', 'positive?': c == 'Greater', 'negative?': c == 'Less'}[proc]
            return out != ('B1' if want else 'B0'), '(%s %s) => %s, expected %s' % (proc, args[0], out, want)
        # min / max: out is a number repr
        if not out.startswith('N:'): return True, '(%s %s) => %s' % (proc, ' '.join(args), out)
        r = out[2:]
        good = all(N.py_cmp(r, x) in (('Less', 'Equal') if proc == 'min' else ('Greater', 'Equal')) for x in args) and any(N.py_cmp(r, x) == 'Equal' for x in args)
        return not good, '(%s %s) => %s' % (proc, ' '.join(args), r)
    return None, 'unknown request'


FUNCTIONS = ['number::<impl PartialEq for Number>::eq', 'number::<impl PartialOrd for Number>::partial_cmp', 'number::cmp_i64_f64',
             'vm::builtin::number::{num_comp,num_equal,lt,gt,lteq,gteq,min,max,zero,positive,negative,num_unary_predicate}', 'vm::builtin::{pop_argc,pop_number}']


def run(chk, ws, prog, tier, replays):
    dev, rel = replays
    models_vm.install(prog); models_num.install(prog)
    table = B.builtin_table(prog)
    denoms = DENOMS_QUICK if tier == 'quick' else DENOMS_THOROUGH
    prog.rlimit = 400000000
    import threading
    kres = {}
    kt = threading.Thread(target=lambda: kres.update(kani.run(ws, KANI_QUICK if tier == 'quick' else KANI_THOROUGH, timeout=900 if tier == 'quick' else 2400, mem_gb=12, jobs=3)))
    kt.start()
    seen = {}
    def handle(name, res):
        for v in res.violations:
            if v.get('request') is None:
                chk.inconclusive.append('%s: %s' % (name, v['what'])); continue
            if seen.get(v['key'], 0) >= 2: continue
            seen[v['key']] = seen.get(v['key'], 0) + 1
            b1, d1 = native_verdict(dev, v['request'])
            b2, d2 = native_verdict(rel, v['request'])
            chk.violation(v['key'], (d1 if b1 else d2) + ' | ' + v['what'], v['request'], bool(b1) or bool(b2))
    from mirsym.explore import explore_many
    jobs = []
    meta = {}
    for ra in N.REPRS:
        for rb in N.REPRS:
            for which in ('cmp', 'eq'):
                name = 'arm/%s-x-%s/%s%s' % (ra, rb, which, '/outside-recorded-class' if (ra, rb) in KNOWN_CLASS else '')
                jobs.append((name, make_arm_harness(prog, ra, rb, which, 'outside', denoms), {'on_panic': on_panic, 'reuse_solver': False}))
                meta[name] = {'payloads': 'full width; rational denominators from the palette %s' % (denoms,),
                              'restriction': ('inputs outside the recorded defect class ' + KNOWN_CLASS[(ra, rb)]) if (ra, rb) in KNOWN_CLASS else 'none'}
    # recorded defect classes: the witness stored in known_findings.json must still fail natively (else the entry is stale)
    for e in chk.findings.entries:
        if e['status'] != 'known' or 'witness' not in e: continue
        b1, d1 = native_verdict(dev, e['witness'])
        b2, d2 = native_verdict(rel, e['witness'])
        if b1 or b2: chk.violation(e['key'], (d1 if b1 else d2), e['witness'], True)
        else: chk.extra.setdefault('stale_known_findings', []).append(e['key'])
    folds = []
    cheap2 = [('Fixnum', 'Fixnum'), ('Float', 'Float'), ('Fixnum', 'BigInt'), ('Rational', 'Fixnum')]
    mixed2 = [('Fixnum', 'Float'), ('Float', 'Fixnum')]          # exact integer-vs-double oracle: ~100 s per harness
    for proc in ('=', '<', '>', '<=', '>='):
        for r2 in cheap2: folds.append((proc, r2))
        folds.append((proc, ('Fixnum', 'Fixnum', 'Fixnum')))
        folds.append((proc, ('Float', 'Float', 'Float')))
        if tier != 'quick' or proc in ('<', '='):
            folds.append((proc, mixed2[0 if proc == '<' else 1]))
        if tier != 'quick':
            folds.append((proc, mixed2[1 if proc == '<' else 0]))
            folds.append((proc, ('Fixnum', 'Float', 'Fixnum')))
    for proc in ('min', 'max'):
        for r2 in cheap2[:2]: folds.append((proc, r2))
        if tier != 'quick' or proc == 'min': folds.append((proc, mixed2[0]))
        if tier != 'quick': folds.append((proc, mixed2[1]))
    for proc in ('zero?', 'positive?', 'negative?'):
        for r1 in N.REPRS: folds.append((proc, (r1,)))
    for proc, reps in folds:
        name = 'fold/%s/%s' % (proc, ','.join(reps))
        jobs.append((name, make_fold_harness(prog, table, proc, reps), {'on_panic': on_panic, 'reuse_solver': False}))
        meta[name] = {'procedure': proc, 'operand representations': list(reps)}
    # the harnesses have few paths each (the cost is in the exact integer-vs-double queries): run them side by side
    for name, res in explore_many(prog, jobs, parallel=13, nproc_each=1):
        print('  harness %-62s %s' % (name, res.summary()), flush=True)
        chk.add_result(name, res, FUNCTIONS, meta[name])
        handle(name, res)
    # engine K on the compiled crate
    kt.join()
    ks = kres
    kev = []
    for name, r in sorted(ks.items()):
        kev.append({k: r.get(k) for k in ('harness', 'status', 'solver_time_s', 'wall_s', 'checks', 'cover')})
        chk.queries += r.get('checks') or 0
        chk.solver_time += r.get('solver_time_s') or 0
        if r['status'] == 'ok':
            chk.nontrivial += 1; chk.paths += 1
        elif r['status'] == 'fail':
            pb = r.get('playback')
            chk.inconclusive.append('kani %s found a counterexample that engine M did not report (failures: %s; playback: %s)' % (name, r.get('failures'), pb))
        else:
            chk.inconclusive.append('kani %s: %s (%s)' % (name, r['status'], r.get('tail', '')[-200:]))
    chk.extra['kani_harnesses'] = kev
    chk.functions.update(['KANI: ' + n for n in ks])
    chk.assumptions += ['BigInt::to_f64 and Ratio::to_f64 are correctly rounded (num-bigint / num-rational contract); Ratio comparison is exact',
                        'bignums are bounded to |x| <= 2^66 in engine M and engine K', 'NaN is excluded as the property says',
                        'transitivity and the variadic conjunction follow from agreement with the exact order (argued, not re-proved)']
    chk.outside += ['bignums beyond 2^66', 'correctness of num-bigint / num-rational themselves']


def replay_request(req, replays):
    b1, d1 = native_verdict(replays[0], req)
    b2, d2 = native_verdict(replays[1], req)
    return bool(b1) or bool(b2), d1 if b1 else d2
