"""C11 -- reader discipline: total, exact spans, one datum per parse, incompleteness found.

Encoded (real code from the MIR of the current tree): lex::scan and all scan_*; parse::parse_text, parse,
parse_list, parse_improper_list_tail, parse_vector, parse_number, parse_char, parse_string, the Cell
constructors they call.  Number::parse_with_exactness is replaced by a nondeterministic stub (Some / None):
token discipline does not depend on the value of a numeric literal (C16 covers that).
Oracles: span/gap discipline + prefix stability for the lexer; a reference datum grammar over token types
for the parser (number of tokens consumed, remaining text, Incomplete vs. error).
"""
import z3
from mirsym.values import *
from mirsym.explore import explore
from mirsym.models_core import char_pred
from . import textgen
from vlib.core import hexs, unhexs

STRUCT_ALPHABET = "()[]{}#.'`,\";\\ \na1txe"
LEAN_ALPHABET = "()].'\"# at1"
DOTTED_ALPHABET = "(). a'\""


# --------------------------------------------------------------------------- reference grammar (pure python)
def ref_parse(tokens, first_chars):
    """tokens: list of type names; first_chars: first character (int code point) of each token's span.
    -> ('ok', consumed, leaf_seen) | ('incomplete', leaf_seen) | ('error', consumed_so_far)
    leaf_seen: a Char/String/NumberPrefix token was consumed (its *content* may be rejected by the real parser)."""
    pos = [0]
    leaf = [False]

    class Inc(Exception): pass
    class Err(Exception): pass

    def nxt():
        if pos[0] >= len(tokens): raise Inc()
        t = tokens[pos[0]]; pos[0] += 1
        return t, pos[0] - 1

    def peek():
        if pos[0] >= len(tokens): raise Inc()
        return tokens[pos[0]]

    def datum():
        t, i = nxt()
        if t in ('SingleQuote', 'Quasiquote', 'Unquote'):
            return datum()
        if t == 'RightParen': raise Err()
        if t == 'LeftParen': return lst(i)
        if t == 'HashParen': return vec()
        if t in ('True', 'False', 'Symbol'): return
        if t in ('Char', 'String'):
            leaf[0] = True; return
        if t in ('Number', 'NumberPrefix'):
            while t == 'NumberPrefix':
                leaf[0] = True
                t, i = nxt()
            return
        raise Err()       # Dot, WhiteSpace

    def lst(open_i):
        count = 0
        while True:
            t = peek()
            if t == 'RightParen':
                _, j = nxt()
                o, c = first_chars[open_i], first_chars[j]
                if {ord('('): ord(')'), ord('['): ord(']'), ord('{'): ord('}')}.get(o) != c: raise Err()
                return
            if t == 'Dot':
                nxt()
                if count == 0: raise Err()
                t2 = peek()
                if t2 in ('Dot', 'RightParen'): raise Err()
                datum()
                t3, _ = nxt()
                if t3 != 'RightParen': raise Err()
                return
            datum(); count += 1

    def vec():
        while True:
            t = peek()
            if t == 'RightParen':
                _, j = nxt()
                if first_chars[j] != ord(')'): raise Err()
                return
            if t == 'Dot': raise Err()
            datum()
    try:
        datum()
        return ('ok', pos[0], leaf[0])
    except Inc:
        return ('incomplete', leaf[0])
    except Err:
        return ('error', pos[0], leaf[0])


def gap_ok(it, chars):
    """chars: code points of a gap between tokens (or before the first / after the last).
    -> (ok, ends_in_comment).  Every decision goes through it.branch (the path condition implies them)."""
    in_comment = False
    for c in chars:
        if in_comment:
            if it.branch(it.binop('Eq', c, 10, 'char')): in_comment = False
            continue
        if it.branch(it.binop('Eq', c, ord(';'), 'char')):
            in_comment = True
            continue
        w = char_pred(it, 'is_whitespace', c)
        if not it.branch(w): return False, False
    return True, in_comment


def gap_ok_concrete(s):
    in_comment = False
    for ch in s:
        if in_comment:
            if ch == '\n': in_comment = False
            continue
        if ch == ';': in_comment = True; continue
        if not ch.isspace(): return False, False
    return True, in_comment


def make_lexer_harness(prog, n, non_ascii):
    SCAN = prog.resolve_crate('lex::scan')
    TT = prog.enums['TokenType']

    def harness(it):
        text, chars = textgen.sym_text(it, n, non_ascii=non_ascii)
        it.ghost['chars'] = chars
        widths = [w for _, w in text.obj.chars]
        offs = [0]
        for w in widths: offs.append(offs[-1] + w)
        nbytes = offs[-1]
        r = it.call(SCAN, [text])
        if r.var != 0:
            it.ghost['tags'] = ['lex-err']
            return None
        toks = [(t.f[0].f[0], t.f[0].f[1], TT[t.f[1].var]) for t in r.f[0]]
        prev = 0
        for k, (a, b, ty) in enumerate(toks):
            if not (a < b): return viol(it, chars, 'empty or inverted span %s' % ((a, b),), 'span-empty')
            if b > nbytes: return viol(it, chars, 'span %s out of bounds (%d bytes)' % ((a, b), nbytes), 'span-bounds')
            if a not in offs or b not in offs: return viol(it, chars, 'span %s not on char boundaries' % ((a, b),), 'span-boundary')
            if a < prev: return viol(it, chars, 'span %s overlaps previous token ending at %d' % ((a, b), prev), 'span-order')
            ok, in_c = gap_ok(it, chars[offs.index(prev):offs.index(a)])
            if not ok or in_c:
                return viol(it, chars, 'gap before token %d (%s) is not whitespace/comments' % (k, (a, b)), 'gap')
            prev = b
        ok, _ = gap_ok(it, chars[offs.index(prev):])
        if not ok: return viol(it, chars, 'trailing gap after last token is not whitespace/comments', 'gap')
        # prefix stability: scanning the text cut after token k yields the same first k+1 tokens
        for k, (a, b, ty) in enumerate(toks):
            if b == nbytes and k == len(toks) - 1: continue
            pre = StrRef(text.obj, 0, offs.index(b))
            r2 = it.call(SCAN, [pre])
            if r2.var != 0:
                return viol(it, chars, 'prefix cut after token %d does not lex although the full text does' % k, 'prefix-stability')
            toks2 = [(t.f[0].f[0], t.f[0].f[1], TT[t.f[1].var]) for t in r2.f[0]]
            if toks2 != toks[:k + 1]:
                return viol(it, chars, 'prefix cut after token %d lexes to %s, expected %s' % (k, toks2, toks[:k + 1]), 'prefix-stability')
        it.ghost['tags'] = ['tokens=%d' % len(toks)]
        m = it.witness()
        it.ghost['sample'] = {'text': textgen.concretize_text(m, chars), 'tokens': toks} if m is not None else None
        return None

    def viol(it, chars, what, key):
        m = it.witness()
        return {'what': what, 'key': key, 'request': {'cmd': 'lexcheck', 'text': textgen.concretize_text(m, chars)}}

    def on_panic(it, e):
        m = it.witness(); chars = it.ghost.get('chars')
        if m is None or chars is None: return {'what': 'panic %s' % e, 'key': 'panic', 'request': {'cmd': 'lexcheck', 'text': None}}
        return {'what': 'panic in lexer: %s' % e, 'key': 'panic:' + e.kind, 'request': {'cmd': 'lexcheck', 'text': textgen.concretize_text(m, chars)}}
    return harness, on_panic


def make_parser_harness(prog, n, alphabet):
    SCAN = prog.resolve_crate('lex::scan')
    PT = prog.resolve_crate('parse_text')
    TT = prog.enums['TokenType']
    PE = prog.enums['parse::Error']

    def harness(it):
        if alphabet is None:
            text, chars = textgen.sym_text(it, n, non_ascii=False)
        else:
            chars = []
            for i in range(n):
                c = it.sym_char('c%d' % i, 1)
                it.assume(z3.Or([c == ord(x) for x in alphabet]))
                chars.append(c)
            text = StrRef(StrObj([(c, 1) for c in chars]), 0, n)
        it.ghost['chars'] = chars
        it.ghost['scan'] = []
        r = it.call(PT, [text])
        lexed = it.ghost['scan'][0] if it.ghost['scan'] else None
        if lexed is None or lexed.var != 0:
            # lexing failed: parse_text must report the lexer's error
            if r.var != 1 or PE[r.f[0].var] != 'LexError':
                return viol(it, chars, 'lexing failed but parse_text did not return the lexer error', 'lexerror-dropped')
            it.ghost['tags'] = ['lex-err']
            return None
        toks = [(t.f[0].f[0], t.f[0].f[1], TT[t.f[1].var]) for t in lexed.f[0]]
        firsts = []
        for a, b, ty in toks:
            c = chars[a]
            if is_sym(c) and ty in ('LeftParen', 'RightParen'): c = it.concretize(c)
            firsts.append(c)
        ref = ref_parse([t[2] for t in toks], firsts)
        if r.var == 0:
            cell, rest = r.f[0].f
            if ref[0] != 'ok':
                return viol(it, chars, 'parse_text returned a datum but the reference grammar says %s (tokens %s)' % (ref[0], toks), 'accepts-' + ref[0])
            k = ref[1]
            if k < 1: return viol(it, chars, 'no token consumed', 'consumed')
            if k == len(toks):
                if rest.var != 0:
                    return viol(it, chars, 'all %d tokens belong to the datum but remaining text is reported' % k, 'rest-not-none')
            else:
                if rest.var != 1:
                    return viol(it, chars, 'datum ends after token %d of %d but no remaining text is reported' % (k, len(toks)), 'rest-none')
                rs = rest.f[0]
                want_a = toks[k][0]
                if not (isinstance(rs, StrRef) and rs.obj is text.obj and rs.a == want_a and rs.b == n):
                    return viol(it, chars, 'remaining text is not the suffix starting at the next token (byte %d): got %r' % (want_a, rs), 'rest-wrong')
            # cut clause: every token-boundary prefix inside the datum is Incomplete
            for j in range(1, k):
                pre = StrRef(text.obj, 0, toks[j - 1][1])
                r2 = it.call(PT, [pre])
                if not (r2.var == 1 and PE[r2.f[0].var] == 'Incomplete'):
                    if r2.var == 1 and ref[2]: continue        # leaf content error surfaces first
                    return viol(it, chars, 'text cut after token %d of a %d-token datum is not reported incomplete: %r' % (j, k, r2), 'cut-not-incomplete')
            it.ghost['tags'] = ['ok', 'consumed=%d/%d' % (k, len(toks))]
        else:
            err = PE[r.f[0].var]
            if err == 'Incomplete':
                if ref[0] != 'incomplete':
                    return viol(it, chars, 'reported Incomplete but the reference grammar says %s (tokens %s)' % (ref[0], toks), 'incomplete-vs-' + ref[0])
            else:
                if ref[0] == 'ok' and not ref[2]:
                    return viol(it, chars, 'complete datum rejected with %s (tokens %s)' % (err, toks), 'rejects-ok')
                if ref[0] == 'incomplete' and not ref[1]:
                    return viol(it, chars, 'incomplete datum reported as error %s (tokens %s)' % (err, toks), 'error-vs-incomplete')
            it.ghost['tags'] = ['err:' + err]
        m = it.witness()
        it.ghost['sample'] = {'text': textgen.concretize_text(m, chars), 'tokens': [t[2] for t in toks], 'reference': ref[0]} if m is not None else None
        return None

    def viol(it, chars, what, key):
        m = it.witness()
        return {'what': what, 'key': key, 'request': {'cmd': 'parsecheck', 'text': textgen.concretize_text(m, chars)}}

    def on_panic(it, e):
        m = it.witness(); chars = it.ghost.get('chars')
        if m is None or chars is None: return {'what': 'panic %s' % e, 'key': 'panic', 'request': {'cmd': 'parsecheck', 'text': None}}
        return {'what': 'panic in parser: %s' % e, 'key': 'panic:' + e.kind, 'request': {'cmd': 'parsecheck', 'text': textgen.concretize_text(m, chars)}}
    return harness, on_panic


# --------------------------------------------------------------------------- native verdicts (same oracles, concrete)
def native_tokens(replay, text):
    out = replay.ask('lex ' + hexs(text))
    if out.startswith(('PANIC', 'ABORT')): return 'panic', out
    if not out.startswith('OK'): return 'err', out
    toks = []
    for t in out.split()[2:]:
        lo, hi, ty = t.split(',')
        toks.append((int(lo), int(hi), ty))
    return 'ok', toks


def native_lexcheck(replay, text):
    st, toks = native_tokens(replay, text)
    if st == 'panic': return True, 'lex::scan(%r): %s' % (text, toks)
    if st == 'err': return False, 'lex error'
    b = text.encode('utf-8')
    bounds = {0}
    o = 0
    for ch in text:
        o += len(ch.encode()); bounds.add(o)
    prev = 0
    for k, (lo, hi, ty) in enumerate(toks):
        if not lo < hi or hi > len(b) or lo not in bounds or hi not in bounds or lo < prev:
            return True, 'scan(%r): bad span %s' % (text, (lo, hi))
        ok, inc = gap_ok_concrete(b[prev:lo].decode())
        if not ok or inc: return True, 'scan(%r): gap before token %d is not whitespace/comment' % (text, k)
        prev = hi
    ok, _ = gap_ok_concrete(b[prev:].decode())
    if not ok: return True, 'scan(%r): trailing gap is not whitespace/comment' % text
    for k, (lo, hi, ty) in enumerate(toks):
        st2, toks2 = native_tokens(replay, b[:hi].decode())
        if st2 != 'ok' or toks2 != toks[:k + 1]:
            return True, 'scan(%r) = %s but scan of the prefix %r = %s' % (text, toks, b[:hi].decode(), toks2)
    return False, 'scan(%r) ok' % text


def native_parsecheck(replay, text):
    st, toks = native_tokens(replay, text)
    out = replay.ask('parse ' + hexs(text))
    if out.startswith(('PANIC', 'ABORT')): return True, 'parse_text(%r): %s' % (text, out)
    if st == 'panic': return True, 'lex panic'
    if st == 'err':
        return (not out.startswith('ERR') or 'LexError' not in unhexs(out.split()[1])), 'parse_text(%r) with lex error -> %s' % (text, out)
    b = text.encode()
    ref = ref_parse([t[2] for t in toks], [b[t[0]] for t in toks])
    if out.startswith('OK'):
        rest = out.split()[2]
        if ref[0] != 'ok': return True, 'parse_text(%r) returned a datum, reference grammar: %s' % (text, ref[0])
        k = ref[1]
        if k == len(toks):
            if rest != 'REST:NONE': return True, 'parse_text(%r): datum uses all tokens but rest = %s' % (text, rest)
        else:
            if rest != 'REST:%d' % toks[k][0]: return True, 'parse_text(%r): rest %s, expected suffix at byte %d' % (text, rest, toks[k][0])
        for j in range(1, k):
            o2 = replay.ask('parse ' + hexs(b[:toks[j - 1][1]].decode()))
            if not (o2.startswith('ERR') and unhexs(o2.split()[1]) == 'Incomplete'):
                if o2.startswith('ERR') and ref[2]: continue
                return True, 'parse_text(%r) (text cut after token %d) = %s, expected Incomplete' % (b[:toks[j - 1][1]].decode(), j, o2)
        return False, 'ok'
    err = unhexs(out.split()[1])
    if err == 'Incomplete':
        return ref[0] != 'incomplete', 'parse_text(%r) = Incomplete, reference grammar: %s' % (text, ref[0])
    if ref[0] == 'ok' and not ref[2]: return True, 'parse_text(%r) = Err(%s) but the datum is complete' % (text, err)
    if ref[0] == 'incomplete' and not ref[1]: return True, 'parse_text(%r) = Err(%s) but the datum is incomplete' % (text, err)
    return False, 'ok'


def native_verdict(replay, req):
    if req['cmd'] == 'lexcheck': return native_lexcheck(replay, req['text'])
    return native_parsecheck(replay, req['text'])


FUNCTIONS = ['lex::scan', 'lex::scan_simple_token', 'lex::scan_hash_token', 'lex::scan_dot', 'lex::scan_string', 'lex::scan_symbol',
             'lex::scan_number', 'lex::scan_char', 'lex::scan_comment', 'lex::is_*', 'parse::parse_text', 'parse::parse', 'parse::parse_list',
             'parse::parse_improper_list_tail', 'parse::parse_vector', 'parse::parse_number', 'parse::parse_char', 'parse::parse_string',
             'cell::Cell::new_list', 'cell::Cell::new_improper_list', 'cell::Cell::construct_list', 'cell::Cell::new_symbol', 'char::named_to_char',
             '<parse::Error as From<lex::Error>>::from']


def install_stubs(prog):
    """Number::parse_with_exactness -> nondeterministic Some(opaque fixnum) / None (value irrelevant to token discipline)"""
    name = prog.resolve_crate('Number::parse_with_exactness')
    def stub(it, m, a):
        if it.choose(2) == 0:
            return mk_some(Agg('Number', 0, [z3.BitVec('numlit%d' % len(it.taken), 64)]))
        return mk_none()
    prog.exact['Number::parse_with_exactness'] = stub
    return name


def run(chk, ws, prog, tier, replays):
    dev, rel = replays
    textgen.load_chartable(prog, dev)
    SCAN = prog.resolve_crate('lex::scan')
    prog.observers[SCAN] = lambda it, args, r: it.ghost.setdefault('scan', []).append(r)
    for n_ in ('is_initial_identifier', 'is_subsequent_identifier', 'is_subsequent_number', 'is_initial_number', 'is_special_subsequent'):
        prog.pure.add(prog.resolve_crate(n_))
    install_stubs(prog)
    plans = []
    if tier == 'quick':
        plans += [('lexer', k, True) for k in range(0, 4)] + [('lexer', 4, False)]
        plans += [('parser', k, None) for k in range(0, 4)] + [('parser', 4, STRUCT_ALPHABET), ('parser', 5, LEAN_ALPHABET), ('parser', 6, DOTTED_ALPHABET)]
    else:
        plans += [('lexer', k, True) for k in range(0, 5)] + [('lexer', 5, False)]
        plans += [('parser', k, None) for k in range(0, 5)] + [('parser', 5, STRUCT_ALPHABET), ('parser', 6, LEAN_ALPHABET), ('parser', 7, DOTTED_ALPHABET)]
    for kind, n, arg in plans:
        if kind == 'lexer':
            h, on_panic = make_lexer_harness(prog, n, arg)
            name = 'lexer/n=%d/%s' % (n, 'ascii+8 non-ascii representatives' if arg else 'ascii')
            bounds = {'text_chars': n, 'alphabet': 'symbolic 7-bit ASCII' + (' or 8 non-ASCII representatives' if arg else '')}
        else:
            h, on_panic = make_parser_harness(prog, n, arg)
            name = 'parser/n=%d/%s' % (n, ('alphabet ' + repr(arg)) if arg else 'ascii')
            bounds = {'text_chars': n, 'alphabet': ('symbolic char constrained to ' + repr(arg)) if arg else 'symbolic 7-bit ASCII'}
        print('  harness %s' % name, flush=True)
        res = explore(prog, h, opts={'on_panic': on_panic, 'paranoid': n <= 2})
        chk.add_result(name, res, FUNCTIONS, bounds)
        for v in res.violations:
            req = v['request']
            if req.get('text') is None:
                chk.inconclusive.append('%s: violation path without concrete text: %s' % (name, v['what'])); continue
            b1, d1 = native_verdict(dev, req)
            b2, d2 = native_verdict(rel, req)
            chk.violation(v['key'], (d1 if b1 else d2) + ' | symbolic: ' + v['what'], req, b1 or b2)
    chk.models.update(['std iterators (CharIndices, Peekable, slice::Iter)', 'Vec<Token>, Vec<Cell>, Box<Cell>, String', 'str slicing with char-boundary panics',
                       'u32::from_str_radix, char::from_u32', 'STUB: Number::parse_with_exactness -> nondeterministic Some/None',
                       'char::is_alphabetic/is_whitespace exact on ASCII + table for 8 representatives'])
    chk.assumptions += ['Number::parse_with_exactness replaced by a nondeterministic stub (its value cannot influence token discipline; both outcomes explored)',
                        'parser errors other than Incomplete are accepted where a Char/String/NumberPrefix token content may be rejected (leaf content is C10/C16 territory)']
    chk.outside += ['texts longer than the bound', 'non-ASCII characters other than the representatives', 'front-end loops of marwood-repl / marwood-wasm (they iterate parse_text)']


def replay_request(req, replays):
    b1, d1 = native_verdict(replays[0], req)
    b2, d2 = native_verdict(replays[1], req)
    return b1 or b2, d1 if b1 else d2
