"""C14 -- list and vector procedures match their specification and preserve identity (procedures written in Rust).

Encoded (real code): builtin/list.rs, builtin/vector.rs, vm/vector.rs, compare.rs (equal?), pop_* helpers, on a
fabricated heap: three atom cells, lists of length 0..3 (proper, improper) whose element pointers are solver
variables ranging over the atoms (so aliasing is explored), vectors of length 0..3, indices symbolic i64 in
-1..len+2 or i64::MAX.  Oracle: a reference store model -- returned value, Err exactly for out-of-range indices /
improper lists, frame condition (no other cell changes), identity (stored pointers are the argument pointers).
"""
import re
import z3
from mirsym.values import *
from mirsym.explore import explore
from mirsym.models_core import values_equal, clone_val
from mirsym import models_vm
from . import builtins as B
from .vmfab import Fab
from vlib.core import hexs, unhexs

BIG = [(1 << 63) - 1]
NATOMS = 3


class H:
    def __init__(s, prog, fab, it, table):
        s.prog, s.f, s.it, s.table = prog, fab, it, table
        f = fab
        s.cells = [f.fixnum(100 + i) for i in range(NATOMS)]     # atoms at 0..2
        s.stack = []
        s.desc = []
        s.nsym = 0
        s.proc = None

    # ---- argument builders (return heap indices / symbolic values)
    def atom_ptr(s, name):
        p = z3.BitVec(name, 64)
        s.it.assume(z3.ULT(p, NATOMS))
        return p

    def mk_list(s, n, tail='nil', name='e'):
        """list of n elements whose car pointers are symbolic atoms; tail 'nil' or 'atom' (improper).
        returns (head index or nil index, [car pointer terms])"""
        f = s.f
        cars = [s.atom_ptr('%s%d' % (name, i)) for i in range(n)]
        if tail == 'nil':
            s.cells.append(f.vc('Nil')); t = len(s.cells) - 1
        else:
            t = 2          # improper tail: atom cell 2
        idxs = []
        nxt = t
        base = len(s.cells)
        # allocate pairs back to front so that cdr pointers are known
        for i in range(n - 1, -1, -1):
            s.cells.append(f.pair(cars[i], nxt)); nxt = len(s.cells) - 1
        return nxt, cars, t

    def mk_vec(s, elems):
        s.cells.append(s.f.vector(list(elems)))
        return len(s.cells) - 1

    def push_ptr(s, i, desc):
        s.stack.append(s.f.ptr(i)); s.desc.append(desc)

    def push_idx(s, name, lo, hi):
        v = z3.BitVec(name, 64)
        s.it.assume(z3.Or(z3.And(v >= lo, v <= hi), *[v == b for b in BIG]))
        s.stack.append(s.f.fixnum(v)); s.desc.append(('int', v))
        return v

    def call(s, proc):
        f = s.f
        s.proc = proc
        cap = (len(s.cells) + 16) // 4 * 4
        heap = f.heap(s.cells, cap)
        st = [f.vc('Undefined')] + s.stack + [f.vc('ArgumentCount', len(s.stack))] + [f.vc('Undefined')] * 3
        s.vm = f.vm(heap, f.stack(st, len(s.stack) + 1))
        s.pre = [clone_val(s.it, c) for c in B.heap_cells(f, s.vm)]
        s.npre = len(s.cells)
        s.it.ghost['h'] = s
        vmb = Cell(s.vm)
        r = s.it.call(s.table[proc], [Ref(vmb)])
        s.vm = vmb.v
        if r.var == 0:
            v = r.f[0]
            # CALL places non-pointer results on the heap (maybe_put): model that step for aggregates
            return ('ok', v)
        return ('err', s.prog.enums['error::Error'][r.f[0].var])

    def cells_now(s): return B.heap_cells(s.f, s.vm)

    def conc(s, v): return s.it.concretize(v) if is_sym(v) else v

    def sint(s, v):
        v = s.conc(v)
        return v - (1 << 64) if v >= 1 << 63 else v

    def deref_ptr(s, v):
        """VCell -> heap index if Ptr else None"""
        if s.f.kind(v) == 'Ptr': return s.conc(v.f[0])
        return None

    def resolve(s, i):
        """follow Ptr cells"""
        c = s.cells_now()[i]
        while s.f.kind(c) == 'Ptr':
            i = s.conc(c.f[0]); c = s.cells_now()[i]
        return i, c

    def walk_list(s, v, limit=12):
        """-> ([car indices], tail index) following cdr pointers from VCell v (Ptr or Pair)"""
        f = s.f
        cars = []
        if f.kind(v) == 'Ptr':
            i, c = s.resolve(s.conc(v.f[0]))
        else:
            i, c = None, v
        n = 0
        while f.kind(c) == 'Pair' and n < limit:
            cars.append(s.conc(c.f[0]))
            i, c = s.resolve(s.conc(c.f[1]))
            n += 1
        return cars, i, c

    def frame(s, allowed=()):
        """every pre-existing heap cell outside `allowed` is unchanged"""
        now = s.cells_now()
        for i in range(s.npre):
            if i in allowed: continue
            if not s.it.must(values_equal(s.it, now[i], s.pre[i])):
                return s.bad('cell %d changed although it is not the target of the operation: %r -> %r' % (i, s.pre[i], now[i]), s.proc + '-frame')
        return None

    def request(s):
        m = s.it.witness()
        return {'cmd': 'c14', 'proc': s.proc, 'shape': s.shape, 'vars': {d.name(): m[d].as_long() for d in m.decls()} if m is not None else {}}

    def bad(s, what, key):
        return {'what': '%s: %s' % (s.proc, what), 'key': key, 'request': s.request()}


def idx_ok(k, n): return 0 <= k < n


# --------------------------------------------------------------------------------------------- cases
def case_car_cdr(h, which, n, tail):
    head, cars, t = h.mk_list(n, tail)
    h.shape = [which, n, tail]
    h.push_ptr(head, ('list', n, tail))
    got = h.call(which)
    if n == 0:
        return (None if got[0] == 'err' else h.bad('expected an error on a non-pair', which + '-type')) or h.frame()
    if got[0] != 'ok': return h.bad('unexpected error %s' % got[1], which)
    p = h.deref_ptr(got[1])
    want = h.conc(cars[0]) if which == 'car' else h.conc(h.pre[head].f[1])
    if p != want: return h.bad('returns cell %s, expected the very object at %d' % (p, want), which + '-identity')
    return h.frame()


def case_cons(h):
    a, b = h.atom_ptr('a'), h.atom_ptr('b')
    h.shape = ['cons']
    h.stack += [h.f.ptr(a), h.f.ptr(b)]; h.desc += [('ptr', a), ('ptr', b)]
    got = h.call('cons')
    if got[0] != 'ok' or h.f.kind(got[1]) != 'Pair': return h.bad('did not return a pair', 'cons')
    if h.conc(got[1].f[0]) != h.conc(a) or h.conc(got[1].f[1]) != h.conc(b):
        return h.bad('pair fields are not the argument objects', 'cons-identity')
    return h.frame()


def case_set(h, which, n, tail):
    head, cars, t = h.mk_list(n, tail)
    v = h.atom_ptr('v')
    h.shape = [which, n, tail]
    h.push_ptr(head, ('list', n, tail)); h.stack.append(h.f.ptr(v)); h.desc.append(('ptr', v))
    got = h.call(which)
    if n == 0:
        return (None if got[0] == 'err' else h.bad('expected an error on a non-pair', which + '-type')) or h.frame()
    if got[0] != 'ok': return h.bad('unexpected error %s' % got[1], which)
    now = h.cells_now()[head]
    if h.f.kind(now) != 'Pair': return h.bad('target is no longer a pair', which + '-effect')
    car, cdr = h.conc(now.f[0]), h.conc(now.f[1])
    wcar = h.conc(v) if which == 'set-car!' else h.conc(cars[0])
    wcdr = h.conc(v) if which == 'set-cdr!' else h.conc(h.pre[head].f[1])
    if (car, cdr) != (wcar, wcdr): return h.bad('pair is (%d . %d), expected (%d . %d)' % (car, cdr, wcar, wcdr), which + '-effect')
    return h.frame(allowed=(head,))


def case_list_ref(h, which, n, tail):
    head, cars, t = h.mk_list(n, tail)
    h.shape = [which, n, tail]
    h.push_ptr(head, ('list', n, tail))
    k = h.push_idx('k', -1, n + 2)
    got = h.call(which)
    kv = h.sint(k)
    if which == 'list-ref':
        ok = 0 <= kv < n
    else:
        ok = 0 <= kv <= n
    if n == 0 and tail == 'atom' and kv == 0:
        return h.frame()                 # (list-tail obj 0) / (list-ref obj 0) on a non-list: either answer is defensible
    if not ok:
        return (None if got[0] == 'err' else h.bad('index %d out of range for a list of %d pairs, expected an error, got %r' % (kv, n, got[1]), which + '-range')) or h.frame()
    if got[0] != 'ok': return h.bad('valid index %d rejected with %s' % (kv, got[1]), which)
    p = h.deref_ptr(got[1])
    if which == 'list-ref':
        want = h.conc(cars[kv])
    else:
        want = head
        for _ in range(kv): want = h.conc(h.pre[want].f[1])
    if p is None or h.resolve(p)[0] != h.resolve(want)[0]:
        return h.bad('returns cell %s, expected the very object at %d' % (p, want), which + '-identity')
    return h.frame()


def case_reverse(h, n, tail):
    head, cars, t = h.mk_list(n, tail)
    h.shape = ['reverse', n, tail]
    h.push_ptr(head, ('list', n, tail))
    got = h.call('reverse')
    if tail != 'nil' and n > 0:
        return (None if got[0] == 'err' else h.bad('improper list accepted', 'reverse-improper')) or h.frame()
    if tail != 'nil' and n == 0:
        return (None if got[0] == 'err' else h.bad('non-list accepted', 'reverse-type')) or h.frame()
    if got[0] != 'ok': return h.bad('unexpected error %s' % got[1], 'reverse')
    rc, ti, tc = h.walk_list(got[1])
    if h.f.kind(tc) != 'Nil': return h.bad('result is not a proper list', 'reverse')
    if rc != [h.conc(c) for c in reversed(cars)]: return h.bad('elements %s, expected %s' % (rc, [h.conc(c) for c in reversed(cars)]), 'reverse-identity')
    # freshness: no pair of the result is a pair of the argument
    if n > 0:
        p = h.deref_ptr(got[1])
        seen = set()
        while p is not None and h.f.kind(h.cells_now()[p]) == 'Pair' and len(seen) < 10:
            if p < h.npre: return h.bad('result shares the pair %d with its argument' % p, 'reverse-fresh')
            seen.add(p); p = h.conc(h.cells_now()[p].f[1])
    return h.frame()


def case_append(h, n1, tail1, n2):
    h1, c1, t1 = h.mk_list(n1, tail1, 'a')
    h2, c2, t2 = h.mk_list(n2, 'nil', 'b')
    h.shape = ['append', n1, tail1, n2]
    h.push_ptr(h1, ('list', n1, tail1)); h.push_ptr(h2, ('list', n2, 'nil'))
    got = h.call('append')
    if tail1 != 'nil':
        return (None if got[0] == 'err' else h.bad('improper first list accepted', 'append-improper')) or h.frame()
    if got[0] != 'ok': return h.bad('unexpected error %s' % got[1], 'append')
    rc, ti, tc = h.walk_list(got[1])
    want = [h.conc(c) for c in c1] + [h.conc(c) for c in c2]
    if h.f.kind(tc) != 'Nil' or rc != want: return h.bad('elements %s, expected %s' % (rc, want), 'append-identity')
    # the last argument is shared, not copied: after n1 pairs the spine must be the second list itself
    p = h.deref_ptr(got[1])
    for _ in range(n1):
        if p is None: break
        if p < h.npre: return h.bad('result shares pair %d with its first argument (must be a fresh copy)' % p, 'append-fresh')
        p = h.conc(h.cells_now()[p].f[1])
    if p is None or h.resolve(p)[0] != h.resolve(h2)[0]: return h.bad('the last argument is not shared as the tail', 'append-share')
    return h.frame()


def case_vector_ref(h, n):
    elems = [h.atom_ptr('e%d' % i) for i in range(n)]
    vi = h.mk_vec([h.f.ptr(e) for e in elems])
    h.shape = ['vector-ref', n]
    h.push_ptr(vi, ('vec', n)); k = h.push_idx('k', -1, n + 2)
    got = h.call('vector-ref')
    kv = h.sint(k)
    if not idx_ok(kv, n):
        return (None if got[0] == 'err' else h.bad('index %d accepted for a vector of length %d' % (kv, n), 'vector-ref-range')) or h.frame()
    if got[0] != 'ok': return h.bad('valid index rejected: %s' % got[1], 'vector-ref')
    if h.deref_ptr(got[1]) != h.conc(elems[kv]): return h.bad('returns %r, expected the very object at %d' % (got[1], h.conc(elems[kv])), 'vector-ref-identity')
    return h.frame()


def vec_now(h, vi):
    return h.f.field(h.cells_now()[vi].f[0].get(), 'Vector', 'vector').f[0]


def ptrs(h, lst):
    out = []
    for x in lst:
        p = h.deref_ptr(x)
        out.append(p if p is not None else ('imm', h.f.kind(x)))
    return out


def case_vector_set(h, n):
    elems = [h.atom_ptr('e%d' % i) for i in range(n)]
    vi = h.mk_vec([h.f.ptr(e) for e in elems])
    v = h.atom_ptr('v')
    h.shape = ['vector-set!', n]
    h.push_ptr(vi, ('vec', n)); k = h.push_idx('k', -1, n + 2); h.stack.append(h.f.ptr(v)); h.desc.append(('ptr', v))
    got = h.call('vector-set!')
    kv = h.sint(k)
    now = ptrs(h, vec_now(h, vi))
    if not idx_ok(kv, n):
        if got[0] != 'err': return h.bad('index %d accepted for a vector of length %d' % (kv, n), 'vector-set!-range')
        if now != [h.conc(e) for e in elems]: return h.bad('vector changed by a rejected call', 'vector-set!-frame')
        return h.frame()
    if got[0] != 'ok': return h.bad('valid index rejected: %s' % got[1], 'vector-set!')
    want = [h.conc(e) for e in elems]; want[kv] = h.conc(v)
    if now != want: return h.bad('vector is %s, expected %s' % (now, want), 'vector-set!-effect')
    return h.frame(allowed=(vi,))


def case_vector_fill(h, n, what):
    elems = [h.atom_ptr('e%d' % i) for i in range(n)]
    vi = h.mk_vec([h.f.ptr(e) for e in elems])
    h.shape = ['vector-fill!', n, what]
    h.push_ptr(vi, ('vec', n))
    if what == 'atom':
        v = h.atom_ptr('v'); h.stack.append(h.f.ptr(v)); h.desc.append(('ptr', v)); want_elem = None
    else:
        ph, pc, pt = h.mk_list(1, 'nil', 'p')        # a pair object: must be stored as that very pair
        h.stack.append(h.f.ptr(ph)); h.desc.append(('pairptr', ph)); v = ph
    got = h.call('vector-fill!')
    if got[0] != 'ok': return h.bad('unexpected error %s' % got[1], 'vector-fill!')
    now = vec_now(h, vi)
    for x in now:
        p = h.deref_ptr(x)
        if what == 'atom':
            # numbers are immutable: storing the value or the pointer is indistinguishable; accept both
            if p is not None and p != h.conc(v): return h.bad('element is %r, expected the fill object' % (x,), 'vector-fill!-effect')
            if p is None and not (h.f.kind(x) == 'Number' and h.it.must(values_equal(h.it, x, h.pre[h.conc(v)]))):
                return h.bad('element is %r, expected the fill value' % (x,), 'vector-fill!-effect')
        else:
            if p != v: return h.bad('element is %r: the pair argument (cell %d) was not stored as that very object' % (x, v), 'vector-fill!-copies-pair')
    if len(now) != n: return h.bad('length changed', 'vector-fill!-effect')
    return h.frame(allowed=(vi,))


def case_vector_length(h, n):
    vi = h.mk_vec([h.f.ptr(h.atom_ptr('e%d' % i)) for i in range(n)])
    h.shape = ['vector-length', n]
    h.push_ptr(vi, ('vec', n))
    got = h.call('vector-length')
    if got[0] != 'ok' or B.decode(h.f, h.it, h.vm, got[1]) != ('int', n): return h.bad('wrong length', 'vector-length')
    return h.frame()


def case_vector_list(h, n):
    elems = [h.atom_ptr('e%d' % i) for i in range(n)]
    vi = h.mk_vec([h.f.ptr(e) for e in elems])
    h.shape = ['vector->list', n]
    h.push_ptr(vi, ('vec', n))
    got = h.call('vector->list')
    if got[0] != 'ok': return h.bad('unexpected error', 'vector->list')
    rc, ti, tc = h.walk_list(got[1])
    if h.f.kind(tc) != 'Nil' or rc != [h.conc(e) for e in elems]: return h.bad('elements %s, expected %s' % (rc, [h.conc(e) for e in elems]), 'vector->list-identity')
    return h.frame()


def case_list_vector(h, n, tail):
    head, cars, t = h.mk_list(n, tail)
    h.shape = ['list->vector', n, tail]
    h.push_ptr(head, ('list', n, tail))
    got = h.call('list->vector')
    if tail != 'nil':
        return (None if got[0] == 'err' else h.bad('improper list / non-list accepted: %r' % (got[1],), 'list->vector-improper')) or h.frame()
    if got[0] != 'ok' or h.f.kind(got[1]) != 'Vector': return h.bad('did not return a vector', 'list->vector')
    now = ptrs(h, h.f.field(got[1].f[0].get(), 'Vector', 'vector').f[0])
    if now != [h.conc(c) for c in cars]: return h.bad('elements %s, expected %s' % (now, [h.conc(c) for c in cars]), 'list->vector-identity')
    return h.frame()


def case_vector_copy(h, n, argc):
    elems = [h.atom_ptr('e%d' % i) for i in range(n)]
    vi = h.mk_vec([h.f.ptr(e) for e in elems])
    h.shape = ['vector-copy', n, argc]
    h.push_ptr(vi, ('vec', n))
    st = h.push_idx('start', -1, n + 2) if argc == 2 else None
    got = h.call('vector-copy')
    a = h.sint(st) if st is not None else 0
    if not 0 <= a <= n:
        return (None if got[0] == 'err' else h.bad('start %d accepted for a vector of length %d' % (a, n), 'vector-copy-range')) or h.frame()
    if got[0] != 'ok' or h.f.kind(got[1]) != 'Vector': return h.bad('valid start %d rejected (%s)' % (a, got[1]), 'vector-copy')
    now = ptrs(h, h.f.field(got[1].f[0].get(), 'Vector', 'vector').f[0])
    if now != [h.conc(e) for e in elems[a:]]: return h.bad('copy is %s, expected %s' % (now, [h.conc(e) for e in elems[a:]]), 'vector-copy-effect')
    if got[1].f[0].same(h.cells_now()[vi].f[0]): return h.bad('copy is the same vector object', 'vector-copy-fresh')
    return h.frame()


def case_vector_copy_mut(h, nto, nfrom, argc):
    """(vector-copy! to at from [start [end]])"""
    te = [h.atom_ptr('t%d' % i) for i in range(nto)]
    fe = [h.atom_ptr('f%d' % i) for i in range(nfrom)]
    ti = h.mk_vec([h.f.ptr(e) for e in te]); fi = h.mk_vec([h.f.ptr(e) for e in fe])
    h.shape = ['vector-copy!', nto, nfrom, argc]
    h.push_ptr(ti, ('vec', nto)); at = h.push_idx('at', -1, nto + 1); h.push_ptr(fi, ('vec', nfrom))
    st = h.push_idx('start', -1, nfrom + 1) if argc >= 4 else None
    en = h.push_idx('end', -1, nfrom + 1) if argc >= 5 else None
    got = h.call('vector-copy!')
    a = h.sint(at); s0 = h.sint(st) if st is not None else 0; e0 = h.sint(en) if en is not None else nfrom
    valid = 0 <= a <= nto and 0 <= s0 <= e0 <= nfrom and (nto - a) >= (e0 - s0)
    now_t, now_f = ptrs(h, vec_now(h, ti)), ptrs(h, vec_now(h, fi))
    if not valid:
        if got[0] != 'err': return h.bad('invalid arguments (at %d, start %d, end %d; lengths %d <- %d) accepted' % (a, s0, e0, nto, nfrom), 'vector-copy!-range')
        if now_t != [h.conc(x) for x in te]: return h.bad('destination changed by a rejected call', 'vector-copy!-frame')
        return h.frame()
    if got[0] != 'ok': return h.bad('valid arguments (at %d, start %d, end %d; lengths %d <- %d) rejected: %s' % (a, s0, e0, nto, nfrom, got[1]), 'vector-copy!')
    want = [h.conc(x) for x in te]
    src = [h.conc(x) for x in fe]
    for i in range(e0 - s0): want[a + i] = src[s0 + i]
    if now_t != want: return h.bad('destination is %s, expected %s (at %d, start %d, end %d)' % (now_t, want, a, s0, e0), 'vector-copy!-effect')
    if now_f != src: return h.bad('source changed', 'vector-copy!-frame')
    return h.frame(allowed=(ti,))


def case_equal_vec(h, n1, n2):
    a = [h.atom_ptr('a%d' % i) for i in range(n1)]; b = [h.atom_ptr('b%d' % i) for i in range(n2)]
    ai = h.mk_vec([h.f.ptr(e) for e in a]); bi = h.mk_vec([h.f.ptr(e) for e in b])
    h.shape = ['equal?', n1, n2]
    h.push_ptr(ai, ('vec', n1)); h.push_ptr(bi, ('vec', n2))
    got = h.call('equal?')
    if got[0] != 'ok': return h.bad('unexpected error', 'equal?')
    want = n1 == n2 and all(h.conc(x) == h.conc(y) for x, y in zip(a, b))       # atoms hold distinct numbers: equal iff same atom
    r = B.decode(h.f, h.it, h.vm, got[1])
    if r != ('bool', want): return h.bad('(equal? %s %s) => %r, expected %s' % ([h.conc(x) for x in a], [h.conc(x) for x in b], r, want), 'equal?-vector')
    return h.frame()


def case_equal_list(h, n1, t1, n2, t2):
    h1, c1, _ = h.mk_list(n1, t1, 'a'); h2, c2, _ = h.mk_list(n2, t2, 'b')
    h.shape = ['equal?-list', n1, t1, n2, t2]
    h.push_ptr(h1, ('list', n1, t1)); h.push_ptr(h2, ('list', n2, t2))
    got = h.call('equal?')
    if got[0] != 'ok': return h.bad('unexpected error', 'equal?')
    want = n1 == n2 and t1 == t2 and all(h.conc(x) == h.conc(y) for x, y in zip(c1, c2))
    r = B.decode(h.f, h.it, h.vm, got[1])
    if r != ('bool', want): return h.bad('equal? on lists => %r, expected %s' % (r, want), 'equal?-list')
    return h.frame()


def plan(tier):
    N = 3 if tier == 'quick' else 4
    out = [('cons', case_cons, ())]
    for n in range(0, N + 1):
        for tail in ('nil', 'atom'):
            if n <= 2:
                out.append(('car/n=%d/%s' % (n, tail), case_car_cdr, ('car', n, tail)))
                out.append(('cdr/n=%d/%s' % (n, tail), case_car_cdr, ('cdr', n, tail)))
                out.append(('set-car!/n=%d/%s' % (n, tail), case_set, ('set-car!', n, tail)))
                out.append(('set-cdr!/n=%d/%s' % (n, tail), case_set, ('set-cdr!', n, tail)))
            out.append(('list-ref/n=%d/%s' % (n, tail), case_list_ref, ('list-ref', n, tail)))
            out.append(('list-tail/n=%d/%s' % (n, tail), case_list_ref, ('list-tail', n, tail)))
            out.append(('reverse/n=%d/%s' % (n, tail), case_reverse, (n, tail)))
            out.append(('list->vector/n=%d/%s' % (n, tail), case_list_vector, (n, tail)))
        out.append(('vector-ref/n=%d' % n, case_vector_ref, (n,)))
        out.append(('vector-set!/n=%d' % n, case_vector_set, (n,)))
        out.append(('vector-length/n=%d' % n, case_vector_length, (n,)))
        out.append(('vector->list/n=%d' % n, case_vector_list, (n,)))
        out.append(('vector-copy/n=%d/argc=1' % n, case_vector_copy, (n, 1)))
        out.append(('vector-copy/n=%d/argc=2' % n, case_vector_copy, (n, 2)))
        if n <= 2:
            out.append(('vector-fill!/n=%d/atom' % n, case_vector_fill, (n, 'atom')))
            out.append(('vector-fill!/n=%d/pair' % n, case_vector_fill, (n, 'pair')))
    for n1 in range(0, 3):
        for n2 in range(0, 3):
            out.append(('append/%d+%d' % (n1, n2), case_append, (n1, 'nil', n2)))
            out.append(('equal?/vec/%d,%d' % (n1, n2), case_equal_vec, (n1, n2)))
            out.append(('equal?/list/%d,%d' % (n1, n2), case_equal_list, (n1, 'nil', n2, 'nil')))
        out.append(('append/%d(improper)+1' % n1, case_append, (n1, 'atom', 1)))
        out.append(('equal?/list/%d,%d improper' % (n1, n1), case_equal_list, (n1, 'nil', n1, 'atom')))
    M = 2 if tier == 'quick' else 3
    for nto in range(0, M + 1):
        for nfrom in range(0, M + 1):
            for argc in (3, 4, 5):
                out.append(('vector-copy!/%d<-%d/argc=%d' % (nto, nfrom, argc), case_vector_copy_mut, (nto, nfrom, argc)))
    return out


def make_harness(prog, table, casefn, args):
    fab = Fab(prog)
    def harness(it):
        h = H(prog, fab, it, table)
        v = casefn(h, *args)
        if v: return v
        it.ghost['sample'] = {'call': h.proc, 'shape': getattr(h, 'shape', None)}
        return None
    return harness


def on_panic(it, e):
    h = it.ghost.get('h')
    if h is None: return {'what': 'panic before the call: %s' % e, 'key': 'panic', 'request': None}
    return {'what': '%s panics: %s' % (h.proc, e), 'key': 'panic:%s:%s' % (h.proc, e.kind), 'request': h.request()}


# --------------------------------------------------------------------------------------------- native confirmation
def scheme_for(req):
    """a scheme program that rebuilds the concrete counterexample and prints an observable canonical result.
    Atoms are the distinct numbers 100, 101, 102 bound to a0..a2 (exact integers: eqv-comparable)."""
    sh, v = req['shape'], req['vars']
    g = lambda n: v.get(n, 0)
    def sint(x): return x - (1 << 64) if x >= 1 << 63 else x
    atoms = lambda pref, n: ['a%d' % g('%s%d' % (pref, i)) for i in range(n)]
    def mklist(pref, n, tail):
        out = 'a2' if tail == 'atom' else "'()"
        for a in reversed(atoms(pref, n)): out = '(cons %s %s)' % (a, out)
        return out
    pre = '(define a0 100) (define a1 101) (define a2 102) '
    p = sh[0]
    if p in ('car', 'cdr'): return pre + '(%s %s)' % (p, mklist('e', sh[1], sh[2]))
    if p in ('set-car!', 'set-cdr!'): return pre + '(let ((l %s)) (%s l a%d) l)' % (mklist('e', sh[1], sh[2]), p, g('v'))
    if p in ('list-ref', 'list-tail'): return pre + '(%s %s %d)' % (p, mklist('e', sh[1], sh[2]), sint(g('k')))
    if p == 'reverse':
        # freshness probe: mutating the result must not change the argument
        return pre + '(let* ((l %s) (r (reverse l))) (if (pair? r) (set-car! r 7)) (list l r))' % mklist('e', sh[1], sh[2])
    if p == 'list->vector': return pre + '(list->vector %s)' % mklist('e', sh[1], sh[2])
    if p == 'append':
        # freshness of the copied spine and sharing of the last argument
        return pre + '(let* ((a %s) (b %s) (r (append a b))) (if (pair? a) (set-car! r 7)) (if (pair? b) (set-car! b 8)) (list a b r))' % (mklist('a', sh[1], sh[2]), mklist('b', sh[3], 'nil'))
    vec = lambda pref, n: '(vector%s)' % ''.join(' ' + a for a in atoms(pref, n))
    if p == 'vector-ref': return pre + '(vector-ref %s %d)' % (vec('e', sh[1]), sint(g('k')))
    if p == 'vector-set!': return pre + '(let ((v %s)) (vector-set! v %d a%d) v)' % (vec('e', sh[1]), sint(g('k')), g('v'))
    if p == 'vector-length': return pre + '(vector-length %s)' % vec('e', sh[1])
    if p == 'vector->list': return pre + '(vector->list %s)' % vec('e', sh[1])
    if p == 'vector-copy':
        return pre + ('(vector-copy %s)' % vec('e', sh[1]) if sh[2] == 1 else '(vector-copy %s %d)' % (vec('e', sh[1]), sint(g('start'))))
    if p == 'vector-fill!':
        if sh[2] == 'atom': return pre + '(let ((v %s)) (vector-fill! v a%d) v)' % (vec('e', sh[1]), g('v'))
        # identity: mutate the pair after filling and look through the vector
        return pre + "(let ((v %s) (p (cons a%d '()))) (vector-fill! v p) (set-car! p 7) v)" % (vec('e', sh[1]), g('p0'))
    if p == 'vector-copy!':
        extra = ''
        if sh[3] >= 4: extra += ' %d' % sint(g('start'))
        if sh[3] >= 5: extra += ' %d' % sint(g('end'))
        return pre + '(let ((t %s) (f %s)) (vector-copy! t %d f%s) (list t f))' % (vec('t', sh[1]), vec('f', sh[2]), sint(g('at')), extra)
    if p == 'equal?': return pre + '(equal? %s %s)' % (vec('a', sh[1]), vec('b', sh[2]))
    if p == 'equal?-list': return pre + '(equal? %s %s)' % (mklist('a', sh[1], sh[2]), mklist('b', sh[3], sh[4]))
    if p == 'cons': return pre + '(cons a%d a%d)' % (g('a'), g('b'))
    return None


def py_expect(req):
    """expected canonical output for scheme_for(req): ('ok', text) | ('err',) | None"""
    sh, v = req['shape'], req['vars']
    g = lambda n: v.get(n, 0)
    def sint(x): return x - (1 << 64) if x >= 1 << 63 else x
    A = lambda pref, n: [100 + g('%s%d' % (pref, i)) for i in range(n)]
    def L(items, tail=None):
        body = ' '.join('I%d' % x for x in items)
        if tail is None: return '(%s)' % body if items else 'N'
        return '(%s . I%d)' % (body, tail) if items else 'I%d' % tail
    V = lambda items: '#(%s)' % ' '.join('I%d' % x for x in items)
    p = sh[0]
    if p in ('car', 'cdr'):
        n, tail = sh[1], sh[2]
        if n == 0: return ('err',)
        xs = A('e', n); t = 102 if tail == 'atom' else None
        return ('ok', 'I%d' % xs[0]) if p == 'car' else ('ok', L(xs[1:], t))
    if p in ('set-car!', 'set-cdr!'):
        n, tail = sh[1], sh[2]
        if n == 0: return ('err',)
        xs = A('e', n); t = 102 if tail == 'atom' else None
        if p == 'set-car!': return ('ok', L([100 + g('v')] + xs[1:], t))
        return ('ok', L(xs[:1], 100 + g('v')))
    if p in ('list-ref', 'list-tail'):
        n, tail, k = sh[1], sh[2], sint(g('k')); xs = A('e', n); t = 102 if tail == 'atom' else None
        if p == 'list-ref': return ('ok', 'I%d' % xs[k]) if 0 <= k < n else ('err',)
        return ('ok', L(xs[k:], t)) if 0 <= k <= n else ('err',)
    if p == 'reverse':
        if sh[2] != 'nil': return ('err',)
        xs = A('e', sh[1]); r = list(reversed(xs))
        if r: r[0] = 7
        return ('ok', '(%s %s)' % (L(xs), L(r)))
    if p == 'list->vector':
        if sh[2] != 'nil': return ('err',)
        return ('ok', V(A('e', sh[1])))
    if p == 'append':
        if sh[2] != 'nil': return ('err',)
        a, b = A('a', sh[1]), A('b', sh[3])
        b2 = list(b)
        if b2: b2[0] = 8
        r = list(a) + b2
        if a: r[0] = 7
        return ('ok', '(%s %s %s)' % (L(a), L(b2), L(r)))
    if p == 'vector-ref':
        k = sint(g('k')); xs = A('e', sh[1])
        return ('ok', 'I%d' % xs[k]) if 0 <= k < sh[1] else ('err',)
    if p == 'vector-set!':
        k = sint(g('k')); xs = A('e', sh[1])
        if not 0 <= k < sh[1]: return ('err',)
        xs[k] = 100 + g('v'); return ('ok', V(xs))
    if p == 'vector-length': return ('ok', 'I%d' % sh[1])
    if p == 'vector->list': return ('ok', L(A('e', sh[1])))
    if p == 'vector-copy':
        a = sint(g('start')) if sh[2] == 2 else 0
        return ('ok', V(A('e', sh[1])[a:])) if 0 <= a <= sh[1] else ('err',)
    if p == 'vector-fill!':
        if sh[2] == 'atom': return ('ok', V([100 + g('v')] * sh[1]))
        return ('ok', '#(%s)' % ' '.join(['(I7)'] * sh[1]))
    if p == 'vector-copy!':
        nto, nfrom, argc = sh[1], sh[2], sh[3]
        a = sint(g('at')); s0 = sint(g('start')) if argc >= 4 else 0; e0 = sint(g('end')) if argc >= 5 else nfrom
        if not (0 <= a <= nto and 0 <= s0 <= e0 <= nfrom and nto - a >= e0 - s0): return ('err',)
        t, f = A('t', nto), A('f', nfrom)
        for i in range(e0 - s0): t[a + i] = f[s0 + i]
        return ('ok', '(%s %s)' % (V(t), V(f)))
    if p == 'equal?': return ('ok', 'B%d' % (A('a', sh[1]) == A('b', sh[2])))
    if p == 'equal?-list': return ('ok', 'B%d' % (A('a', sh[1]) == A('b', sh[3]) and sh[2] == sh[4]))
    if p == 'cons': return ('ok', '(I%d . I%d)' % (100 + g('a'), 100 + g('b')))
    return None


def native_verdict(replay, req):
    text, want = scheme_for(req), py_expect(req)
    if text is None or want is None: return None, 'no native reproduction recipe for %s' % req.get('proc')
    replay.ask('newvm')
    out = replay.ask('evalc ' + hexs(text))
    if out.startswith(('PANIC', 'ABORT')): return True, '%s: %s' % (text, out)
    if want[0] == 'err':
        if not out.startswith('ERR'): return True, '%s => %s, expected an error' % (text, out)
        if req['shape'][0] == 'vector-copy!':
            # an error must not be a partial write: rebuild the vectors as globals, run the failing call, look at them afterwards
            m = re.match(r'(.*)\(let \(\(t (.*)\) \(f (\(vector[^()]*\))\)\) (\(vector-copy! .*\)) \(list t f\)\)$', text)
            if m:
                pre, tv, fv, call = m.groups()
                replay.ask('newvm'); replay.ask('eval ' + hexs(pre + '(define t %s) (define f %s)' % (tv, fv)))
                before = replay.ask('evalc ' + hexs('(list t f)'))
                replay.ask('eval ' + hexs(call))
                after = replay.ask('evalc ' + hexs('(list t f)'))
                if before != after: return True, '%s reports an error but has already written: (list t f) was %s, is %s' % (call, before[3:], after[3:])
        return False, '%s => %s, expected an error' % (text, out)
    if out.startswith('ERR'): return True, '%s => error "%s", expected %s' % (text, unhexs(out.split()[2]), want[1])
    return out[3:] != want[1], '%s => %s, expected %s' % (text, out[3:], want[1])


FUNCTIONS = ['vm::builtin::list::*', 'vm::builtin::vector::*', 'vm::vector::Vector::*', 'vm::compare::Vm::{eqv,equal,compare_pair,compare_vector}',
             'vm::builtin::predicate::equal', 'vm::builtin::{pop_argc,pop_index,pop_vector}', 'number::Number::to_usize', 'vm::heap::Heap::{get,put,alloc,get_at_index,get_at_index_mut}']


def run(chk, ws, prog, tier, replays):
    dev, rel = replays
    models_vm.install(prog)
    table = B.builtin_table(prog)
    seen = {}
    for name, casefn, args in plan(tier):
        for mode in ('dev', 'release'):
            if mode == 'release' and not name.startswith(('vector-ref', 'vector-set!', 'vector-copy', 'list-ref', 'list-tail')): continue
            hname = '%s/%s' % (name, 'overflow-checks' if mode == 'dev' else 'wrapping')
            h = make_harness(prog, table, casefn, args)
            res = explore(prog, h, opts={'on_panic': on_panic, 'overflow_checks': mode == 'dev'}, quiet=True)
            print('  harness %-48s %s' % (hname, res.summary()), flush=True)
            chk.add_result(hname, res, FUNCTIONS, {'case': name, 'arithmetic': 'overflow checks on' if mode == 'dev' else 'wrapping (release profile)',
                                                   'element pointers': 'symbolic over 3 atom cells', 'indices': 'symbolic i64 in -1..len+2 or i64::MAX'})
            for v in res.violations:
                if v.get('request') is None:
                    chk.inconclusive.append('%s: %s' % (hname, v['what'])); continue
                if seen.get(v['key'], 0) >= 3: continue
                b, d = native_verdict(dev if mode == 'dev' else rel, v['request'])
                if b is None:
                    chk.inconclusive.append('%s: %s (%s)' % (hname, v['what'], d)); continue
                if not b:
                    b2, d2 = native_verdict(rel if mode == 'dev' else dev, v['request'])
                    if b2: b, d = b2, d2
                seen[v['key']] = seen.get(v['key'], 0) + 1
                chk.violation(v['key'], d + ' | ' + v['what'], v['request'], bool(b))
    chk.assumptions += ['one-step claim: operation sequences are covered by the step plus the arbitrary (bounded) pre-state heap',
                        "vector-copy's optional end argument is excluded as the property says"]
    chk.outside += ['the prelude procedures (length, mem*, ass*, map, for-each, list, list?): Scheme code that only the whole VM can run',
                    'lists / vectors longer than the bound, deep equal? beyond depth 1']


def replay_request(req, replays):
    b1, d1 = native_verdict(replays[0], req)
    b2, d2 = native_verdict(replays[1], req)
    return bool(b1) or bool(b2), d1 if b1 else d2
