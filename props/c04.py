"""C04 -- calls in tail position run in constant stack space (run-time half, step lemma).

Encoded (real code): Vm::run_one arms CallAcc, TCallAcc, Enter, VarArg, Ret, PushImmediate, MovImmediate; Stack::*,
Heap::get / put; LexicalEnvironment for closure callees; the builtins apply and call/cc (builtin/procedure.rs) reached
through the BuiltInProc arm of TCALL, Vm::to_continuation.
Lemma (layout-agnostic, differential): from the same base state, a chain  main -CALL-> c0 -TCALL-> c1 ... -TCALL-> ck
reaches the body of ck with exactly the machine state (sp, bp, ep, stack contents, acc-independent) that the direct
call  main -CALL-> ck  with the same arguments reaches it with, and after ck returns both are back in main with the
same sp / bp / ep / acc.  By induction (written in DESIGN.md, not solver-checked) n successive tail calls use the
stack of one call.
Symbolic: all argument values; shapes (argument counts 0..3 of every procedure, fixed / variadic with every required
count, lambda / closure callee, chain length 1..2) are enumerated and stated.
The compile-time half (every R7RS tail context is compiled to TCALL, incl. the prelude's derived forms) is NOT covered.
"""
import z3
from mirsym.values import *
from mirsym.explore import explore
from mirsym.models_core import values_equal, clone_val
from mirsym import models_vm
from .vmfab import Fab, USIZE_MAX
from . import vmfab, vmstep
from vlib.core import hexs, unhexs


def callee_bc(f, spec):
    """spec: (argc_formals, variadic?) -> bytecode prefix of the lambda (VARARG? ENTER)"""
    return ([f.op('VarArg')] if spec[1] else []) + [f.op('Enter')]


def build(fab, chain, direct, name_base=0):
    """chain: list of callee specs (nformals, variadic, kind, nargs_passed); the LAST one is the observed callee.
    direct=False: main CALLs chain[0]; every chain[i] TCALLs chain[i+1].  direct=True: main CALLs chain[-1]."""
    f = fab
    P = vmstep.Prog(f)
    e = P.reserve(); m = P.reserve()
    sym = P.add(f.symbol('x'))
    lam = [P.reserve() for _ in chain]
    clo = []
    for i, chn in enumerate(chain):
        nform, var, kind, npass = chn[:4]
        if kind == 'closure':
            env = P.add(f.lexenv([]))
            clo.append(P.add(f.vc('Closure', lam[i], env)))
        else:
            clo.append(lam[i])
    nil = P.add(f.vc('Nil'))
    def via(i): return chain[i][4] if len(chain[i]) > 4 else 'tcall'
    def argvar(i, j): return f.fixnum(z3.BitVec('arg%d_%d' % (i + name_base, j), 64))
    def split(i):
        """-> (number of arguments passed as immediates, number passed through heap cells)"""
        v = via(i)
        if v.startswith('apply:'):
            k = int(v[6:]); return k, chain[i][3] - k
        if v == 'callcc': return 0, 1
        return chain[i][3], 0
    def heap_args(i):
        k, n = split(i)
        if via(i) == 'callcc': return [nil]               # stands for the continuation object in the direct call
        return [P.add(argvar(i, j)) for j in range(k, k + n)]
    def args_for(i):
        """arguments as the DIRECT / plain call pushes them: immediates, then pointers to heap cells"""
        k, n = split(i)
        return [argvar(i, j) for j in range(k)] + [f.ptr(h) for h in heap_args(i)]
    def transfer(i):
        """bytecode with which chain[i-1] reaches chain[i] in tail position"""
        v = via(i)
        if v == 'tcall': return vmstep.call_seq(f, clo[i], args_for(i), tail=True)
        if v == 'callcc':
            bi = P.add(f.builtin('call/cc', BUILTINS['call/cc']))
            return vmstep.call_seq(f, bi, [f.ptr(clo[i])], tail=True)
        k, n = split(i)
        cells = heap_args(i)
        lst = nil
        for h in reversed(cells): lst = P.add(f.pair(h, lst))
        bi = P.add(f.builtin('apply', BUILTINS['apply']))
        return vmstep.call_seq(f, bi, [f.ptr(clo[i])] + [argvar(i, j) for j in range(k)] + [f.ptr(lst)], tail=True)
    for i, chn in enumerate(chain):
        nform, var, kind, npass = chn[:4]
        body = callee_bc(f, (nform, var))
        if i + 1 < len(chain) and not direct:
            body += transfer(i + 1)
        else:
            body += [f.op('MovImmediate'), f.fixnum(z3.BitVec('result', 64)), f.vc('Acc')]
        body += [f.op('Ret')]
        P.cells[lam[i]] = f.vlambda(body, args=[f.ptr(sym)] * nform, is_vararg=var)
    first = len(chain) - 1 if direct else 0
    main_bc = [f.op('Enter')] + vmstep.call_seq(f, clo[first], args_for(first)) + [f.op('Ret')]
    P.cells[m] = f.vlambda(main_bc)
    P.cells[e] = P.entry(m)
    vm = P.vm(e, (len(P.cells) + 20) // 4 * 4, 0, stack_len=40)
    # the observation points
    last = lam[-1]
    body_start = 2 if chain[-1][1] else 1
    after_call_in_main = len(main_bc) - 1         # index of main's RET
    return vm, last, body_start, m, after_call_in_main


def deref(f, vm, v):
    cells = f.field(f.field(vm, 'Vm', 'heap'), 'Heap', 'heap')
    n = 0
    while f.kind(v) == 'Ptr' and n < 8:
        v = cells[v.f[0]]; n += 1
    return v


def slot_desc(f, vm, v):
    """what a stack slot holds, independent of heap indices (native comparison)"""
    k = f.kind(v)
    if k == 'Ptr':
        c = deref(f, vm, v)
        if f.kind(c) == 'Number': return 'ptr->' + vmfab.show_vcell(f, c)
        return 'ptr->' + ('procedure/other' if f.kind(c) in ('Continuation', 'Nil') else f.kind(c))
    if k in ('InstructionPointer', 'EnvironmentPointer'): return k
    return vmfab.show_vcell(f, v)


BUILTINS = {}


def step_until(it, fab, RUN_ONE, vb, lam, off, limit=300):
    f = fab
    for n in range(limit):
        ip = f.field(vb.v, 'Vm', 'ip')
        if ip.f[0] == lam and ip.f[1] == off: return ('at', n)
        r = it.call(RUN_ONE, [Ref(vb)])
        if r.var != 0: return ('err', r.f[0].var)
        if r.f[0] is True: return ('halt', n)
    return ('limit', limit)


def snapshot(f, vm):
    st = f.field(vm, 'Vm', 'stack')
    sp = f.field(st, 'Stack', 'sp')
    return {'sp': sp, 'bp': f.field(vm, 'Vm', 'bp'), 'ep': f.field(vm, 'Vm', 'ep'),
            'stack': list(f.field(st, 'Stack', 'stack'))[:sp + 1], 'acc': f.field(vm, 'Vm', 'acc')}


def valid_call(chain):
    """is the observed call well-formed (arity)?  -> True / False"""
    for nform, var, kind, npass in [c[:4] for c in chain]:
        if var:
            if npass < nform - 1: return False
        elif npass != nform: return False
    return True


def make_harness(prog, chain):
    fab = Fab(prog)
    RUN_ONE = prog.resolve_crate('Vm::run_one')
    if not BUILTINS:
        from .builtins import builtin_table
        BUILTINS.update(builtin_table(prog))

    def harness(it):
        f = fab
        it.ghost['chain'] = chain
        vt, last, off, m, after = build(f, chain, False)
        vd, last_d, off_d, m_d, after_d = build(f, [chain[-1]], True, len(chain) - 1)
        tb, db = Cell(vt), Cell(vd)
        rt = step_until(it, f, RUN_ONE, tb, last, off)
        rd = step_until(it, f, RUN_ONE, db, last_d, off_d)
        if rd[0] != rt[0] or (rt[0] == 'err' and rt[1] != rd[1]):
            return viol(it, 'tail-call chain reaches the callee body with %s, the direct call with %s' % (rt, rd), 'different-outcome')
        if rt[0] != 'at':
            it.ghost['tags'] = ['both-' + rt[0]]
            return None
        # the chain run has the same heap layout except for the extra lambdas: compare the machine state
        st, sd = snapshot(f, tb.v), snapshot(f, db.v)
        if st['sp'] != sd['sp']:
            return viol(it, 'stack height at the callee body: %d through the tail-call chain, %d through a direct call (the chain grows the stack)' % (st['sp'], sd['sp']), 'stack-grows')
        if st['bp'] != sd['bp']: return viol(it, 'bp %s vs %s' % (st['bp'], sd['bp']), 'frame-differs')
        for i, (x, y) in enumerate(zip(st['stack'], sd['stack'])):
            kx, ky = f.kind(x), f.kind(y)
            if kx != ky: return viol(it, 'stack slot %d is %s through the chain, %s directly' % (i, kx, ky), 'frame-differs')
            if kx == 'Ptr':
                # heap indices differ between the two images by construction: compare what they point at when both are numbers
                cx, cy = deref(f, tb.v, x), deref(f, db.v, y)
                if f.kind(cx) == 'Number' and f.kind(cy) == 'Number' and not it.must(values_equal(it, cx, cy)):
                    return viol(it, 'stack slot %d points at %r through the chain, %r directly' % (i, cx, cy), 'frame-differs')
                if (f.kind(cx) == 'Number') != (f.kind(cy) == 'Number') and 'callcc' not in str(chain):
                    return viol(it, 'stack slot %d points at a %s through the chain, a %s directly' % (i, f.kind(cx), f.kind(cy)), 'frame-differs')
                continue
            if kx in ('InstructionPointer', 'EnvironmentPointer'):
                continue          # return address: heap indices differ between the two images by construction
            if not it.must(values_equal(it, x, y)):
                return viol(it, 'stack slot %d differs: %r through the chain, %r directly' % (i, x, y), 'frame-differs')
        # variadic callee: the rest list must hold the same values
        if chain[-1][1]:
            rest_t = rest_list(it, f, tb.v, st); rest_d = rest_list(it, f, db.v, sd)
            by_kind = len(chain[-1]) > 4 and chain[-1][4] == 'callcc'     # the continuation object: compared by position only
            if len(rest_t) != len(rest_d) or not (by_kind or all(it.must(values_equal(it, x, y)) for x, y in zip(rest_t, rest_d))):
                return viol(it, 'rest-argument list differs: %r vs %r' % (rest_t, rest_d), 'frame-differs')
        # run both back into main
        rt2 = step_until(it, f, RUN_ONE, tb, m, after)
        rd2 = step_until(it, f, RUN_ONE, db, m_d, after_d)
        if rt2[0] != 'at' or rd2[0] != 'at':
            return viol(it, 'return to the caller: %s through the chain, %s directly' % (rt2, rd2), 'return-differs')
        s2, d2 = snapshot(f, tb.v), snapshot(f, db.v)
        if (s2['sp'], s2['bp'], s2['ep']) != (d2['sp'], d2['bp'], d2['ep']) or not it.must(values_equal(it, s2['acc'], d2['acc'])):
            return viol(it, 'state after returning to the caller differs: %s vs %s' % ((s2['sp'], s2['bp'], s2['ep'], s2['acc']), (d2['sp'], d2['bp'], d2['ep'], d2['acc'])), 'return-differs')
        it.ghost['tags'] = ['compared']
        it.ghost['sample'] = {'chain': chain, 'sp_at_callee_body': st['sp'], 'sp_back_in_main': s2['sp']}
        return None

    def rest_list(it, f, vm, snap):
        cells = f.field(f.field(vm, 'Vm', 'heap'), 'Heap', 'heap')
        # the rest argument is the last argument slot: bp points just below argc
        slot = snap['stack'][snap['bp']]
        out = []
        cur = slot
        n = 0
        while n < 8:
            while f.kind(cur) == 'Ptr': cur = cells[cur.f[0]]
            if f.kind(cur) != 'Pair': break
            car = cells[cur.f[0]]
            while f.kind(car) == 'Ptr': car = cells[car.f[0]]
            out.append(car)
            cur = cells[cur.f[1]]; n += 1
        return out

    def viol(it, what, key):
        m = it.witness()
        vals = {d.name(): m[d].as_long() for d in m.decls()} if m is not None else {}
        return {'what': what, 'key': key, 'request': {'cmd': 'c04', 'chain': [list(c) for c in chain], 'vars': vals}}
    return harness


def on_panic(it, e):
    return {'what': 'panic: %s' % e, 'key': 'panic:' + e.kind, 'request': {'cmd': 'c04', 'chain': [list(c) for c in it.ghost.get('chain', [])], 'vars': {}}}


def native_verdict(prog, replay, req):
    """stack height at the callee body through the chain vs directly, on the REAL VM (verif_step through hooks)"""
    fab = Fab(prog)
    chain = [tuple(c) for c in req['chain']]
    class M:
        def __init__(s, vals): s.vals = vals
        def eval(s, t, model_completion=True):
            return z3.BitVecVal(s.vals.get(str(t), 0), 64)
    def run(ch, direct):
        vm, last, off, m, after = build(fab, ch, direct, (len(chain) - 1) if direct else 0)
        text = vmfab.show_vm(fab, vm, M(req['vars']))
        # step until %ip reaches the callee body
        for n in range(1, 200):
            out = replay.ask('vmsteps %s %d' % (hexs(text), n))
            if out.startswith(('PANIC', 'ABORT')): return ('panic', out)
            status = out.split()[1]
            dump = unhexs(out.split()[3])
            vm2 = vmfab.vm_of(fab, dump)
            ip = fab.field(vm2, 'Vm', 'ip')
            if status.startswith('ERR'): return ('err', status)
            if ip.f[0] == last and ip.f[1] == off:
                st = fab.field(vm2, 'Vm', 'stack')
                sp = fab.field(st, 'Stack', 'sp')
                return ('at', sp, [slot_desc(fab, vm2, x) for x in list(fab.field(st, 'Stack', 'stack'))[:sp + 1]])
            if status == 'HALT': return ('halt', n)
        return ('limit',)
    rt = run(chain, False); rd = run([chain[-1]], True)
    if rt[0] == 'panic' or rd[0] == 'panic': return True, 'native run panics: %s / %s' % (rt, rd)
    if rt[0] != rd[0]: return True, 'chain reaches the callee with %s, direct call with %s' % (rt, rd)
    if rt[0] == 'at' and rt[1] != rd[1]:
        return True, 'stack height at the callee body: %d through the tail-call chain %s, %d through a direct call' % (rt[1], chain, rd[1])
    if rt[0] == 'at' and rt[2] != rd[2]:
        diff = [(i, a, b) for i, (a, b) in enumerate(zip(rt[2], rd[2])) if a != b]
        return True, 'frame at the callee body differs (slot, through the chain %s, directly): %s' % (chain, diff[:3])
    return False, 'same stack height and frame through the chain and directly: %s' % (rt[:2],)


FUNCTIONS = ['vm::run::Vm::run_one (CallAcc, TCallAcc, Enter, VarArg, Ret, PushImmediate, MovImmediate, Halt)', 'vm::run::Vm::{read_opcode,read_operand,store_operand,lambda,build_lexical_environment}',
             'vm::stack::Stack::{push,pop,get,get_mut,get_offset,get_offset_mut,get_sp,get_sp_mut}', 'vm::heap::Heap::{get,put,get_at_index,alloc}', 'vm::vcell::VCell::as_*',
             'vm::builtin::procedure::{apply,call_cc}', 'vm::builtin::pop_argc', 'vm::continuation::Vm::to_continuation', 'vm::vcell::BuiltInProc::eval']


def plans(tier):
    N = 2 if tier == 'quick' else 3
    out = []
    kinds = ['lambda', 'closure']
    # single tail call f -> g, every arity pair, fixed arity
    for nf in range(0, N + 1):
        for ng in range(0, N + 1):
            for kind in kinds:
                out.append([(nf, False, 'lambda', nf), (ng, False, kind, ng)])
    # variadic callee: every required count and every number of passed arguments (incl. too few)
    for nf in range(0, N + 1):
        for nform in range(1, N + 2):
            for npass in range(0, N + 2):
                out.append([(nf, False, 'lambda', nf), (nform, True, 'lambda', npass)])
    # variadic caller frame, fixed callee
    for ng in range(0, N + 1):
        out.append([(1, True, 'lambda', 2), (ng, False, 'lambda', ng)])
        out.append([(2, True, 'lambda', 1), (ng, True, 'lambda', ng + 1)] if ng >= 1 else [(2, True, 'lambda', 1), (1, True, 'lambda', 0)])
    # chains of two tail calls with different argument counts
    for a in range(0, N + 1):
        for b in range(0, N + 1):
            out.append([(1, False, 'lambda', 1), (a, False, 'lambda', a), (b, False, 'closure' if (a + b) % 2 else 'lambda', b)])
    # tail calls made through apply: k arguments passed directly, the rest through the list (every split), fixed and variadic callee
    for nf in range(0, N + 1):
        for ng in range(0, N + 1):
            for k in range(0, ng + 1):
                out.append([(nf, False, 'lambda', nf), (ng, False, 'closure' if (nf + k) % 2 else 'lambda', ng, 'apply:%d' % k)])
    for nform in range(1, N + 2):
        for npass in range(0, N + 2):
            for k in sorted({0, npass // 2, npass}):
                out.append([(1, False, 'lambda', 1), (nform, True, 'lambda', npass, 'apply:%d' % k)])
    # apply after a plain tail call, and a plain tail call after apply
    for a in range(0, N + 1):
        out.append([(1, False, 'lambda', 1), (a, False, 'lambda', a), (2, False, 'lambda', 2, 'apply:1')])
        out.append([(1, False, 'lambda', 1), (2, False, 'lambda', 2, 'apply:0'), (a, False, 'lambda', a)])
    # tail calls made through call/cc: the receiver runs in the frame of the caller of call/cc
    for nf in range(0, N + 1):
        for kind in kinds:
            out.append([(nf, False, 'lambda', nf), (1, False, kind, 1, 'callcc')])
        out.append([(nf, False, 'lambda', nf), (1, True, 'lambda', 1, 'callcc')])
    out.append([(1, False, 'lambda', 1), (2, False, 'lambda', 1, 'callcc')])      # receiver of the wrong arity: same error both ways
    # arity errors surface identically
    out.append([(1, False, 'lambda', 1), (2, False, 'lambda', 1, 'apply:0')])
    out.append([(1, False, 'lambda', 1), (2, False, 'lambda', 1)])
    return out


def run(chk, ws, prog, tier, replays):
    dev, rel = replays
    models_vm.install(prog)
    seen = {}
    for chain in plans(tier):
        name = 'tail-chain/' + '->'.join('%s%s%d%s(%d)' % ((c[4] + '>') if len(c) > 4 else '', c[2][0], c[0], '+' if c[1] else '', c[3]) for c in chain)
        h = make_harness(prog, chain)
        res = explore(prog, h, opts={'on_panic': on_panic, 'render_fmt': False}, quiet=True)
        print('  harness %-46s %s' % (name, res.summary()), flush=True)
        chk.add_result(name, res, FUNCTIONS, {'chain (formals, variadic, kind, args passed)': [list(c) for c in chain], 'symbolic': 'every argument value and the result value'})
        for v in res.violations:
            if seen.get(v['key'], 0) >= 3: continue
            seen[v['key']] = seen.get(v['key'], 0) + 1
            b1, d1 = native_verdict(prog, dev, v['request'])
            b2, d2 = native_verdict(prog, rel, v['request'])
            chk.violation(v['key'], (d1 if b1 else d2) + ' | ' + v['what'], v['request'], bool(b1) or bool(b2))
    # compile-time half
    from mirsym.explore import explore_many
    jobs = [(n, make_compiled_harness(prog, ws.src(), n, src)) for n, src in TAIL_FORMS + [NON_TAIL_WITNESS]]
    CF_FUNCS = ['vm::compile::Vm::{compile_runnable,compile,transform,transform_procedure_application,compile_expression,compile_procedure_application,compile_lambda,compile_if,compile_define,compile_set,compile_define_syntax,compile_quote,compile_runtime_procedure_application,compile_symbol_expression,compile_formal_arguments}',
                'vm::transform::Transform::{try_new,transform,pattern_match,expand}', 'vm::environment::{free_symbols,internally_defined_symbols,EnvironmentMap,GlobalEnvironment}', 'vm::lambda::Lambda::*',
                'vm::builtin::Vm::load_builtins', 'vm::Vm::{eval,prepare_eval,run}', 'vm::run::Vm::{run_count,run_one} (every opcode the compiled forms use)', 'prelude.scm of the current tree (every top-level form, evaluated by the real VM from MIR)']
    for name, res in explore_many(prog, [('compiled-tail-form/' + n, h, {'on_panic': on_panic, 'render_fmt': False, 'step_limit': 30000000}) for n, h in jobs], parallel=12, nproc_each=1):
        print('  harness %-46s %s' % (name, res.summary()), flush=True)
        chk.add_result(name, res, CF_FUNCS + FUNCTIONS, {'form': dict(TAIL_FORMS + [NON_TAIL_WITNESS])[name.split('/', 1)[1]], 'symbolic': 'the boolean x tested by the form (the solver decides which branches are feasible), the argument K'}, nontrivial=res.completed)
        for v in res.violations:
            if seen.get(v['key'] + name, 0) >= 1: continue
            seen[v['key'] + name] = 1
            b1, d1 = native_form(dev, v['request']); b2, d2 = native_form(rel, v['request'])
            if b1 is None and b2 is None:
                chk.inconclusive.append('%s: %s | %s' % (name, d1, v['what'])); continue
            chk.violation(v['key'], (d1 if b1 else d2) + ' | ' + v['what'], v['request'], bool(b1) or bool(b2))
    chk.extra['rule'] = ('one completed path per shape (the frame arithmetic of CALL/TCALL/ENTER/VARARG/RET does not branch on argument values); evaluations = MIR paths; '
                         'argument values are solver variables compared with must-queries; distinct_nontrivial = shapes whose two runs were compared slot by slot')
    chk.assumptions += ['the compile-time half (which expressions are compiled to TCALL, the prelude derived forms) is outside the claim: a compiler or prelude change that drops a tail call is NOT detected',
                        'induction from one tail call to n tail calls is argued, not solver-checked', 'apply and call/cc in tail position are covered through the real builtins (apply with every split between direct and list arguments); eval in tail position is outside (it runs the compiler)',
                        'the continuation object passed by call/cc is compared by kind only (its contents are the subject of C05)']
    chk.outside += ['argument counts above %d' % (2 if tier == 'quick' else 3), 'tail calls through eval']


def replay_request(req, replays):
    from vlib import core
    if req.get('cmd') == 'c04form':
        b1, d1 = native_form(replays[0], req); b2, d2 = native_form(replays[1], req)
        return bool(b1) or bool(b2), d1 if b1 else d2
    prog = core.load_program(core.Workspace())
    models_vm.install(prog)
    b1, d1 = native_verdict(prog, replays[0], req)
    b2, d2 = native_verdict(prog, replays[1], req)
    return bool(b1) or bool(b2), d1 if b1 else d2


# ------------------------------------------------------------------------------------------------------
# compile-time half: the REAL compiler, macro expander and prelude, then the real run loop
TAIL_FORMS = [
    # R7RS 3.5: every <tail expression> position, written with the call (g K) in it; x is a symbolic boolean
    ('last-body-expression', '(begin0 1 (g K))'),           # begin0 is replaced by a two-expression lambda body below
    ('if-consequent', '(if x (g K) 0)'), ('if-alternate', '(if x 0 (g K))'), ('if-one-armed', '(if x (g K))'),
    ('cond-clause', '(cond (x (g K)) (else 0))'), ('cond-else', '(cond (x 0) (else (g K)))'), ('cond-no-else', '(cond (x (g K)))'),
    ('cond-second-clause', '(cond (#f 0) (x (g K)) (else 0))'),
    ('case-clause', '(case x ((#t) (g K)) (else 0))'), ('case-else', '(case x ((#t) 0) (else (g K)))'),
    ('and-last', '(and x (g K))'), ('or-last', '(or #f (g K))'), ('and-three', '(and #t x (g K))'),
    ('when', '(when x (g K))'), ('when-two', '(when x 1 (g K))'), ('unless', '(unless x (g K))'),
    ('let', '(let ((y 1)) (g K))'), ('let-two-body', '(let ((y 1)) y (g K))'), ('let*', '(let* ((y 1) (z y)) (g K))'),
    ('letrec', '(letrec ((y 1)) (g K))'), ('named-let', '(let loop ((i 0)) (g K))'),
    ('begin', '(begin 1 (g K))'), ('nested', '(if x (let ((y 1)) (cond (y (begin (when y (g K)))) (else 0))) (g K))'),
    ('lambda-application', '((lambda (y) (g y)) K)'),
    ('apply', '(apply g (list K))'), ('apply-spread', '(apply g K (list))'), ('eval', "(eval (list 'callee K))"),
]
NON_TAIL_WITNESS = ('non-tail-operand', '(g (g K))')          # the inner call is NOT a tail call: its stack must be higher (vacuity witness)


def make_compiled_harness(prog, ws_src, name, src):
    from . import compilefab as CF
    fab = Fab(prog)
    C = CF.Cells(prog)
    RUN_ONE = prog.resolve_crate('Vm::run_one')
    EVAL = prog.resolve_crate('Vm::eval'); LB = prog.resolve_crate('Vm::load_builtins'); PREP = prog.resolve_crate('Vm::prepare_eval')
    prelude = CF.read_all(open(ws_src + '/marwood/prelude.scm').read())

    def subst(sx, env):
        if isinstance(sx, list): return [subst(x, env) for x in sx]
        if isinstance(sx, tuple) and sx[0] == 'sym' and sx[1] in env: return env[sx[1]]
        if isinstance(sx, tuple) and sx[0] == 'dotted': return ('dotted', [subst(x, env) for x in sx[1]], subst(sx[2], env))
        return sx

    def program(body_src, env):
        body = CF.read_all(body_src)[0]
        if isinstance(body, list) and body and body[0] == ('sym', 'begin0'): bodies = body[1:]
        else: bodies = [body]
        lam = [('sym', 'lambda'), [('sym', 'g'), ('sym', 'x')]] + bodies
        return C.of(subst([lam, ('sym', 'callee'), ('sym', 'X')], env))

    def run_to_callee(it, vb, callee_lam, limit=4000):
        """-> list of (sp, bp) at every entry into the callee body, final outcome"""
        f = fab
        hits = []
        for n in range(limit):
            ip = f.field(vb.v, 'Vm', 'ip')
            if ip.f[0] == callee_lam and ip.f[1] == 1:
                hits.append((f.field(f.field(vb.v, 'Vm', 'stack'), 'Stack', 'sp'), f.field(vb.v, 'Vm', 'bp')))
            r = it.call(RUN_ONE, [Ref(vb)])
            if r.var != 0: return hits, ('err', r.f[0].var)
            if r.f[0] is True: return hits, ('halt', deref(f, vb.v, f.field(vb.v, 'Vm', 'acc')))       # the value, not the heap pointer to it
        return hits, ('limit',)

    def harness(it):
        f = fab
        it.ghost['form'] = name
        heap = f.heap([f.vc('Nil')], 4096)
        vm = f.vm(heap, f.stack([f.vc('Undefined') for _ in range(64)], 0))
        vb = Cell(vm)
        it.call(LB, [Ref(vb)])
        for fm in prelude:
            r = it.call(EVAL, [Ref(vb), Ref(Cell(C.of(fm)))])
            if r.var != 0: raise Unsupported('the prelude does not evaluate through the encoding: %r' % (r,))
        r = it.call(EVAL, [Ref(vb), Ref(Cell(C.of(CF.read_all('(define (callee a) a)')[0])))])
        if r.var != 0: raise Unsupported('callee definition failed')
        # where the callee's code lives
        hp = f.field(vb.v, 'Vm', 'heap')
        cells = f.field(hp, 'Heap', 'heap')
        sym = f.field(hp, 'Heap', 'symbol_table').d['callee'].v
        ge = f.field(vb.v, 'Vm', 'globenv')
        slot = f.field(ge, 'GlobalEnvironment', 'bindings').d[sym].v
        v = f.field(ge, 'GlobalEnvironment', 'slots')[slot]
        while f.kind(v) == 'Ptr': v = cells[v.f[0]]
        callee_lam = v.f[0] if f.kind(v) == 'Closure' else None
        if callee_lam is None: raise Unsupported('callee is bound to a %s' % f.kind(v))
        K = z3.BitVec('K', 64); xb = z3.Bool('x')
        env = {'K': C.cv('Number', Agg('Number', 0, [K])), 'X': C.cv('Bool', xb)}
        outs = []
        for body in (src, '(g K)'):
            vb2 = Cell(it.clone(vb.v))
            r = it.call(PREP, [Ref(vb2), Ref(Cell(program(body, env)))])
            if r.var != 0:
                return {'what': 'the form %s does not compile: %r' % (body, r), 'key': 'tail-form-does-not-compile', 'request': {'cmd': 'c04form', 'form': name, 'src': src, 'x': None}}
            outs.append(run_to_callee(it, vb2, callee_lam))
        (hits_f, end_f), (hits_d, end_d) = outs
        m = it.witness()
        xv = bool(z3.is_true(m.eval(xb, model_completion=True))) if m is not None else None
        req = {'cmd': 'c04form', 'form': name, 'src': src, 'x': xv}
        if end_d[0] != 'halt' or len(hits_d) != 1: raise Unsupported('the direct call did not run as expected: %r %r' % (hits_d, end_d))
        if end_f[0] != 'halt':
            return {'what': 'the form %s ends with %r where the direct call returns' % (src, end_f), 'key': 'tail-form-fails', 'request': req}
        if name == NON_TAIL_WITNESS[0]:
            if len(hits_f) == 2 and hits_f[0][0] > hits_d[0][0]:
                it.ghost['tags'] = ['witness-non-tail-call-is-higher']; return None
            raise Unsupported('vacuity witness: the non-tail call (g (g K)) is not seen above the direct call: %r vs %r' % (hits_f, hits_d))
        if not hits_f:
            it.ghost['tags'] = ['call-not-reached-on-this-branch']       # e.g. (when x ..) with x = #f
            return None
        if hits_f[-1] != hits_d[0]:
            return {'what': 'the call (g K) in tail position of %s enters the callee at sp=%d bp=%d, the direct tail call at sp=%d bp=%d: the form grows the stack (x=%s)' % (
                        src, hits_f[-1][0], hits_f[-1][1], hits_d[0][0], hits_d[0][1], xv), 'key': 'tail-form-grows-stack', 'request': req}
        if not it.must(values_equal(it, end_f[1], end_d[1])):
            return {'what': 'the form %s returns a different value than the direct call' % src, 'key': 'tail-form-value-differs', 'request': req}
        it.ghost['tags'] = ['tail-call-at-direct-height']
        it.ghost['sample'] = {'form': src, 'x': xv, 'sp_at_callee': hits_f[-1][0], 'sp_direct': hits_d[0][0]}
        return None
    return harness


def native_form(replay, req):
    """the same form on the real VM through the public API: the depth of the stack trace taken inside the callee"""
    src = req['src'].replace('begin0', 'begin')
    x = '#t' if req.get('x') in (True, None) else '#f'
    def depth(body):
        replay.ask('newvm')
        replay.ask('eval %s' % hexs('(define (callee a) (car a))'))          # fails inside the callee: the trace shows the frames below it
        out = replay.ask('eval %s' % hexs('((lambda (g x) %s) callee %s)' % (body.replace('K', '7'), x)))
        return out, replay.ask('trace')
    of, tf = depth(src); od, td = depth('(g K)')
    if of.startswith('ERR') and 'ExpectedPairButFound(Number(Fixnum(7)))' not in unhexs(of.split()[1]):
        return None, 'natively the form fails before the callee is reached: %s' % unhexs(of.split()[1])
    if tf == 'NOTRACE' or td == 'NOTRACE': return None, 'no failure inside the callee natively (%s / %s): call not reached with x=%s' % (of[:40], od[:40], x)
    return tf != td, 'stack trace inside the callee: %s through %s, %s through a direct tail call (x=%s)' % (tf, src, td, x)
