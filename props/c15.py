"""C15 -- string and character procedures index by character over all of Unicode.

Encoded (real code): every procedure of builtin/string.rs and builtin/char.rs with the pop_* helpers, run from the
real builtin entry `fn(&mut Vm)` on a fabricated VM.  Symbolic: every character (all Unicode scalar values: the
UTF-8 width class is forked, the code point inside the class is a solver variable), every index / start / end
(i64 in -1..len+2 plus two huge representatives), fill / set characters, integer->char arguments (full i64).
Oracle: R7RS with a string as a mutable vector of scalar values (python model below).
"""
import z3
from mirsym.values import *
from mirsym.explore import explore
from mirsym import models_vm
from . import builtins as B
from . import textgen
from .vmfab import Fab
from vlib.core import hexs, unhexs

CHARTABLE = {}
BIG = [(1 << 63) - 1]        # one huge representative (2^32-sized values would only allocate gigabytes: outside the claim)


class H:
    """per-path helper: builds arguments, calls the builtin, decodes results"""
    def __init__(s, prog, fab, it, table):
        s.prog, s.f, s.it, s.table = prog, fab, it, table
        s.A = B.Args(fab, it)
        s.vm = None
        s.desc = []        # symbolic argument descriptions for replay

    def str(s, name, n, ascii_only=False):
        chars = []
        for i in range(n):
            w = 1 if ascii_only else 1 + s.it.choose(4)
            chars.append((s.it.sym_char('%s%d' % (name, i), w), w))
        s.A.string(chars)
        s.desc.append(('str', [c for c, _ in chars]))
        return [c for c, _ in chars]

    def chr(s, name, ascii_only=False):
        w = 1 if ascii_only else 1 + s.it.choose(4)
        c = s.it.sym_char(name, w)
        s.A.char(c); s.desc.append(('char', c))
        return c

    def idx(s, name, lo, hi):
        """symbolic fixnum in lo..hi or one of the huge representatives"""
        v = z3.BitVec(name, 64)
        s.it.assume(z3.Or(z3.And(v >= lo, v <= hi), *[v == b for b in BIG]))
        s.A.fixnum(v); s.desc.append(('int', v))
        return v

    def int_any(s, name):
        v = z3.BitVec(name, 64)
        s.A.fixnum(v); s.desc.append(('int', v))
        return v

    def call(s, proc):
        s.proc = proc
        s.vm = s.A.build()
        s.it.ghost['h'] = s
        vmb = Cell(s.vm)
        r = s.it.call(s.table[proc], [Ref(vmb)])
        s.vm = vmb.v
        s.raw = r.f[0] if r.var == 0 else None
        if r.var == 0: return ('ok', B.decode(s.f, s.it, s.vm, r.f[0]))
        return ('err', s.prog.enums['error::Error'][r.f[0].var])

    def post(s, argi):
        """current contents of the heap object of argument argi"""
        o = s.A.objs[argi]
        return B.decode(s.f, s.it, s.vm, B.heap_cells(s.f, s.vm)[o[1]])

    def conc(s, v):
        return s.it.concretize(v) if is_sym(v) else v

    def sint(s, v):
        v = s.conc(v)
        return v - (1 << 64) if v >= 1 << 63 else v

    def request(s, m=None):
        m = m or s.it.witness()
        args = [B.conc_val(m, d) for d in s.desc]
        return {'cmd': 'builtin', 'proc': s.proc, 'args': [list(a) for a in args]}

    def bad(s, what, key):
        return {'what': '%s: %s' % (s.proc, what), 'key': key, 'request': s.request()}


def expect(h, got, want, key, what=None):
    """got: ('ok', decoded) | ('err', variant); want: ('ok', decoded) | ('err',)"""
    if want[0] == 'err':
        if got[0] != 'err': return h.bad(what or 'expected an error, got %r' % (got[1],), key)
        return None
    if got[0] != 'ok': return h.bad(what or 'expected a value, got error %s' % got[1], key)
    if not B.same(h.it, got[1], want[1]): return h.bad(what or 'wrong result %r, expected %r' % (got[1], want[1]), key)
    return None


def unchanged(h, argi, chars, key='mutates-argument'):
    p = h.post(argi)
    if not B.same(h.it, p, ('str', chars)): return h.bad('argument %d changed: %r' % (argi, p), key)
    return None


# ------------------------------------------------------------------------------------------ cases
def case_string_length(h, n):
    s = h.str('s', n)
    got = h.call('string-length')
    return expect(h, got, ('ok', ('int', n)), 'string-length') or unchanged(h, 0, s)


def case_string_ref(h, n):
    s = h.str('s', n); k = h.idx('k', -1, n + 2)
    got = h.call('string-ref')
    kv = h.sint(k)
    if 0 <= kv < n: return expect(h, got, ('ok', ('char', s[kv])), 'string-ref') or unchanged(h, 0, s)
    return expect(h, got, ('err',), 'string-ref-range') or unchanged(h, 0, s)


def case_string_set(h, n):
    s = h.str('s', n); k = h.idx('k', -1, n + 2); c = h.chr('c')
    got = h.call('string-set!')
    kv = h.sint(k)
    if 0 <= kv < n:
        want = list(s); want[kv] = c
        return expect(h, got, ('ok', ('void',)), 'string-set!') or unchanged(h, 0, want, 'string-set!-effect')
    return expect(h, got, ('err',), 'string-set!-range') or unchanged(h, 0, s)


def substring_case(proc, wrap):
    def case(h, n, argc):
        s = h.str('s', n)
        st = h.idx('start', -1, n + 2) if argc >= 2 else None
        en = h.idx('end', -1, n + 2) if argc >= 3 else None
        got = h.call(proc)
        a = h.sint(st) if st is not None else 0
        b = h.sint(en) if en is not None else n
        if 0 <= a <= b <= n:
            key = proc
            r = expect(h, got, ('ok', wrap(s[a:b])), key)
        else:
            key = proc + '-range'
            if a == b and a > n: key = proc + '-equal-out-of-range-indices'
            r = expect(h, got, ('err',), key)
        return r or unchanged(h, 0, s)
    return case


def case_string_fill(h, n, argc):
    s = h.str('s', n); c = h.chr('c')
    st = h.idx('start', -1, n + 2) if argc >= 3 else None
    en = h.idx('end', -1, n + 2) if argc >= 4 else None
    got = h.call('string-fill!')
    a = h.sint(st) if st is not None else 0
    b = h.sint(en) if en is not None else n
    if 0 <= a <= b <= n:
        want = list(s)
        for i in range(a, b): want[i] = c
        return expect(h, got, ('ok', ('void',)), 'string-fill!') or unchanged(h, 0, want, 'string-fill!-effect')
    key = 'string-fill!-range'
    if a == b and a > n: key = 'string-fill!-equal-out-of-range-indices'
    return expect(h, got, ('err',), key) or unchanged(h, 0, s)


def fresh_result(h, argi, key='result-shares-storage-with-argument'):
    """the string a procedure returns must be a new object: mutating it later must not reach the argument (R7RS: newly allocated)"""
    f = h.f
    cells = B.heap_cells(f, h.vm)
    arg = cells[h.A.objs[argi][1]]
    res = h.raw
    n = 0
    while res is not None and f.kind(res) == 'Ptr' and n < 4:
        res = cells[res.f[0]]; n += 1
    if res is None or f.kind(res) != 'String' or f.kind(arg) != 'String': return None
    ra, rr = arg.f[0], res.f[0]
    if ra.cell is rr.cell or ra.get() is rr.get():
        return h.bad('the returned string is the argument itself (same storage): a later string-set! on one changes the other', key)
    return None


def case_string_append1(h, n1):
    a = h.str('a', n1)
    got = h.call('string-append')
    return expect(h, got, ('ok', ('str', a)), 'string-append') or unchanged(h, 0, a) or fresh_result(h, 0)


def case_string_append(h, n1, n2):
    a = h.str('a', n1); b = h.str('b', n2)
    got = h.call('string-append')
    return expect(h, got, ('ok', ('str', a + b)), 'string-append') or unchanged(h, 0, a) or unchanged(h, 1, b) or fresh_result(h, 0) or fresh_result(h, 1)


def case_string_vector(h, n):
    s = h.str('s', n)
    got = h.call('string->vector')
    return expect(h, got, ('ok', ('vec', [('char', c) for c in s])), 'string->vector') or unchanged(h, 0, s)


def case_string(h, n):
    cs = [h.chr('c%d' % i) for i in range(n)]
    got = h.call('string')
    return expect(h, got, ('ok', ('str', cs)), 'string')


def case_make_string(h, argc):
    k = h.idx('k', -1, 3)
    c = h.chr('c') if argc == 2 else 0
    got = h.call('make-string')
    kv = h.sint(k)
    if kv in BIG: return None           # allocation size: outside the claim
    if 0 <= kv: return expect(h, got, ('ok', ('str', [c] * kv)), 'make-string')
    return expect(h, got, ('err',), 'make-string-range')


def case_vector_string(h, n):
    cs = [h.it.sym_char('v%d' % i, 1 + h.it.choose(4)) for i in range(n)]
    h.A.vector([h.f.vc('Char', c) for c in cs]); h.desc.append(('vec', [('char', c) for c in cs]))
    got = h.call('vector->string')
    return expect(h, got, ('ok', ('str', cs)), 'vector->string')


def lex_lt(it, a, b):
    """z3 Bool: a < b lexicographically by code point (lists of char terms)"""
    lt = z3.BoolVal(len(a) < len(b))
    for x, y in reversed(list(zip(a, b))):
        X, Y = it.to_bv(x, 32), it.to_bv(y, 32)
        lt = z3.If(X == Y, lt, z3.ULT(X, Y))
    return lt


def lex_eq(it, a, b):
    if len(a) != len(b): return z3.BoolVal(False)
    return z3.And([it.to_bv(x, 32) == it.to_bv(y, 32) for x, y in zip(a, b)] + [z3.BoolVal(True)])


def compare_case(proc, rel):
    def case(h, n1, n2):
        a = h.str('a', n1); b = h.str('b', n2)
        got = h.call(proc)
        lt, eq = lex_lt(h.it, a, b), lex_eq(h.it, a, b)
        want = {'=': eq, '<': lt, '>': z3.And(z3.Not(lt), z3.Not(eq)), '<=': z3.Or(lt, eq), '>=': z3.Not(lt)}[rel]
        return expect(h, got, ('ok', ('bool', z3.simplify(want))), proc)
    return case


def case_char_integer(h):
    c = h.chr('c')
    got = h.call('char->integer')
    return expect(h, got, ('ok', ('int', z3.ZeroExt(32, c))), 'char->integer')


def case_integer_char(h):
    v = h.int_any('n')
    got = h.call('integer->char')
    valid = z3.Or(z3.And(v >= 0, v < 0xD800), z3.And(v >= 0xE000, v <= 0x10FFFF))
    if h.it.branch(valid):
        return expect(h, got, ('ok', ('char', z3.Extract(31, 0, v))), 'integer->char')
    return expect(h, got, ('err',), 'integer->char-range')


def char_compare_case(proc, rel, ci=False):
    def case(h):
        a = h.chr('a', ascii_only=ci); b = h.chr('b', ascii_only=ci)
        got = h.call(proc)
        A, Bv = a, b
        if ci:
            fold = lambda c: z3.If(z3.And(z3.UGE(c, 65), z3.ULE(c, 90)), c + 32, c)
            A, Bv = fold(a), fold(b)
        want = {'=': A == Bv, '<': z3.ULT(A, Bv), '>': z3.UGT(A, Bv), '<=': z3.ULE(A, Bv), '>=': z3.UGE(A, Bv)}[rel]
        return expect(h, got, ('ok', ('bool', z3.simplify(want))), proc)
    return case


def ascii_pred_case(proc, pred):
    def case(h):
        c = h.chr('c', ascii_only=True)
        got = h.call(proc)
        return expect(h, got, ('ok', ('bool', z3.simplify(pred(c)))), proc)
    return case


def case_char_case(proc, up):
    def case(h):
        c = h.chr('c', ascii_only=True)
        got = h.call(proc)
        if up: want = z3.If(z3.And(z3.UGE(c, 97), z3.ULE(c, 122)), c - 32, c)
        else: want = z3.If(z3.And(z3.UGE(c, 65), z3.ULE(c, 90)), c + 32, c)
        return expect(h, got, ('ok', ('char', z3.simplify(want))), proc)
    return case


CASE_PALETTE = [0xE9, 0xC9, 0xDF, 0x3BB, 0x3A3, 0x3C2, 0x130, 0x131, 0x149, 0x1C5, 0xFB01, 0x3042, 0x1F600, 0x10400, 0x10428]


def case_char_case_palette(proc, up):
    """non-ASCII characters from a concrete palette; the expected mapping is R7RS: the single-character case mapping
    of the real library tables, else the character itself"""
    def case(h):
        cp = CASE_PALETTE[h.it.choose(len(CASE_PALETTE))]
        h.A.char(cp); h.desc.append(('char', cp))
        got = h.call(proc)
        t = h.prog.chartable[cp]['toupper' if up else 'tolower']
        want = t[0] if len(t) == 1 else cp
        return expect(h, got, ('ok', ('char', want)), proc + '-non-ascii')
    return case


def case_digit_value(h):
    c = h.chr('c')
    got = h.call('digit-value')
    if h.it.branch(z3.And(z3.UGE(c, 48), z3.ULE(c, 57))):
        return expect(h, got, ('ok', ('int', z3.ZeroExt(32, c - 48))), 'digit-value')
    return expect(h, got, ('ok', ('bool', False)), 'digit-value')


rng = lambda c, lo, hi: z3.And(z3.UGE(c, ord(lo)), z3.ULE(c, ord(hi)))


def plan(tier):
    """list of (name, case function, args) -- the stated bounds"""
    N = 3 if tier == 'quick' else 4
    out = []
    for n in range(0, N + 1):
        out.append(('string-length/n=%d' % n, case_string_length, (n,)))
        out.append(('string-ref/n=%d' % n, case_string_ref, (n,)))
        out.append(('string-set!/n=%d' % n, case_string_set, (n,)))
        out.append(('string->vector/n=%d' % n, case_string_vector, (n,)))
        out.append(('vector->string/n=%d' % n, case_vector_string, (n,)))
        if n >= 1: out.append(('string/n=%d' % n, case_string, (n,)))
    M = 2 if tier == 'quick' else 3
    for n in range(0, M + 1):
        for argc in (1, 2, 3):
            out.append(('string-copy/n=%d/argc=%d' % (n, argc), substring_case('string-copy', lambda cs: ('str', cs)), (n, argc)))
            out.append(('string->list/n=%d/argc=%d' % (n, argc), substring_case('string->list', lambda cs: ('list', [('char', c) for c in cs], ('nil',)) if cs else ('nil',)), (n, argc)))
        for argc in (2, 3, 4):
            out.append(('string-fill!/n=%d/argc=%d' % (n, argc), case_string_fill, (n, argc)))
    for n1 in range(0, 3):
        out.append(('string-append/%d' % n1, case_string_append1, (n1,)))
    for n1 in range(0, 3):
        for n2 in range(0, 3):
            out.append(('string-append/%d+%d' % (n1, n2), case_string_append, (n1, n2)))
            if n1 + n2 <= (3 if tier == 'quick' else 4):
                for proc, rel in (('string=?', '='), ('string<?', '<'), ('string>?', '>'), ('string<=?', '<='), ('string>=?', '>=')):
                    out.append(('%s/%d,%d' % (proc, n1, n2), compare_case(proc, rel), (n1, n2)))
    out.append(('make-string/argc=1', case_make_string, (1,)))
    out.append(('make-string/argc=2', case_make_string, (2,)))
    out.append(('char->integer', case_char_integer, ()))
    out.append(('integer->char', case_integer_char, ()))
    out.append(('digit-value', case_digit_value, ()))
    for proc, rel in (('char=?', '='), ('char<?', '<'), ('char>?', '>'), ('char<=?', '<='), ('char>=?', '>=')):
        out.append((proc, char_compare_case(proc, rel), ()))
        out.append((proc.replace('char', 'char-ci') + ' (ASCII)', char_compare_case(proc.replace('char', 'char-ci'), rel, ci=True), ()))
    out.append(('char-alphabetic? (ASCII)', ascii_pred_case('char-alphabetic?', lambda c: z3.Or(rng(c, 'a', 'z'), rng(c, 'A', 'Z'))), ()))
    out.append(('char-numeric? (ASCII)', ascii_pred_case('char-numeric?', lambda c: rng(c, '0', '9')), ()))
    out.append(('char-whitespace? (ASCII)', ascii_pred_case('char-whitespace?', lambda c: z3.Or(c == 32, z3.And(z3.UGE(c, 9), z3.ULE(c, 13)))), ()))
    out.append(('char-upper-case? (ASCII)', ascii_pred_case('char-upper-case?', lambda c: rng(c, 'A', 'Z')), ()))
    out.append(('char-lower-case? (ASCII)', ascii_pred_case('char-lower-case?', lambda c: rng(c, 'a', 'z')), ()))
    out.append(('char-upcase (ASCII)', case_char_case('char-upcase', True), ()))
    out.append(('char-downcase (ASCII)', case_char_case('char-downcase', False), ()))
    out.append(('char-foldcase (ASCII)', case_char_case('char-foldcase', False), ()))
    out.append(('char-upcase (palette)', case_char_case_palette('char-upcase', True), ()))
    out.append(('char-downcase (palette)', case_char_case_palette('char-downcase', False), ()))
    out.append(('char-foldcase (palette)', case_char_case_palette('char-foldcase', False), ()))
    return out


def make_harness(prog, table, casefn, args):
    fab = Fab(prog)
    def harness(it):
        h = H(prog, fab, it, table)
        v = casefn(h, *args)
        if v: return v
        m = it.witness()
        if m is not None:
            it.ghost['sample'] = {'call': [h.proc] + [B.canon(B.conc_val(m, d)) for d in h.desc]}
        return None
    return harness


def on_panic(it, e):
    h = it.ghost.get('h')
    if h is None: return {'what': 'panic before the call: %s' % e, 'key': 'panic', 'request': None}
    if h.proc == 'make-string' and e.kind == 'capacity-overflow': return None      # allocation size: outside the claim
    key = 'panic:%s:%s' % (h.proc, e.kind)
    return {'what': '%s panics: %s' % (h.proc, e), 'key': key, 'request': h.request()}


# ------------------------------------------------------------------------------------------ native confirmation
def py_model(proc, args):
    """reference result on CONCRETE arguments: ('ok', canonical text) | ('err',) | None (no opinion).
    For mutators the canonical text is that of the mutated first argument."""
    def S(i): return list(args[i][1])
    n = len(S(0)) if args and args[0][0] == 'str' else 0
    def rngargs(k0):
        a = args[k0][1] if len(args) > k0 else 0
        b = args[k0 + 1][1] if len(args) > k0 + 1 else n
        return a, b
    if proc == 'string-length': return ('ok', 'I%d' % n)
    if proc == 'string-ref':
        k = args[1][1]
        return ('ok', 'C%d' % S(0)[k]) if 0 <= k < n else ('err',)
    if proc == 'string-set!':
        k = args[1][1]
        if not 0 <= k < n: return ('err',)
        s = S(0); s[k] = args[2][1]
        return ('mut', B.canon(('str', s)))
    if proc in ('string-copy', 'string->list'):
        a, b = rngargs(1)
        if not 0 <= a <= b <= n: return ('err',)
        sub = S(0)[a:b]
        if proc == 'string-copy': return ('ok', B.canon(('str', sub)))
        return ('ok', B.canon(('list', [('char', c) for c in sub], ('nil',))) if sub else 'N')
    if proc == 'string-fill!':
        a, b = rngargs(2)
        if not 0 <= a <= b <= n: return ('err',)
        s = S(0)
        for i in range(a, b): s[i] = args[1][1]
        return ('mut', B.canon(('str', s)))
    if proc == 'string-append': return ('ok', B.canon(('str', S(0) + (S(1) if len(args) > 1 else []))))
    if proc == 'string->vector': return ('ok', B.canon(('vec', [('char', c) for c in S(0)])))
    if proc == 'vector->string': return ('ok', B.canon(('str', [c[1] for c in args[0][1]])))
    if proc == 'string': return ('ok', B.canon(('str', [a[1] for a in args])))
    if proc == 'make-string':
        k = args[0][1]
        if k < 0: return ('err',)
        if k > 1000: return None
        return ('ok', B.canon(('str', [args[1][1] if len(args) > 1 else 0] * k)))
    if proc in ('string=?', 'string<?', 'string>?', 'string<=?', 'string>=?'):
        a, b = S(0), S(1)
        r = {'=': a == b, '<': a < b, '>': a > b, '<=': a <= b, '>=': a >= b}[proc[6:-1]]
        return ('ok', 'B%d' % r)
    if proc == 'char->integer': return ('ok', 'I%d' % args[0][1])
    if proc == 'integer->char':
        v = args[0][1]
        return ('ok', 'C%d' % v) if (0 <= v < 0xD800 or 0xE000 <= v <= 0x10FFFF) else ('err',)
    if proc == 'digit-value':
        c = args[0][1]
        return ('ok', 'I%d' % (c - 48)) if 48 <= c <= 57 else ('ok', 'B0')
    if proc.startswith('char') and proc.endswith('?') and len(args) == 2:
        a, b = args[0][1], args[1][1]
        if '-ci' in proc:
            f = lambda c: c + 32 if 65 <= c <= 90 else c
            a, b = f(a), f(b)
        rel = proc.replace('char-ci', '').replace('char', '')[:-1]
        return ('ok', 'B%d' % {'=': a == b, '<': a < b, '>': a > b, '<=': a <= b, '>=': a >= b}[rel])
    if proc in ('char-upcase', 'char-downcase', 'char-foldcase') and args[0][1] >= 128 and CHARTABLE.get(args[0][1]):
        t = CHARTABLE[args[0][1]]['toupper' if proc == 'char-upcase' else 'tolower']
        return ('ok', 'C%d' % (t[0] if len(t) == 1 else args[0][1]))
    if proc in ('char-upcase', 'char-downcase', 'char-foldcase') and args[0][1] < 128:
        c = args[0][1]
        if proc == 'char-upcase': return ('ok', 'C%d' % (c - 32 if 97 <= c <= 122 else c))
        return ('ok', 'C%d' % (c + 32 if 65 <= c <= 90 else c))
    if proc in ('char-alphabetic?', 'char-numeric?', 'char-whitespace?', 'char-upper-case?', 'char-lower-case?') and args[0][1] < 128:
        c = chr(args[0][1])
        r = {'char-alphabetic?': c.isalpha(), 'char-numeric?': c.isdigit(), 'char-whitespace?': c in ' \t\n\x0b\x0c\r',
             'char-upper-case?': 'A' <= c <= 'Z', 'char-lower-case?': 'a' <= c <= 'z'}[proc]
        return ('ok', 'B%d' % r)
    return None


def native_verdict(replay, req):
    proc, args = req['proc'], [tuple(a) for a in req['args']]
    def fix(a):
        if a[0] == 'vec': return ('vec', [tuple(x) for x in a[1]])
        return a
    args = [fix(a) for a in args]
    want = py_model(proc, args)
    if want is None: return None, 'no concrete reference model for %s' % proc
    srcs = [B.scheme_of(a) for a in args]
    if want[0] == 'mut' or proc in ('string-set!', 'string-fill!'):
        text = '(let ((s %s)) (%s s %s) s)' % (srcs[0], proc, ' '.join(srcs[1:]))
    else:
        text = '(%s %s)' % (proc, ' '.join(srcs))
    replay.ask('newvm')
    out = replay.ask('evalc ' + hexs(text))
    call = '(%s %s)' % (proc, ' '.join(B.canon(a) for a in args))
    if req.get('key') == 'result-shares-storage-with-argument' or (proc == 'string-append' and not out.startswith(('ERR', 'PANIC', 'ABORT'))):
        # freshness probe: fill the result and look at the arguments
        names = ['a%d' % i for i in range(len(srcs))]
        probe = '(let* (%s (r (%s %s))) (string-fill! r #\\z) (list %s))' % (' '.join('(%s %s)' % (n_, s_) for n_, s_ in zip(names, srcs)), proc, ' '.join(names), ' '.join(names))
        ref = '(list %s)' % ' '.join(srcs)
        replay.ask('newvm'); o1 = replay.ask('evalc ' + hexs(probe))
        replay.ask('newvm'); o2 = replay.ask('evalc ' + hexs(ref))
        if o1.startswith('OK') and o2.startswith('OK') and o1 != o2:
            return True, 'after (string-fill! (%s ..) #\\z) the arguments read %s, they were %s: the result shares storage with an argument' % (proc, o1[3:], o2[3:])
    if out.startswith(('PANIC', 'ABORT')): return True, '%s: %s' % (call, out)
    if want[0] == 'err':
        return not out.startswith('ERR'), '%s => %s, expected an error' % (call, out)
    if out.startswith('ERR'): return True, '%s => error %s, expected %s' % (call, unhexs(out.split()[2]), want[1])
    got = out[3:]
    return got != want[1], '%s => %s, expected %s' % (call, got, want[1])


FUNCTIONS = ['vm::builtin::string::*', 'vm::builtin::char::*', 'vm::builtin::{pop_argc,pop_string,pop_char,pop_index,pop_usize,pop_integer,pop_vector,pop_number}',
             'number::Number::{to_usize,to_u32,is_integer}', 'vm::heap::Heap::{get,put,alloc}', 'vm::stack::Stack::pop', 'vm::vcell::VCell::{string,vector,as_char,...}',
             'vm::vector::Vector::{len,get}']


def run(chk, ws, prog, tier, replays):
    dev, rel = replays
    models_vm.install(prog)
    textgen.load_chartable(prog, dev, CASE_PALETTE)
    CHARTABLE.update(prog.chartable)
    table = B.builtin_table(prog)
    seen = {}
    for name, casefn, args in plan(tier):
        for mode in ('dev', 'release'):
            if mode == 'release' and not any(x in name for x in ('string-ref', 'string-set!', 'string-copy', 'string->list', 'string-fill!')): continue
            if mode == 'release' and 'n=%d' % (3 if tier == 'quick' else 4) in name: continue
            hname = '%s/%s' % (name, 'overflow-checks' if mode == 'dev' else 'wrapping')
            h = make_harness(prog, table, casefn, args)
            res = explore(prog, h, opts={'on_panic': on_panic, 'overflow_checks': mode == 'dev'}, quiet=True)
            print('  harness %-52s %s' % (hname, res.summary()), flush=True)
            chk.add_result(hname, res, FUNCTIONS, {'case': name, 'arithmetic': 'overflow checks on (tested profile)' if mode == 'dev' else 'wrapping (release profile)',
                                                   'chars': 'all Unicode scalar values per width class', 'indices': 'symbolic i64 in -1..len+2 or i64::MAX'})
            for v in res.violations:
                if v.get('request') is None:
                    chk.inconclusive.append('%s: %s' % (hname, v['what'])); continue
                if seen.get(v['key'], 0) >= 3: continue
                rp = dev if mode == 'dev' else rel
                b, d = native_verdict(rp, v['request'])
                if b is None:
                    chk.inconclusive.append('%s: %s (%s)' % (hname, v['what'], d)); continue
                if not b:
                    # the other profile may be the one that misbehaves
                    b2, d2 = native_verdict(rel if mode == 'dev' else dev, v['request'])
                    if b2: b, d = b2, d2
                seen[v['key']] = seen.get(v['key'], 0) + 1
                chk.violation(v['key'], d + ' | ' + v['what'], v['request'], bool(b))
    chk.assumptions += ['one-step claim: operation sequences are covered by the step plus the arbitrary pre-state string',
                        'case conversion / Unicode-table predicates are checked exactly on ASCII only; -ci string comparisons and non-ASCII case mapping are outside the claim of this check']
    chk.outside += ['strings longer than the bound', 'full Unicode case tables', 'allocation sizes (make-string with huge counts)']


def replay_request(req, replays):
    b1, d1 = native_verdict(replays[0], req)
    b2, d2 = native_verdict(replays[1], req)
    return bool(b1) or bool(b2), d1 if b1 else d2
