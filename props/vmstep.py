"""Fabricated bytecode programs and VM states for the step lemmas about the run loop (C13, C07) and the calling
convention (C04, C05).  Programs are built directly as Lambda values (bytecode vectors are plain data), not
through the compiler; operand values are solver variables."""
import z3
from mirsym.values import *
from mirsym.models_core import values_equal, clone_val
from .vmfab import Fab, USIZE_MAX
from . import vmfab


class Prog:
    """a heap image: lambdas at known indices + data cells"""
    def __init__(s, fab):
        s.f = fab
        s.cells = []

    def add(s, cell):
        s.cells.append(cell)
        return len(s.cells) - 1

    def reserve(s):
        s.cells.append(None)
        return len(s.cells) - 1

    def entry(s, main_idx):
        """what compile_runnable emits: PUSH argc(0); MOV main -> acc; CALL; HALT"""
        f = s.f
        return f.vlambda([f.op('PushImmediate'), f.vc('ArgumentCount', 0), f.op('MovImmediate'), f.ptr(main_idx), f.vc('Acc'),
                          f.op('CallAcc'), f.op('Halt')])

    def vm(s, entry_idx, capacity, garbage=0, stack_len=16):
        f = s.f
        cells = list(s.cells)
        for _ in range(garbage):
            cells.append(f.string('garbage'))      # unreachable cells: raise utilisation so that slice-end collections do real work
        heap = f.heap(cells, capacity)
        st = [f.vc('Undefined') for _ in range(stack_len)]
        return f.vm(heap, f.stack(st, 0), ip=(entry_idx, 0))


def call_seq(f, target_idx, args, tail=False):
    """push args; push argc; MOV target -> acc; CALL/TCALL"""
    bc = []
    for a in args:
        bc += [f.op('PushImmediate'), a]
    bc += [f.op('PushImmediate'), f.vc('ArgumentCount', len(args)), f.op('MovImmediate'), f.ptr(target_idx), f.vc('Acc'),
           f.op('TCallAcc' if tail else 'CallAcc')]
    return bc


def prog_cons_call(fab, a, b):
    """(define (f x y) (cons x y)) (f a b)  -- one call, one allocation; result (a . b)"""
    f = fab
    P = Prog(f)
    e = P.reserve(); m = P.reserve(); fn = P.reserve()
    P.cells[fn] = f.vlambda([f.op('Enter'), f.op('Push'), f.vc('BasePointerOffset', -1), f.op('Push'), f.vc('BasePointerOffset', 0),
                             f.op('Cons'), f.op('Ret')], args=[f.ptr(fn), f.ptr(fn)])
    P.cells[m] = f.vlambda([f.op('Enter')] + call_seq(f, fn, [f.fixnum(a), f.fixnum(b)]) + [f.op('Ret')])
    P.cells[e] = P.entry(m)
    return P, e, 'pair'


def prog_nested(fab, depth, fail=None, value=7):
    """main -> f1 -> ... -> f_depth; the innermost returns `value` or fails with the chosen error source"""
    f = fab
    P = Prog(f)
    e = P.reserve(); m = P.reserve()
    fns = [P.reserve() for _ in range(depth)]
    sym = P.add(f.symbol('undefined-variable'))
    def leaf():
        if fail is None: return [f.op('MovImmediate'), f.fixnum(value), f.vc('Acc')]
        if fail == 'non-procedure':       # (5): CALL with a number in %acc
            return [f.op('PushImmediate'), f.vc('ArgumentCount', 0), f.op('MovImmediate'), f.fixnum(5), f.vc('Acc'), f.op('CallAcc')]
        if fail == 'unbound-global':      # reference to an undefined global slot
            return [f.op('Mov'), f.vc('GlobalEnvSlot', 0), f.vc('Acc')]
        if fail == 'arity':               # call f with the wrong number of arguments (callee checks in ENTER)
            return call_seq(f, arity_fn[0], [f.fixnum(1)])
        if fail == 'bad-operand':         # MOV with a non-reference operand
            return [f.op('Mov'), f.fixnum(1), f.vc('Acc')]
        if fail == 'symbolic-target':     # call with one argument through a SYMBOLIC heap index: the solver decides what is called
            return call_seq(f, target[0], [f.fixnum(value)])
        raise KeyError(fail)
    arity_fn = [None]
    target = [None]
    if fail == 'symbolic-target':
        # candidates: procedures of arity 0, 1 (succeeds), 2, a number, a string, a symbol, nil
        cands = [P.add(f.vlambda([f.op('Enter'), f.op('Ret')], args=[f.ptr(sym)] * k)) for k in (0, 1, 2)]
        cands += [P.add(f.fixnum(3)), P.add(f.string('s')), P.add(f.vc('Nil'))]
        t = z3.BitVec('target', 64)
        target[0] = t
        P.target_range = (cands[0], cands[-1])
    if fail == 'arity':
        arity_fn[0] = P.add(f.vlambda([f.op('Enter'), f.op('Ret')], args=[f.ptr(sym), f.ptr(sym)]))
    chain = [m] + fns
    for i, idx in enumerate(chain):
        if i + 1 < len(chain):
            body = call_seq(f, chain[i + 1], [])
        else:
            body = leaf()
        P.cells[idx] = f.vlambda([f.op('Enter')] + body + [f.op('Ret')])
    P.cells[e] = P.entry(m)
    return P, e, sym


def result_cell(it, r):
    """Result<Option<Cell>, Error> -> ('value', Cell agg) | ('none',) | ('err', variant index)"""
    if r.var == 1: return ('err', r.f[0].var)
    o = r.f[0]
    if o.var == 0: return ('none',)
    return ('value', o.f[0])
