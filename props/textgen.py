"""Symbolic source texts shared by the reader / highlighter harnesses (C06, C10, C11, C20).

A text of n characters: per position the harness forks (a stated, enumerated shape choice) between
  * one symbolic ASCII code point (7 bits: a solver variable covering all 128 values), and
  * one of the concrete non-ASCII representatives below (2/3/4-byte; alphabetic / not; whitespace / not;
    <= 0xFF / above), whose Unicode classification is read from the real `char` methods at run time.
"""
import z3
from mirsym.values import StrObj, StrRef, utf8_width, is_sym

NON_ASCII_REPS = [0x00E9, 0x00D7, 0x00A0, 0x03BB, 0x2003, 0x3042, 0xFF08, 0x1F600]


def load_chartable(prog, replay, cps=NON_ASCII_REPS):
    """exact classification of the representatives, from the real library (native replay binary)"""
    tbl = getattr(prog, 'chartable', None) or {}
    for cp in cps:
        if cp in tbl: continue
        out = replay.ask('charinfo %d' % cp)
        assert out.startswith('OK '), out
        kv = dict(x.split('=') for x in out[3:].split())
        tbl[cp] = {'is_alphabetic': kv['alpha'] == 'true', 'is_whitespace': kv['ws'] == 'true',
                   'is_numeric': kv['numeric'] == 'true', 'is_control': kv['control'] == 'true',
                   'is_lowercase': kv['lower'] == 'true', 'is_uppercase': kv['upper'] == 'true',
                   'is_alphanumeric': kv['alpha'] == 'true' or kv['numeric'] == 'true',
                   'len': int(kv['len']),
                   'tolower': [int(x) for x in kv['tolower'].split(',')], 'toupper': [int(x) for x in kv['toupper'].split(',')]}
        assert tbl[cp]['len'] == utf8_width(cp)
    prog.chartable = tbl
    return tbl


def sym_text(it, n, non_ascii=True, prefix='c', alphabet=None):
    """-> (StrRef, chars) where chars is the list of code points (z3 terms or ints)"""
    chars = []
    for i in range(n):
        if alphabet is not None:
            k = it.choose(len(alphabet))
            cp = alphabet[k]
            if cp is None:
                chars.append((it.sym_char('%s%d' % (prefix, i), 1), 1))
            else:
                chars.append((cp, utf8_width(cp)))
            continue
        k = it.choose(1 + len(NON_ASCII_REPS)) if non_ascii else 0
        if k == 0:
            chars.append((it.sym_char('%s%d' % (prefix, i), 1), 1))
        else:
            cp = NON_ASCII_REPS[k - 1]
            chars.append((cp, utf8_width(cp)))
    so = StrObj(chars)
    return StrRef(so, 0, n), [c for c, _ in chars]


def concretize_text(model, chars):
    """python str of the text under a solver model"""
    out = []
    for c in chars:
        if is_sym(c):
            v = model.eval(c, model_completion=True).as_long()
            out.append(chr(v))
        else:
            out.append(chr(c))
    return ''.join(out)


def same_term(a, b):
    if is_sym(a) and is_sym(b): return a.eq(b)
    if is_sym(a) or is_sym(b): return False
    return a == b


def same_chars(xs, ys):
    """structural identity of two char lists [(cp, w)]"""
    if len(xs) != len(ys): return False
    return all(same_term(x[0], y[0]) for x, y in zip(xs, ys))
