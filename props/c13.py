"""C13 -- sliced execution is equivalent to uninterrupted execution (budget-composition lemma).

Encoded (real code): Vm::run_count (budget loop, slice-end collection, HALT arm with get_as_cell / Stack::clear), Vm::run,
Vm::run_one for the instructions of the fabricated programs (PUSH/MOV/CALL/ENTER/CONS/RET/HALT), Vm::run_gc.
Symbolic: the slice budgets n1, n2, n3 (solver variables in 1..8 / 1..12) and the data operands.
Asserted: every slice with budget >= 1 on a non-halted VM executes at least one instruction (ghost count of run_one
invocations), the sliced run terminates, and it yields the value and final registers of the uninterrupted run.
"""
import z3
from mirsym.values import *
from mirsym.explore import explore
from mirsym.models_core import values_equal, clone_val
from mirsym import models_vm
from .vmfab import Fab, USIZE_MAX
from . import vmfab, vmstep
from vlib.core import hexs, unhexs

MAX_SLICES = 48


def make_harness(prog, which, cap, garbage, maxb):
    fab = Fab(prog)
    RUN_COUNT = prog.resolve_crate('Vm::run_count')
    RUN_ONE = prog.resolve_crate('Vm::run_one')
    prog.observers[RUN_ONE] = lambda it, args, r: it.ghost.__setitem__('steps', it.ghost.get('steps', 0) + 1)

    def build(it):
        f = fab
        a, b = z3.BitVec('a', 64), z3.BitVec('b', 64)
        if which == 'cons-call':
            P, e, _ = vmstep.prog_cons_call(f, a, b)
        else:
            depth = int(which.split('-')[1])
            P, e, sym = vmstep.prog_nested(f, depth, None, a)
        return P.vm(e, cap, garbage), (a, b)

    def harness(it):
        f = fab
        budgets = [z3.BitVec('n%d' % i, 64) for i in range(3)]
        for n in budgets: it.assume(z3.And(z3.UGE(n, 1), z3.ULE(n, maxb)))
        it.ghost['which'] = (which, cap, garbage)
        # uninterrupted reference run on an identical VM
        vm_ref, (a, b) = build(it)
        rb = Cell(vm_ref)
        ref = vmstep.result_cell(it, it.call(RUN_COUNT, [Ref(rb), USIZE_MAX]))
        ref_sp = f.field(f.field(rb.v, 'Vm', 'stack'), 'Stack', 'sp')
        # sliced run
        vm, _ = build(it)
        vb = Cell(vm)
        it.ghost['pre'] = vmfab.show_vm(f, vm, None) if False else None
        res = None
        used = []
        for i in range(MAX_SLICES):
            n = budgets[min(i, 2)]
            before = it.ghost.get('steps', 0)
            r = vmstep.result_cell(it, it.call(RUN_COUNT, [Ref(vb), n]))
            done = it.ghost.get('steps', 0) - before
            used.append(done)
            if r[0] == 'none':
                if done == 0:
                    return viol(it, budgets, i, 'slice %d (budget %s) returned without executing any instruction: no progress' % (i, show(it, n)), 'no-progress')
                continue
            res = r
            break
        if res is None:
            return viol(it, budgets, MAX_SLICES, 'sliced run did not complete within %d slices' % MAX_SLICES, 'no-termination')
        if res[0] != ref[0]:
            return viol(it, budgets, len(used), 'sliced run ends with %s, uninterrupted run with %s' % (res[0], ref[0]), 'different-outcome')
        if res[0] == 'value' and not it.must(values_equal(it, res[1], ref[1])):
            return viol(it, budgets, len(used), 'sliced run yields %r, uninterrupted run %r' % (res[1], ref[1]), 'different-value')
        vm2 = vb.v
        sp = f.field(f.field(vm2, 'Vm', 'stack'), 'Stack', 'sp')
        regs_s = (sp, f.field(vm2, 'Vm', 'bp'), f.field(vm2, 'Vm', 'ep'))
        regs_r = (ref_sp, f.field(rb.v, 'Vm', 'bp'), f.field(rb.v, 'Vm', 'ep'))
        if regs_s != regs_r:
            return viol(it, budgets, len(used), 'final sp/bp/ep %s differ from the uninterrupted run %s' % (regs_s, regs_r), 'different-registers')
        m = it.witness()
        it.ghost['tags'] = ['slices=%d' % len(used)]
        it.ghost['sample'] = {'program': which, 'budgets': [m.eval(n, model_completion=True).as_long() for n in budgets], 'instructions_per_slice': used} if m is not None else None
        return None

    def show(it, n):
        m = it.witness()
        return m.eval(n, model_completion=True).as_long() if m is not None and is_sym(n) else n

    def viol(it, budgets, nslices, what, key):
        m = it.witness()
        bs = [m.eval(n, model_completion=True).as_long() for n in budgets] if m is not None else [1, 1, 1]
        ab = [m.eval(z3.BitVec(x, 64), model_completion=True).as_long() for x in ('a', 'b')] if m is not None else [0, 0]
        return {'what': what, 'key': key, 'request': {'cmd': 'c13', 'program': which, 'cap': cap, 'garbage': garbage, 'budgets': bs, 'ab': ab}}
    return harness, build


def on_panic(it, e):
    w = it.ghost.get('which', ('?', 0, 0))
    m = it.witness()
    bs = [m.eval(z3.BitVec('n%d' % i, 64), model_completion=True).as_long() for i in range(3)] if m is not None else [1, 1, 1]
    ab = [m.eval(z3.BitVec(x, 64), model_completion=True).as_long() for x in ('a', 'b')] if m is not None else [0, 0]
    return {'what': 'panic during sliced execution: %s' % e, 'key': 'panic:' + e.kind,
            'request': {'cmd': 'c13', 'program': w[0], 'cap': w[1], 'garbage': w[2], 'budgets': bs, 'ab': ab}}


def native_verdict(prog, replay, req):
    """run the same slices on the REAL VM (hooks): progress per slice, termination, same value as run()"""
    from mirsym.interp import Interp
    fab = Fab(prog)
    it = Interp(prog)
    a, b = req['ab']
    if req['program'] == 'cons-call': P, e, _ = vmstep.prog_cons_call(fab, a, b)
    else: P, e, _ = vmstep.prog_nested(fab, int(req['program'].split('-')[1]), None, a)
    vm = P.vm(e, req['cap'], req['garbage'])
    text = vmfab.show_vm(fab, vm)
    ref = replay.ask('script %s run:0' % hexs(text))
    if not ref.startswith('OK '): return (True, 'uninterrupted run: ' + ref) if ref.startswith(('PANIC', 'ABORT')) else (None, ref)
    ref_val = ref.split()[1].split('/')[0]
    bs = req['budgets']
    ops = []
    for i in range(MAX_SLICES): ops.append('run:%d' % bs[min(i, 2)])
    # stop at the first VALUE / ERR: issue slices one by one on a cumulative script
    for k in range(1, MAX_SLICES + 1):
        out = replay.ask('script %s %s' % (hexs(text), ' '.join(ops[:k])))
        if out.startswith(('PANIC', 'ABORT')): return True, 'sliced run with budgets %s: %s' % (bs, out)
        parts = out.split()[1:1 + k]
        last = parts[-1].split('/')[0]
        if last == 'NONE-NOPROGRESS':
            return True, 'run_count(%d) on a non-halted VM made no progress (slice %d of budgets %s, program %s)' % (bs[min(k - 1, 2)], k - 1, bs, req['program'])
        if last.startswith(('VALUE', 'ERR')):
            if last != ref_val: return True, 'sliced run (budgets %s) ends with %s, uninterrupted run with %s' % (bs, last, ref_val)
            tail_s = parts[-1].split('/', 1)[1].split('/', 1)[1]; tail_r = ref.split()[1].split('/', 1)[1].split('/', 1)[1]
            if tail_s != tail_r: return True, 'final registers differ: sliced %s, uninterrupted %s' % (tail_s, tail_r)
            return False, 'sliced run (budgets %s) equals the uninterrupted run: %s' % (bs, last)
    return True, 'sliced run with budgets %s did not complete within %d slices' % (bs, MAX_SLICES)


FUNCTIONS = ['vm::run::Vm::run_count', 'vm::run::Vm::run', 'vm::run::Vm::run_one', 'vm::run::Vm::run_gc', 'vm::run::Vm::{read_opcode,read_operand,load_operand,store_operand,lambda}',
             'vm::stack::Stack::{push,pop,get,get_offset,clear,get_sp,get_sp_mut}', 'vm::heap::Heap::{get,put,get_as_cell,get_at_index}', 'vm::trace::StackTrace::new']


def run(chk, ws, prog, tier, replays):
    dev, rel = replays
    models_vm.install(prog)
    maxb = 8 if tier == 'quick' else 12
    plans = [('cons-call', 12, 0), ('cons-call', 12, 6), ('nested-2', 12, 5)]
    if tier != 'quick': plans += [('nested-3', 16, 8), ('cons-call', 8, 3)]
    for which, cap, garbage in plans:
        name = 'sliced-vs-uninterrupted/%s/heap=%d/garbage=%d' % (which, cap, garbage)
        h, _ = make_harness(prog, which, cap, garbage, maxb)
        res = explore(prog, h, opts={'on_panic': on_panic}, quiet=True)
        print('  harness %-58s %s' % (name, res.summary()), flush=True)
        chk.add_result(name, res, FUNCTIONS, {'program': which, 'budgets': 'n1, n2, n3 symbolic in 1..%d (n3 repeated)' % maxb, 'heap_capacity': cap, 'garbage_cells': garbage})
        seen = {}
        for v in res.violations:
            if seen.get(v['key'], 0) >= 3: continue
            seen[v['key']] = seen.get(v['key'], 0) + 1
            b1, d1 = native_verdict(prog, dev, v['request'])
            b2, d2 = native_verdict(prog, rel, v['request'])
            if b1 is None and b2 is None:
                chk.inconclusive.append('%s: %s' % (name, d1)); continue
            chk.violation(v['key'], (d1 if b1 else d2) + ' | ' + v['what'], v['request'], bool(b1) or bool(b2))
    chk.assumptions += ['programs are fabricated bytecode (straight-line code, one call with an allocation, nested calls), not compiler output',
                        'whole programs from the generators and the wasm front-end loop are outside the claim; a collection inside a slice is C03']
    chk.outside += ['programs longer than ~20 instructions', 'budgets above the bound (the budget test is a comparison with a counter: no other dependence on its magnitude)']


def replay_request(req, replays):
    from vlib import core
    prog = core.load_program(core.Workspace())
    models_vm.install(prog)
    b1, d1 = native_verdict(prog, replays[0], req)
    b2, d2 = native_verdict(prog, replays[1], req)
    return bool(b1) or bool(b2), d1 if b1 else d2
