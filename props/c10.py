"""C10 -- written data reads back as the same data.

Engine M, MIR of the current tree: `impl Display for Cell` in write mode ({:#}), char::write_escaped_char,
`impl Display for Number`, then lex::scan + parse::parse_text (parse, parse_list, parse_vector, parse_char,
parse_string, parse_number, Number::parse) on the produced text, and Heap::put_cell / Heap::get_as_cell for the trip
through the VM heap.  Per harness the SHAPE of the datum is fixed (stated, enumerated) and its leaves are solver
variables: any Unicode scalar value as a character and inside strings (per char the UTF-8 width class is a shape
choice), any i64 fixnum, bignums up to 2^66, rationals over a denominator palette, booleans.
Claims per path:  read(write(d)) = d structurally with equal leaves and nothing left over;  write(read(write(d))) is
the same text;  get_as_cell(put_cell(d)) = d.
Symbols are drawn from texts that the reader turns into a symbol ("symbols that the reader can produce").
Finite inexact numbers are leaves too; the library's printing of a double is an axiom (skeleton text, see C16 and
models_fmtnum.write_f64): what is executed is marwood's choice of format and the reader's treatment of the character classes.
"""
import z3
from mirsym.values import *
from mirsym.explore import explore_many
from mirsym import models_vm, models_num, models_fmtnum
from mirsym.models_core import deref, Formatter, mk_box
from mirsym.models_num import Big
from . import numsym as N
from . import textgen
from .vmfab import Fab
from vlib import core
from vlib.core import hexs, unhexs

CELL = ['Bool', 'Char', 'Nil', 'Number', 'Pair', 'String', 'Symbol', 'Vector', 'Continuation', 'Macro', 'Procedure', 'Undefined', 'Void']
DENOMS = [2, 3, 65536, (1 << 31) - 1]


def cv(name, *f): return Agg('Cell', CELL.index(name), list(f))
def unbox(b):
    v = b
    while isinstance(v, Agg) and v.ty in ('Box', 'Unique', 'NonNull'): v = v.f[0]
    return deref(v)


class Gen:
    """builds a datum of a given shape with symbolic leaves; records a description for replay"""
    def __init__(s, it): s.it = it; s.n = 0

    def fresh(s, p):
        s.n += 1; return '%s%d' % (p, s.n)

    def build(s, sx):
        """sx: shape S-expression (nested python tuples / strings)"""
        it = s.it
        if sx == 'bool':
            b = z3.Bool(s.fresh('b')); return cv('Bool', b), ('bool', b)
        if sx == 'nil': return cv('Nil'), ('nil',)
        if sx == 'char':
            w = 1 + it.choose(4)
            c = it.sym_char(s.fresh('c'), w); return cv('Char', c), ('char', c)
        if sx == 'fixnum':
            v = z3.BitVec(s.fresh('n'), 64); return cv('Number', Agg('Number', 0, [v])), ('num', ('fix', v))
        if sx == 'float':
            v = z3.FP(s.fresh('f'), z3.Float64())
            it.assume(z3.Not(z3.Or(z3.fpIsNaN(v), z3.fpIsInf(v))))
            return cv('Number', Agg('Number', 1, [v])), ('num', ('flo', v))
        if sx == 'bignum':
            v = z3.BitVec(s.fresh('B'), models_num.BW)
            it.assume(z3.Or(z3.And(v > (1 << 63) - 1, v <= N.BIG_BOUND), z3.And(v < -(1 << 63), v >= -N.BIG_BOUND)))      # outside the fixnum range: what the reader produces
            return cv('Number', Agg('Number', 2, [Ref(Cell(Big(v)))])), ('num', ('big', v))
        if sx == 'rational':
            n = z3.BitVec(s.fresh('r'), 32); d = DENOMS[it.choose(len(DENOMS))]
            for p in N.prime_factors(d):
                if p == 2: it.assume(z3.Extract(0, 0, n) == 1)
                elif d == p and d > (1 << 30): it.assume(z3.And(n != 0, n != d, n != -d))      # a huge prime denominator: reduced unless n is 0 or +-d
                else: it.assume(z3.SRem(n, z3.BitVecVal(p, 32)) != 0)
            if d == 3: it.assume(z3.And(n > -100, n < 100))
            if d == (1 << 31) - 1: it.assume(z3.And(n > -(1 << 31) + 1))
            return cv('Number', Agg('Number', 3, [models_num.ratio(n, d)])), ('num', ('rat', n, d))
        if isinstance(sx, tuple) and sx[0] == 'string':
            chars = []
            for i in range(sx[1]):
                w = 1 + it.choose(4)
                chars.append((it.sym_char(s.fresh('s'), w), w))
            return cv('String', StrObj(list(chars))), ('str', [c for c, _ in chars])
        if isinstance(sx, tuple) and sx[0] == 'symbol':
            return cv('Symbol', mkstr(sx[1])), ('sym', sx[1])
        if isinstance(sx, tuple) and sx[0] == 'list':
            items = [s.build(x) for x in sx[1:]]
            cur = cv('Nil')
            for c, _ in reversed(items): cur = cv('Pair', mk_box(c), mk_box(cur))
            return cur, ('list', [d for _, d in items], ('nil',))
        if isinstance(sx, tuple) and sx[0] == 'dotted':
            items = [s.build(x) for x in sx[1:-1]]
            tail, td = s.build(sx[-1])
            cur = tail
            for c, _ in reversed(items): cur = cv('Pair', mk_box(c), mk_box(cur))
            return cur, ('list', [d for _, d in items], td)
        if isinstance(sx, tuple) and sx[0] == 'vector':
            items = [s.build(x) for x in sx[1:]]
            return cv('Vector', [c for c, _ in items]), ('vec', [d for _, d in items])
        raise KeyError(sx)


def same(it, a, b):
    """structural equality of two Cells; leaves must be equal on the whole path -> None or a description of the difference"""
    a, b = deref(a), deref(b)
    if a.var != b.var: return 'a %s was read back as a %s' % (CELL[a.var], CELL[b.var])
    k = CELL[a.var]
    if k == 'Bool':
        x, y = a.f[0], b.f[0]
        e = (x == y) if (is_sym(x) or is_sym(y)) else None
        if e is None: return None if x == y else 'boolean differs'
        return None if it.must(e) else ('boolean differs', z3.Not(e))
    if k == 'Char':
        e = it.binop('Eq', a.f[0], b.f[0], 'char')
        ok = it.must(e) if is_sym(e) else e
        return None if ok else ('character differs', z3.Not(e) if is_sym(e) else None)
    if k in ('String', 'Symbol'):
        x, y = a.f[0].chars if isinstance(a.f[0], StrObj) else list(a.f[0].chars()), b.f[0].chars if isinstance(b.f[0], StrObj) else list(b.f[0].chars())
        if len(x) != len(y): return '%s of %d chars was read back with %d chars' % (k.lower(), len(x), len(y))
        for (p, _), (q, _) in zip(x, y):
            e = it.binop('Eq', p, q, 'char')
            if not (it.must(e) if is_sym(e) else e): return ('%s content differs' % k.lower(), z3.Not(e) if is_sym(e) else None)
        return None
    if k == 'Number':
        da, db = N.describe(it, a.f[0]), N.describe(it, b.f[0])
        if (da[0] == 'flo') != (db[0] == 'flo'): return 'exactness differs'
        if db[0] == 'rat' and is_sym(db[2]): db = ('rat', db[1], it.concretize(db[2]))
        lt, eq = N.exact_cmp(db, da)
        return None if it.must(eq) else ('number differs', z3.Not(eq))
    if k == 'Pair':
        return same(it, unbox(a.f[0]), unbox(b.f[0])) or same(it, unbox(a.f[1]), unbox(b.f[1]))
    if k == 'Vector':
        x, y = a.f[0], b.f[0]
        if isinstance(x, Agg): x = x.f
        if isinstance(y, Agg): y = y.f
        if len(x) != len(y): return 'vector of %d elements was read back with %d' % (len(x), len(y))
        for p, q in zip(x, y):
            r = same(it, p, q)
            if r: return r
        return None
    return None


def write(it, prog, cell):
    FN = prog.resolve_crate('<Cell as Display>::fmt') or prog.resolve_crate('<cell::Cell as Display>::fmt')
    f = Formatter([], True, {})
    r = it.call(FN, [Ref(Cell(cell)), Ref(Cell(Agg('Formatter', None, [f])))])
    return f.out


def conc_desc(m, d):
    def c(x):
        if is_sym(x):
            r = m.eval(x, model_completion=True)
            if z3.is_bool(r): return z3.is_true(r)
            return r.as_long()
        return x
    t = d[0]
    if t == 'bool': return ['bool', bool(c(d[1]))]
    if t == 'char': return ['char', c(d[1])]
    if t == 'num': return ['num', N.conc(m, d[1])]
    if t == 'str': return ['str', [c(x) for x in d[1]]]
    if t == 'sym': return ['sym', d[1]]
    if t == 'nil': return ['nil']
    if t == 'list': return ['list', [conc_desc(m, x) for x in d[1]], conc_desc(m, d[2])]
    if t == 'vec': return ['vec', [conc_desc(m, x) for x in d[1]]]
    raise KeyError(t)


def make_harness(prog, sx, heap_trip=False):
    PT = prog.resolve_crate('parse_text')
    fab = Fab(prog)
    PUT = prog.resolve_crate('Heap::put_cell'); GET = prog.resolve_crate('Heap::get_as_cell')

    def harness(it):
        g = Gen(it)
        cell, desc = g.build(sx)
        it.ghost['desc'] = desc
        if heap_trip:
            heap = Cell(fab.heap([fab.symbol('a'), fab.symbol('quote')], 64))
            v = it.call(PUT, [Ref(heap), Ref(Cell(cell))])
            back = it.call(GET, [Ref(heap), Ref(Cell(v))])
            r = same(it, cell, back)
            if r: return viol(it, 'heap trip: ' + (r if isinstance(r, str) else r[0]), 'heap-trip', r)
            return sample(it, desc)
        text = write(it, prog, cell)
        it.ghost['text'] = text
        pr = it.call(PT, [StrRef(StrObj(list(text)))])
        if pr.var != 0: return viol(it, 'the written text does not read back (parse error)', 'unreadable', None)
        back, rest = pr.f[0].f
        if rest.var != 0: return viol(it, 'reading the written text leaves input over', 'leftover', None)
        r = same(it, cell, back)
        if r: return viol(it, r if isinstance(r, str) else r[0], 'differs', r)
        text2 = write(it, prog, back)
        models_fmtnum.activate_defs(it)          # both printed forms are compared digit by digit
        if len(text2) != len(text): return viol(it, 'the datum read back is written differently', 'rewrite', None)
        for (p, _), (q, _) in zip(text, text2):
            e = it.binop('Eq', p, q, 'char')
            if not (it.must(e) if is_sym(e) else e): return viol(it, 'the datum read back is written differently', 'rewrite', None)
        return sample(it, desc)

    def sample(it, desc):
        m = it.witness()
        if m is not None: it.ghost['sample'] = {'datum': conc_desc(m, desc)}
        return None

    def viol(it, what, key, r):
        models_fmtnum.activate_defs(it)
        extra = r[1] if isinstance(r, tuple) and len(r) > 1 else None
        m = (it.witness(extra) if extra is not None else None) or it.witness()
        if m is None: raise Infeasible()
        return {'what': what, 'key': key + classify(conc_desc(m, it.ghost['desc'])), 'request': {'cmd': 'datum', 'datum': conc_desc(m, it.ghost['desc']), 'heap': heap_trip}}
    return harness


def classify(d):
    return ''


def on_panic(it, e):
    d = it.ghost.get('desc'); m = it.witness()
    if d is None or m is None: return {'what': 'panic %s' % e, 'key': 'panic', 'request': None}
    return {'what': 'panic: %s' % e, 'key': 'panic:' + e.kind, 'request': {'cmd': 'datum', 'datum': conc_desc(m, d), 'heap': False}}


# -------------------------------------------------------------------------------- symbols the reader can produce
def make_symbol_harness(prog, n):
    """a text of n symbolic chars that the reader turns into ONE symbol; write it; read it back"""
    PT = prog.resolve_crate('parse_text')

    def harness(it):
        text, chars = textgen.sym_text(it, n, non_ascii=True)
        it.ghost['chars'] = chars
        it.ghost['opaque_ratio_literals'] = True       # only the KIND of the datum matters here (a number is not a symbol)
        pr = it.call(PT, [text])
        if pr.var != 0: raise Infeasible()
        cell, rest = pr.f[0].f
        if rest.var != 0 or CELL[cell.var] != 'Symbol': raise Infeasible()
        out = write(it, prog, cell)
        pr2 = it.call(PT, [StrRef(StrObj(list(out)))])
        bad = None
        if pr2.var != 0: bad = 'the written symbol does not read back'
        else:
            back, rest2 = pr2.f[0].f
            if rest2.var != 0: bad = 'reading the written symbol leaves input over'
            else:
                r = same(it, cell, back)
                if r: bad = 'the written symbol reads back as something else: %s' % (r if isinstance(r, str) else r[0])
        if bad:
            m = it.witness()
            t = textgen.concretize_text(m, chars)
            return {'what': bad, 'key': 'symbol-' + symbol_class(t), 'request': {'cmd': 'symtext', 'text': t}}
        m = it.witness()
        if m is not None: it.ghost['sample'] = {'symbol text': textgen.concretize_text(m, chars)}
        return None
    return harness


def symbol_class(t):
    if '\\' in t: return 'with-backslash'
    if '|' in t: return 'with-bar'
    return 'other'


def sym_on_panic(it, e):
    chars = it.ghost.get('chars'); m = it.witness()
    if chars is None or m is None: return {'what': 'panic %s' % e, 'key': 'panic', 'request': None}
    return {'what': 'panic: %s' % e, 'key': 'panic:' + e.kind, 'request': {'cmd': 'symtext', 'text': textgen.concretize_text(m, chars)}}


# ------------------------------------------------------------------------------------------------ native verdicts
def scheme_datum(d):
    """scheme source that evaluates to the datum (built with constructors so that every scalar value can be expressed)"""
    t = d[0]
    if t == 'bool': return '#t' if d[1] else '#f'
    if t == 'char': return '(integer->char %d)' % d[1]
    if t == 'num':
        from .c06 import scheme_number
        return scheme_number(d[1])
    if t == 'str': return '(string%s)' % ''.join(' (integer->char %d)' % c for c in d[1])
    if t == 'sym': return "'%s" % d[1]
    if t == 'nil': return "'()"
    if t == 'vec': return '(vector%s)' % ''.join(' ' + scheme_datum(x) for x in d[1])
    if t == 'list':
        out = scheme_datum(d[2])
        for x in reversed(d[1]): out = '(cons %s %s)' % (scheme_datum(x), out)
        return out
    raise KeyError(t)


def native_verdict(replay, req):
    replay.ask('newvm')
    if req['cmd'] == 'symtext':
        a = replay.ask('parse ' + hexs(req['text']))
        if a.startswith(('PANIC', 'ABORT')): return True, 'parse_text(%r) => %s' % (req['text'], a[:100])
        if not a.startswith('OK '): return False, 'parse_text(%r) => %s (not a datum)' % (req['text'], a[:100])
        written = unhexs(a.split()[1])
        b = replay.ask('parse ' + hexs(written))
        if b.startswith(('PANIC', 'ABORT')): return True, 'written form %r of the symbol read from %r: %s' % (written, req['text'], b[:100])
        ok = b.startswith('OK ') and b.split()[1] == a.split()[1] and b.split()[2] == 'REST:NONE'
        # the datum read back must also be a symbol with the same name: compare canonical forms through the evaluator
        c1 = replay.ask('evalc ' + hexs("(quote %s)" % req['text'])); c2 = replay.ask('evalc ' + hexs("(quote %s)" % written))
        ok = ok and c1 == c2
        return (not ok), 'the symbol read from %r is written %r, which reads back as %s / %s (first: %s)' % (req['text'], written, b[:60], c2[:60], c1[:60])
    src = scheme_datum(req['datum'])
    c1 = replay.ask('evalc ' + hexs(src))
    if c1.startswith(('PANIC', 'ABORT')): return True, '%s => %s' % (src, c1[:100])
    if not c1.startswith('OK '): return None, 'could not build the datum natively: %s => %s' % (src, c1[:100])
    # written form through the real printer: (write d) is not capturable; use the replay's own {:#} of the evaluation result
    w = replay.ask('eval ' + hexs(src))
    if not w.startswith('OK '): return None, 'eval failed: %s' % w[:100]
    written = unhexs(w.split()[1]) if len(w.split()) > 1 else ''
    c2 = replay.ask('evalc ' + hexs("(quote %s)" % written))
    if c2.startswith(('PANIC', 'ABORT')): return True, 'reading %r (written form of %s): %s' % (written, src, c2[:100])
    return c1 != c2, '%s is written %r, which reads back as %s (expected %s)' % (src, written, c2[:80], c1[:80])


FUNCTIONS = ['cell::<impl Display for Cell>::fmt', 'char::write_escaped_char', 'number::<impl Display for Number>::fmt', 'lex::scan', 'parse::parse_text', 'parse::parse',
             'parse::{parse_list,parse_vector,parse_char,parse_string,parse_number}', 'number::Number::parse', 'vm::heap::Heap::{put_cell,get_as_cell,put,alloc}',
             'cell::Cell::{new_list,new_improper_list,is_quote,car,cdr,...}']

LEAVES_QUICK = ['bool', 'nil', 'char', 'fixnum', 'bignum', 'rational', 'float', ('string', 0), ('string', 1), ('string', 2), ('symbol', 'a'), ('symbol', 'quote')]
SMALL = ['fixnum', 'char', ('symbol', 'a'), ('string', 1), 'nil', 'bool']


def shapes(tier):
    out = [('leaf %s' % (l if isinstance(l, str) else '%s %s' % l), l) for l in LEAVES_QUICK]
    if tier != 'quick': out.append(('leaf string 3', ('string', 3)))
    q = ('symbol', 'quote')
    for x in SMALL:
        nm = x if isinstance(x, str) else '%s-%s' % x
        out += [('list1 %s' % nm, ('list', x)), ('vector1 %s' % nm, ('vector', x)), ('quoted %s' % nm, ('list', q, x)),
                ('dotted %s' % nm, ('dotted', ('symbol', 'a'), x)), ('quote-dotted %s' % nm, ('dotted', q, x))]
    out += [('empty vector', ('vector',)), ('list2 char fixnum', ('list', 'char', 'fixnum')), ('list2 fixnum char', ('list', 'fixnum', 'char')),
            ('list3 quote a b', ('list', q, ('symbol', 'a'), 'fixnum')), ('list (quote)', ('list', q)),
            ('nested list', ('list', ('list', 'char'), ('vector', 'fixnum'))), ('nested quote', ('list', q, ('list', q, 'char'))),
            ('vector2 string char', ('vector', ('string', 1), 'char')), ('vector of lists', ('vector', ('list', 'fixnum'), ('dotted', 'char', 'bool'))),
            ('quote in vector', ('vector', ('list', q, ('symbol', 'a')))), ('list of strings', ('list', ('string', 1), ('string', 1))),
            ('char then string', ('list', 'char', ('string', 1))), ('depth3', ('list', ('list', ('list', 'char')))), ('vector in vector', ('vector', ('vector', 'char'), 'fixnum'))]
    if tier != 'quick':
        out += [('depth4', ('list', ('vector', ('list', ('vector', 'char'))))), ('list3 chars', ('list', 'char', 'char', 'char')),
                ('dotted3', ('dotted', 'fixnum', 'char', ('string', 1))), ('quote of quote of string', ('list', q, ('list', q, ('string', 2))))]
    return out


# ---- (quote d) through the real compiler, macro expander and run loop: "quoting d and evaluating it returns d unchanged"
QUOTED = ['(let ((x K)) x)', '(a (when b K) d)', '(cond (else K))', '(begin)', '(K (or) (and x))', '(lambda (x) x)', '(if)', '(define x K)', '(quote x)', '(K "s" #t (1 . 2))',
          '((let* () K))', '(case K ((1) 2))', '(unless)', '(1 (letrec ((f K)) f) . delay)', '(define-syntax K)', '(set! let K)']


def make_evalquote_harness(prog, ws_src, src):
    from . import compilefab as CF
    from .vmfab import Fab
    fab = Fab(prog)
    C = CF.Cells(prog)
    EVAL = prog.resolve_crate('Vm::eval'); LB = prog.resolve_crate('Vm::load_builtins')
    prelude = CF.read_all(open(ws_src + '/marwood/prelude.scm').read())

    def subst(sx, env):
        if isinstance(sx, list): return [subst(x, env) for x in sx]
        if isinstance(sx, tuple) and sx[0] == 'sym' and sx[1] in env: return env[sx[1]]
        if isinstance(sx, tuple) and sx[0] == 'dotted': return ('dotted', [subst(x, env) for x in sx[1]], subst(sx[2], env))
        return sx

    def harness(it):
        f = fab
        vm = f.vm(f.heap([f.vc('Nil')], 4096), f.stack([f.vc('Undefined') for _ in range(64)], 0))
        vb = Cell(vm)
        it.call(LB, [Ref(vb)])
        for fm in prelude:
            r = it.call(EVAL, [Ref(vb), Ref(Cell(C.of(fm)))])
            if r.var != 0: raise Unsupported('the prelude does not evaluate through the encoding: %r' % (r,))
        K = z3.BitVec('K', 64)
        env = {'K': C.cv('Number', Agg('Number', 0, [K]))}
        d = C.of(subst(CF.read_all(src)[0], env))
        prog_ = C.of([('sym', 'quote'), d])
        r = it.call(EVAL, [Ref(vb), Ref(Cell(prog_))])
        m = it.witness()
        kv = m.eval(K, model_completion=True).as_signed_long() if m is not None else 0
        req = {'cmd': 'evalquote', 'src': src, 'K': kv}
        if r.var != 0:
            return {'what': "evaluating (quote %s) fails: %r" % (src, r), 'key': 'quoted-datum-does-not-evaluate', 'request': req}
        diff = same(it, C.of(subst(CF.read_all(src)[0], env)), r.f[0])
        if diff is not None:
            return {'what': "(quote %s) evaluates to a different datum: %s" % (src, diff if isinstance(diff, str) else diff[0]), 'key': 'quoted-datum-changed-by-evaluation', 'request': req}
        it.ghost['tags'] = ['quote-eval-identity']
        return None
    return harness


def native_evalquote(replay, req):
    src = req['src'].replace('K', str(req.get('K', 0)))
    replay.ask('newvm')
    w = replay.ask('eval ' + hexs("(quote %s)" % src))
    if w.startswith(('PANIC', 'ABORT')): return True, "(quote %s) => %s" % (src, w[:100])
    if not w.startswith('OK '): return True, "(quote %s) => %s (a quoted datum must evaluate to itself)" % (src, unhexs(w.split()[2]) if len(w.split()) > 2 else w[:80])
    written = unhexs(w.split()[1])
    norm = lambda t: ' '.join(t.replace("'x", '(quote x)').split())
    return norm(written) != norm(src), "(quote %s) evaluates to %s" % (src, written)


def run(chk, ws, prog, tier, replays):
    dev, rel = replays
    models_vm.install(prog); models_num.install(prog); models_fmtnum.install(prog)
    textgen.load_chartable(prog, dev)
    for n_ in ('is_initial_identifier', 'is_subsequent_identifier', 'is_subsequent_number', 'is_initial_number', 'is_special_subsequent'):
        prog.pure.add(prog.resolve_crate(n_))
    prog.rlimit = 400000000
    prog.model_f64_text = True
    jobs = []
    for name, sx in shapes(tier):
        jobs.append(('text ' + name, make_harness(prog, sx), on_panic))
        jobs.append(('heap ' + name, make_harness(prog, sx, heap_trip=True), on_panic))
    for n in range(1, 4 if tier == 'quick' else 5):
        jobs.append(('reader symbol n=%d' % n, make_symbol_harness(prog, n), sym_on_panic))
    seen = {}
    for name, res in explore_many(prog, [(n, h, {'on_panic': p, 'reuse_solver': False}) for n, h, p in jobs], parallel=14, nproc_each=1):
        print('  harness %-40s %s' % (name, res.summary()), flush=True)
        chk.add_result(name, res, FUNCTIONS, {'shape': name})
        for v in res.violations:
            if v.get('request') is None:
                chk.inconclusive.append('%s: %s' % (name, v['what'])); continue
            if seen.get(v['key'], 0) >= 2: continue
            seen[v['key']] = seen.get(v['key'], 0) + 1
            b1, d1 = native_verdict(dev, v['request'])
            b2, d2 = native_verdict(rel, v['request'])
            if b1 is None and b2 is None:
                chk.inconclusive.append('%s: %s (%s)' % (name, v['what'], d1)); continue
            chk.violation(v['key'], (d1 if b1 else d2) + ' | ' + v['what'], v['request'], bool(b1) or bool(b2))
    eq_jobs = [('eval-quote ' + src, make_evalquote_harness(prog, ws.src(), src), on_panic) for src in QUOTED]
    for name, res in explore_many(prog, [(n, h, {'on_panic': p, 'render_fmt': False, 'step_limit': 30000000}) for n, h, p in eq_jobs], parallel=14, nproc_each=1):
        print('  harness %-40s %s' % (name, res.summary()), flush=True)
        chk.add_result(name, res, FUNCTIONS + ['vm::Vm::{eval,prepare_eval,run}', 'vm::compile::Vm::{compile_runnable,compile,transform,transform_procedure_application,compile_expression,compile_quote}', 'vm::transform::Transform::*', 'vm::heap::Heap::{put_cell,get_as_cell}', 'prelude.scm of the current tree'],
                       {'datum': name[11:], 'symbolic': 'the fixnum leaf K', 'vm': 'builtins and the whole prelude loaded by the real VM from MIR (all prelude macros are bound)'}, nontrivial=res.completed)
        for v in res.violations:
            if seen.get(v['key'], 0) >= 2: continue
            seen[v['key']] = seen.get(v['key'], 0) + 1
            b1, d1 = native_evalquote(dev, v['request']); b2, d2 = native_evalquote(rel, v['request'])
            chk.violation(v['key'], (d1 if b1 else d2) + ' | ' + v['what'], v['request'], bool(b1) or bool(b2))
    chk.assumptions += ['integer printers / parsers of std and num are modelled by the defining property of positional notation (see C16)',
                        'datum shapes are enumerated (stated per harness); the leaves are solver variables']
    chk.outside += ['NaN and infinities; the digits of a printed double (library axiom)', 'shapes beyond the enumerated ones (depth > 3, thorough 4; more than 3 elements)', 'strings longer than 2 (thorough 3) chars',
                    'symbols longer than 3 (thorough 4) chars', 'evaluation of (quote d) through the compiler and the run loop is covered for 16 quoted lists headed by or containing every prelude macro keyword and core form (symbolic fixnum leaf); other shapes take the heap trip put_cell / get_as_cell only']


def replay_request(req, replays):
    if req.get('cmd') == 'evalquote':
        b1, d1 = native_evalquote(replays[0], req); b2, d2 = native_evalquote(replays[1], req)
        return bool(b1) or bool(b2), d1 if b1 else d2
    b1, d1 = native_verdict(replays[0], req)
    b2, d2 = native_verdict(replays[1], req)
    return bool(b1) or bool(b2), d1 if b1 else d2
