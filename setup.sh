#!/bin/bash
# Offline setup: nothing to download.  Verifies the tools and warms the per-tree workspace
# (MIR dump + replay binaries of /repo's current tree); every check rebuilds these on demand anyway.
set -e
cd "$(dirname "$0")"
export CARGO_NET_OFFLINE=true
python3-vt -c "import z3; print('z3', z3.get_version_string())"
cargo +nightly --version
python3-vt - <<'PY'
import sys
sys.path.insert(0, '.')
from vlib import core
ws = core.Workspace()
print('workspace', ws.dir)
ws.mir(); ws.replay_bin('dev'); ws.replay_bin('release')
print('setup ok')
PY
