"""Exhaustive exploration of a harness: every feasible path inside the harness's stated bounds.

A harness is `h(it: Interp) -> None | dict` (dict = violation found on this path).  It builds the symbolic
pre-state, calls the real code through `it.call`, and evaluates its oracle through `it.branch` / `it.must`
so that a verdict covers every input of the path.  The work list (decision prefixes) is sharded over
processes; each process re-executes prefixes from the entry point.
"""
import os, sys, time, collections, multiprocessing, traceback, random
import z3
from .values import *
from .interp import Interp

_G = {}


class Result:
    def __init__(s):
        s.paths = 0; s.completed = 0; s.infeasible = 0
        s.violations = []; s.unsupported = collections.Counter(); s.steplimit = []
        s.steps = 0; s.solver_calls = 0; s.solver_time = 0.0
        s.samples = []; s.tags = collections.Counter(); s.wall = 0.0
        s.errors = []

    def merge(s, o):
        s.paths += o.paths; s.completed += o.completed; s.infeasible += o.infeasible
        s.violations.extend(o.violations); s.unsupported.update(o.unsupported); s.steplimit.extend(o.steplimit)
        s.steps += o.steps; s.solver_calls += o.solver_calls; s.solver_time += o.solver_time
        for x in o.samples:
            if len(s.samples) < 12: s.samples.append(x)
        s.tags.update(o.tags); s.errors.extend(o.errors)

    def summary(s):
        return ('paths=%d completed=%d infeasible=%d violations=%d unsupported=%d steplimit=%d steps=%d '
                'solver_calls=%d solver_time=%.1fs wall=%.1fs') % (
            s.paths, s.completed, s.infeasible, len(s.violations), sum(s.unsupported.values()), len(s.steplimit),
            s.steps, s.solver_calls, s.solver_time, s.wall)


def run_path(prog, harness, dec, res, opts):
    it = Interp(prog, dec, reuse=opts.get('reuse_solver', True))
    it.overflow_checks = opts.get('overflow_checks', True)
    it.paranoid = opts.get('paranoid', False)
    if 'step_limit' in opts: it.STEP_LIMIT = opts['step_limit']
    res.paths += 1
    try:
        v = harness(it)
        res.completed += 1
        if v:
            v.setdefault('decisions', list(it.taken))
            res.violations.append(v)
        for t in it.ghost.get('tags', ()): res.tags[t] += 1
        smp = it.ghost.get('sample')
        if smp is not None and len(res.samples) < 12 and (res.completed % 97 == 1 or len(res.samples) < 3):
            res.samples.append(smp)
    except Panic as e:
        res.completed += 1
        ph = opts.get('on_panic')
        v = ph(it, e) if ph else {'kind': 'panic', 'msg': str(e)}
        if v:
            v.setdefault('decisions', list(it.taken))
            res.violations.append(v)
    except Infeasible:
        res.infeasible += 1
    except Unsupported as e:
        res.unsupported[str(e)[:200]] += 1
        if os.environ.get('VERIF_DEBUG'): res.errors.append('UNSUPPORTED %s decisions=%s ghost=%s' % (e, list(it.taken), {k: str(v)[:200] for k, v in it.ghost.items() if k in ('kinds', 'proc', 'desc')}))
    except StepLimit as e:
        sh = opts.get('on_steplimit')
        v = sh(it, e) if sh else None
        res.steplimit.append(v or {'kind': 'steplimit', 'msg': str(e), 'decisions': list(it.taken)})
    except z3.Z3Exception as e:
        res.unsupported['z3: ' + str(e)[:160]] += 1
        if os.environ.get('VERIF_DEBUG'): res.errors.append(traceback.format_exc()[-2500:])
    except RecursionError:
        res.unsupported['python recursion limit'] += 1
    except Exception as e:      # interpreter bug: inconclusive, with traceback
        res.errors.append(traceback.format_exc()[-1500:])
        res.unsupported['internal: %s: %s' % (type(e).__name__, str(e)[:120])] += 1
    res.steps += it.steps; res.solver_calls += it.solver_calls; res.solver_time += it.solver_time
    return it.pending


def _subtree(args):
    prefixes, max_paths = args
    prog, harness, opts = _G['prog'], _G['harness'], _G['opts']
    res = Result()
    work = list(prefixes)
    deadline = _G.get('deadline')
    while work:
        if max_paths and res.paths >= max_paths:
            return res, work            # hand the rest back to the master for re-distribution
        if deadline and time.time() > deadline:
            res.unsupported['time budget exhausted'] += 1
            break
        dec = work.pop()
        work.extend(run_path(prog, harness, dec, res, opts))
    return res, []


def explore(prog, harness, nproc=None, opts=None, frontier=None, time_budget=None, chunk=300, quiet=False):
    """explore all paths of `harness`; returns Result.  Inconclusive outcomes (unsupported, budget) are
    recorded in Result.unsupported and must make the caller exit 2."""
    opts = opts or {}
    nproc = nproc or int(os.environ.get('VERIF_JOBS', '0')) or min(16, os.cpu_count() or 4)
    from . import interp as _interp
    _interp._SHARED.pop(id(prog), None)      # the reused solver's scope trail is only meaningful within ONE harness
    t0 = time.time()
    total = Result()
    work = collections.deque([[]])
    want = frontier or nproc * 4
    # breadth-first expansion in the master until the frontier is wide enough
    while work and len(work) < want and total.paths < want * 4:
        dec = work.popleft()
        work.extend(run_path(prog, harness, dec, total, opts))
    if work:
        _G['prog'], _G['harness'], _G['opts'] = prog, harness, opts
        _G['deadline'] = (t0 + time_budget) if time_budget else None
        if nproc <= 1:
            r, _ = _subtree((list(work), None))
            total.merge(r)
        else:
            ctx = multiprocessing.get_context('fork')
            todo = collections.deque([d] for d in work)
            inflight = []
            with ctx.Pool(nproc) as pool:
                while todo or inflight:
                    while todo and len(inflight) < nproc + 4:
                        inflight.append(pool.apply_async(_subtree, ((todo.popleft(), chunk),)))
                    done = [r for r in inflight if r.ready()]
                    if not done:
                        inflight[0].wait(0.02)
                        continue
                    for r in done:
                        inflight.remove(r)
                        res, left = r.get()
                        total.merge(res)
                        # split the leftover stack: shallow prefixes (big subtrees) one per task, the rest together
                        if left:
                            k = max(1, len(left) // 3)
                            for d in left[:k]: todo.append([d])
                            if left[k:]: todo.append(left[k:])
    total.wall = time.time() - t0
    if not quiet:
        print('    ' + total.summary(), flush=True)
    return total


def replay_path(prog, harness, decisions, opts=None):
    """re-run one recorded path (used to concretise a violation or debug)"""
    res = Result()
    run_path(prog, harness, list(decisions), res, opts or {})
    return res


def _job(args):
    idx = args
    name, harness, opts, nproc = _G['jobs'][idx]
    r = explore(_G['prog'], harness, nproc=nproc, opts=opts, quiet=True)
    return idx, r


def explore_many(prog, jobs, parallel=8, nproc_each=2):
    """run several small harnesses concurrently (each harness explores with few processes): for harnesses whose path count
    is too small to use 16 cores.  jobs: list of (name, harness, opts).  Yields (name, Result) in completion order."""
    _G['prog'] = prog
    _G['jobs'] = [(n, h, o, nproc_each) for n, h, o in jobs]
    import concurrent.futures as cf
    ctx = multiprocessing.get_context('fork')
    with cf.ProcessPoolExecutor(max_workers=parallel, mp_context=ctx) as ex:
        futs = [ex.submit(_job, i) for i in range(len(jobs))]
        for fu in cf.as_completed(futs):
            idx, r = fu.result()
            yield jobs[idx][0], r
