"""Models of std/core callees: Option/Result, iterators, slices, Vec, str, char, Box/Rc/RefCell, fmt.

Each model is written against the documented contract of the callee.  They are part of the trusted
base and are validated differentially against the real library on every run (see vlib/validate.py).
A callee without a model raises Unsupported -> the check is inconclusive, never a verdict.
"""
import re
import z3
from .values import *


# iterator objects -------------------------------------------------------------------------------
class CharIndices:
    def __init__(s, sr): s.sr, s.i, s.off = sr, 0, 0
class Chars:
    def __init__(s, sr): s.sr, s.i = sr, 0
class Peekable:
    def __init__(s, it): s.it, s.peeked = it, None       # peeked: None | Option Agg
class SliceIter:
    def __init__(s, sl): s.sl, s.lo, s.hi = sl, 0, len(sl)
class RevIter:
    def __init__(s, it): s.it = it
class EnumIter:
    def __init__(s, it): s.it, s.n = it, 0
class RangeIter:
    pass
class MapIter:
    def __init__(s, it, f): s.it, s.f = it, f
class FilterMapIter:
    def __init__(s, it, f): s.it, s.f = it, f
class FilterIter:
    def __init__(s, it, f): s.it, s.f = it, f
class VecIntoIter:
    def __init__(s, lst): s.lst, s.i = lst, 0
class ClonedIter:
    def __init__(s, it): s.it = it
class SkipIter:
    def __init__(s, it, n): s.it, s.n = it, n
class TakeIter:
    def __init__(s, it, n): s.it, s.n = it, n
class ZipIter:
    def __init__(s, a, b): s.a, s.b = a, b
class ChainIter:
    def __init__(s, a, b): s.a, s.b = a, b


def deref(v):
    while isinstance(v, Ref):
        v = v.get()
    return v


def unbox(v):
    v = deref(v)
    if isinstance(v, Agg) and v.ty == 'Box':
        return deref(v.f[0].f[0].f[0])
    return v


def mk_box(v):
    return Agg('Box', None, [Agg('Unique', None, [Agg('NonNull', None, [Ref(Cell(v))])])])


def as_slice(it, v):
    if isinstance(v, SliceRef): return v
    if isinstance(v, Ref):
        x = v.get()
        if isinstance(x, SliceRef): return x
        if isinstance(x, list): return SliceRef(v, 0, len(x))
        if isinstance(x, Ref): return as_slice(it, x)
    raise Unsupported('as_slice %r' % (v,))


def as_str(it, v):
    v0 = v
    while isinstance(v, Ref): v = v.get()
    if isinstance(v, StrRef): return v
    if isinstance(v, StrObj): return StrRef(v, 0, len(v.chars))
    if isinstance(v, Agg) and v.ty == 'Cow': return as_str(it, v.f[0])
    raise Unsupported('as_str %r' % (v0,))


def char_domain(it, ch):
    """constraint every symbolic char of the harness satisfies (harness-declared)"""
    return it.prog.char_domain(ch) if getattr(it.prog, 'char_domain', None) else z3.ULT(ch, 128)


def iter_next(it, obj):
    obj = unbox(obj)
    t = type(obj)
    if t is SliceIter:
        if obj.lo >= obj.hi: return mk_none()
        r = mk_some(obj.sl.elem(obj.lo)); obj.lo += 1; return r
    if t is RevIter:
        return iter_next_back(it, obj.it)
    if t is EnumIter:
        r = iter_next(it, obj.it)
        if r.var == 0: return r
        k = obj.n; obj.n += 1
        return mk_some(Agg('tuple', None, [k, r.f[0]]))
    if t is CharIndices:
        cs = obj.sr
        if obj.sr.a + obj.i >= obj.sr.b: return mk_none()
        ch, w = obj.sr.obj.chars[obj.sr.a + obj.i]
        r = mk_some(Agg('tuple', None, [obj.off, ch]))
        obj.i += 1; obj.off += w
        return r
    if t is Chars:
        if obj.sr.a + obj.i >= obj.sr.b: return mk_none()
        ch, w = obj.sr.obj.chars[obj.sr.a + obj.i]
        obj.i += 1
        return mk_some(ch)
    if t is Peekable:
        if obj.peeked is not None:
            r, obj.peeked = obj.peeked, None
            return r
        return iter_next(it, obj.it)
    if t is Agg and obj.ty in ('Range', 'std::ops::Range'):
        if it.branch(it.binop('Lt', obj.f[0], obj.f[1], 'usize')):
            v = obj.f[0]; obj.f[0] = it.binop('Add', v, 1, 'usize'); return mk_some(v)
        return mk_none()
    if t is Agg and obj.ty in ('RangeFrom', 'std::ops::RangeFrom'):
        v = obj.f[0]
        if it.branch(it.binop('Eq', v, (1 << 64) - 1, 'usize')): raise Panic('attempt to add with overflow (RangeFrom::next)')
        obj.f[0] = it.binop('Add', v, 1, 'usize')
        return mk_some(v)
    if t is Agg and obj.ty == 'RangeInclusive':
        # fields: start, end, exhausted
        if obj.f[2] is True: return mk_none()
        if it.branch(it.binop('Lt', obj.f[0], obj.f[1], 'usize')):
            v = obj.f[0]; obj.f[0] = it.binop('Add', v, 1, 'usize'); return mk_some(v)
        if it.branch(it.binop('Eq', obj.f[0], obj.f[1], 'usize')):
            obj.f[2] = True; return mk_some(obj.f[0])
        obj.f[2] = True
        return mk_none()
    if t is Agg and obj.ty == 'Rev':
        return iter_next_back(it, obj.f[0])
    if t is MapIter:
        r = iter_next(it, obj.it)
        if r.var == 0: return r
        return mk_some(it.call_closure(obj.f, [r.f[0]]))
    if t is FilterMapIter:
        while True:
            r = iter_next(it, obj.it)
            if r.var == 0: return r
            o = it.call_closure(obj.f, [r.f[0]])
            if o.var == 1: return o
    if t is FilterIter:
        while True:
            r = iter_next(it, obj.it)
            if r.var == 0: return r
            ok = it.call_closure(obj.f, [Ref(Cell(r.f[0]))])
            if it.branch(ok): return r
    if t is VecIntoIter:
        if obj.i >= len(obj.lst): return mk_none()
        v = obj.lst[obj.i]; obj.i += 1
        return mk_some(v)
    if t is ClonedIter:
        r = iter_next(it, obj.it)
        if r.var == 0: return r
        return mk_some(it.clone(deref(r.f[0])))
    if t is SkipIter:
        while obj.n > 0:
            obj.n -= 1
            r = iter_next(it, obj.it)
            if r.var == 0: return r
        return iter_next(it, obj.it)
    if t is TakeIter:
        if is_sym(obj.n):
            # symbolic count (e.g. `iter().take(sp)` with a symbolic stack pointer): decide n == 0, then count down symbolically
            if it.branch(obj.n == 0): return mk_none()
            obj.n = z3.simplify(obj.n - 1)
            return iter_next(it, obj.it)
        if obj.n <= 0: return mk_none()
        obj.n -= 1
        return iter_next(it, obj.it)
    if t is ZipIter:
        a = iter_next(it, obj.a)
        if a.var == 0: return a
        b = iter_next(it, obj.b)
        if b.var == 0: return b
        return mk_some(Agg('tuple', None, [a.f[0], b.f[0]]))
    if t is ChainIter:
        if obj.a is not None:
            r = iter_next(it, obj.a)
            if r.var == 1: return r
            obj.a = None
        return iter_next(it, obj.b)
    if t is Agg and obj.ty in ('IntoIter', 'Iter'):
        h = it.prog.exact.get('<cell::%s as Iterator>::next' % obj.ty)       # marwood's own list iterators: their MIR (registered by models_vm)
        if h is not None: return h(it, None, [Ref(Cell(obj))])
    raise Unsupported('iter_next on %r' % (obj,))


def iter_next_back(it, obj):
    obj = unbox(obj)
    t = type(obj)
    if t is SliceIter:
        if obj.lo >= obj.hi: return mk_none()
        obj.hi -= 1
        return mk_some(obj.sl.elem(obj.hi))
    if t is Agg and obj.ty in ('Range', 'std::ops::Range'):
        if it.branch(it.binop('Lt', obj.f[0], obj.f[1], 'usize')):
            obj.f[1] = it.binop('Sub', obj.f[1], 1, 'usize'); return mk_some(obj.f[1])
        return mk_none()
    if t is Chars:
        if obj.sr.a + obj.i >= obj.sr.b: return mk_none()
        obj.sr = StrRef(obj.sr.obj, obj.sr.a, obj.sr.b - 1)
        return mk_some(obj.sr.obj.chars[obj.sr.b][0])
    if t is EnumIter and type(unbox(obj.it)) is SliceIter:
        inner = unbox(obj.it)
        r = iter_next_back(it, inner)
        if r.var == 0: return r
        return mk_some(Agg('tuple', None, [obj.n + (inner.hi - inner.lo), r.f[0]]))
    if t is MapIter:
        r = iter_next_back(it, obj.it)
        if r.var == 0: return r
        return mk_some(it.call_closure(obj.f, [r.f[0]]))
    if t is RevIter:
        return iter_next(it, obj.it)
    if t is Agg and obj.ty == 'Rev':
        return iter_next(it, obj.f[0])
    raise Unsupported('iter_next_back on %r' % (obj,))


def iter_of(it, v):
    """IntoIterator::into_iter on a value"""
    x = v
    if isinstance(x, Ref):
        y = x.get()
        if isinstance(y, list): return SliceIter(SliceRef(x, 0, len(y)))
        if isinstance(y, SliceRef): return SliceIter(y)
        return v       # &mut I
    if isinstance(x, SliceRef): return SliceIter(x)
    if isinstance(x, list): return VecIntoIter(x)
    return x


# char predicates ---------------------------------------------------------------------------------
def rng(ch, lo, hi):
    return z3.And(z3.UGE(ch, ord(lo)), z3.ULE(ch, ord(hi)))


_ASCII_PREDS = {
    'is_ascii_digit': lambda ch: rng(ch, '0', '9'),
    'is_ascii_hexdigit': lambda ch: z3.Or(rng(ch, '0', '9'), rng(ch, 'a', 'f'), rng(ch, 'A', 'F')),
    'is_ascii_alphabetic': lambda ch: z3.Or(rng(ch, 'a', 'z'), rng(ch, 'A', 'Z')),
    'is_ascii_alphanumeric': lambda ch: z3.Or(rng(ch, 'a', 'z'), rng(ch, 'A', 'Z'), rng(ch, '0', '9')),
    'is_ascii': lambda ch: z3.ULT(ch, 128),
    'is_ascii_lowercase': lambda ch: rng(ch, 'a', 'z'),
    'is_ascii_uppercase': lambda ch: rng(ch, 'A', 'Z'),
    'is_ascii_whitespace': lambda ch: z3.Or(ch == 32, ch == 9, ch == 10, ch == 12, ch == 13),
    'is_ascii_punctuation': lambda ch: z3.Or(rng(ch, '!', '/'), rng(ch, ':', '@'), rng(ch, '[', '`'), rng(ch, '{', '~')),
    'is_ascii_control': lambda ch: z3.Or(z3.ULT(ch, 32), ch == 127),
    'is_control': lambda ch: z3.Or(z3.ULT(ch, 32), z3.And(z3.UGE(ch, 127), z3.ULE(ch, 159))),
}
# Unicode-table predicates restricted to ASCII (exact there)
_UNI_ASCII = {
    'is_alphabetic': lambda ch: z3.Or(rng(ch, 'a', 'z'), rng(ch, 'A', 'Z')),
    'is_whitespace': lambda ch: z3.Or(ch == 32, z3.And(z3.UGE(ch, 9), z3.ULE(ch, 13))),
    'is_numeric': lambda ch: rng(ch, '0', '9'),
    'is_alphanumeric': lambda ch: z3.Or(rng(ch, 'a', 'z'), rng(ch, 'A', 'Z'), rng(ch, '0', '9')),
    'is_lowercase': lambda ch: rng(ch, 'a', 'z'),
    'is_uppercase': lambda ch: rng(ch, 'A', 'Z'),
}
_CP_CACHE = {}
_CP_KEEP = []


def char_pred(it, name, ch):
    ch = deref(ch)
    if not is_sym(ch):
        tbl = getattr(it.prog, 'chartable', None)
        return concrete_char_pred(name, ch, tbl)
    key = (name, ch.get_id(), it.char_info.get(ch.get_id()))
    r = _CP_CACHE.get(key)
    if r is not None: return r
    if name in _ASCII_PREDS:
        r = _ASCII_PREDS[name](ch)
    elif name in _UNI_ASCII:
        if it.char_info.get(ch.get_id()) == 1 or it.must(z3.ULT(ch, 128)):
            r = _UNI_ASCII[name](ch)
        else:
            # outside ASCII: an uninterpreted (but fixed) predicate of the code point -- sound for "holds"
            uf = z3.Function('uni_' + name, z3.BitVecSort(32), z3.BoolSort())
            it.notes.append('uninterpreted ' + name)
            return z3.If(z3.ULT(ch, 128), _UNI_ASCII[name](ch), uf(ch))
    else:
        raise Unsupported('char predicate ' + name)
    _CP_CACHE[key] = r
    _CP_KEEP.append(ch)
    return r

UNI_FACTS = {}


def concrete_char_pred(name, ch, tbl=None):
    c = chr(ch)
    asc = ch < 128
    if name == 'is_ascii_digit': return c in '0123456789'
    if name == 'is_ascii_hexdigit': return c in '0123456789abcdefABCDEF'
    if name == 'is_ascii_alphabetic': return asc and c.isalpha()
    if name == 'is_ascii_alphanumeric': return asc and c.isalnum()
    if name == 'is_ascii': return asc
    if name == 'is_ascii_lowercase': return 'a' <= c <= 'z'
    if name == 'is_ascii_uppercase': return 'A' <= c <= 'Z'
    if name == 'is_ascii_whitespace': return c in ' \t\n\x0c\r'
    if name == 'is_ascii_punctuation': return asc and (33 <= ch <= 47 or 58 <= ch <= 64 or 91 <= ch <= 96 or 123 <= ch <= 126)
    if name == 'is_ascii_control': return ch < 32 or ch == 127
    if name == 'is_control': return ch < 32 or 127 <= ch <= 159
    if asc:
        if name == 'is_alphabetic': return c.isalpha()
        if name == 'is_whitespace': return c in ' \t\n\x0b\x0c\r'
        if name == 'is_numeric': return c in '0123456789'
        if name == 'is_alphanumeric': return c.isalnum()
        if name == 'is_lowercase': return 'a' <= c <= 'z'
        if name == 'is_uppercase': return 'A' <= c <= 'Z'
    if tbl is not None and ch in tbl and name in tbl[ch]:
        return tbl[ch][name]
    raise Unsupported('char predicate %s on U+%04X without table entry' % (name, ch))


def len_utf8(it, ch):
    ch = deref(ch)
    if not is_sym(ch): return utf8_width(ch)
    w = it.char_info.get(ch.get_id())
    if w is not None: return w
    if it.branch(z3.ULT(ch, 0x80)): return 1
    if it.branch(z3.ULT(ch, 0x800)): return 2
    if it.branch(z3.ULT(ch, 0x10000)): return 3
    return 4


def to_digit(it, ch, radix):
    ch = deref(ch)
    if is_sym(ch):
        e = it.ghost.get('_digitval', {}).get(ch.get_id())
        if e is not None:
            # a digit produced by a printer model (models_fmtnum) is consumed by real code: its defining equation is needed now
            p = it.ghost.get('_pending_defs')
            if p:
                it.assume(z3.And(*p)); del p[:]
            if e[2] <= radix: return mk_some(e[1])
    if not is_sym(ch):
        c = chr(ch)
        try:
            d = int(c, 36) if c.isascii() and c.isalnum() else None
        except ValueError:
            d = None
        if d is None or d >= radix: return mk_none()
        return mk_some(d)
    if radix > 10:
        isd = z3.Or(rng(ch, '0', '9'), z3.And(z3.UGE(ch, ord('a')), z3.ULT(ch, ord('a') + radix - 10)),
                    z3.And(z3.UGE(ch, ord('A')), z3.ULT(ch, ord('A') + radix - 10)))
    else:
        isd = z3.And(z3.UGE(ch, ord('0')), z3.ULT(ch, ord('0') + radix))
    if not it.branch(isd): return mk_none()
    val = z3.If(z3.ULE(ch, ord('9')), ch - ord('0'), z3.If(z3.UGE(ch, ord('a')), ch - ord('a') + 10, ch - ord('A') + 10))
    return mk_some(z3.simplify(val))


def str_index(it, sr, lo, hi, what='str'):
    """byte-range slicing of a &str with char-boundary panics; lo/hi python ints or None"""
    offs, total = [], 0
    for _, w in sr.chars():
        offs.append(total); total += w
    offs.append(total)
    if lo is None: lo = 0
    if hi is None: hi = total
    if is_sym(lo): lo = it.concretize(lo)
    if is_sym(hi): hi = it.concretize(hi)
    if lo > hi: raise Panic('slice index starts at %d but ends at %d' % (lo, hi), 'str-slice')
    if hi > total: raise Panic('byte index %d is out of bounds of str (len %d)' % (hi, total), 'str-slice')
    if lo not in offs or hi not in offs:
        raise Panic('byte index is not a char boundary', 'str-boundary')
    return StrRef(sr.obj, sr.a + offs.index(lo), sr.a + offs.index(hi))


def chars_equal(it, a, b):
    """a, b: lists of (cp, w).  -> python bool (forks on symbolic code points)"""
    if len(a) != len(b): return False
    for (x, _), (y, _) in zip(a, b):
        if not it.branch(it.binop('Eq', x, y, 'char')): return False
    return True


def conc_str(chars):
    """python str if every char is concrete else None"""
    out = []
    for c, _ in chars:
        if is_sym(c): return None
        out.append(chr(c))
    return ''.join(out)


# fmt ---------------------------------------------------------------------------------------------
class FmtArgs:
    def __init__(s, tpl, args): s.tpl, s.args = tpl, args
class FmtArg:
    def __init__(s, kind, val, ty=None): s.kind, s.val, s.ty = kind, val, ty
class Formatter:
    """core::fmt::Formatter writing into `out` (list of (cp, w)); flags: alternate"""
    def __init__(s, out, alternate=False, spec=None):
        s.out, s.alternate, s.spec = out, alternate, spec or {}


def render(it, fa, out, alternate_default=False):
    """interpret a fmt::Arguments against `out` (list of chars).  Template encoding of the pinned nightly
    (core/src/fmt/mod.rs): sequence of pieces; byte n<0x80: literal of n bytes follows; 0x80..: placeholder
    0xC0|flags with optional option fields; 0x00 terminates."""
    if isinstance(fa, StrRef):       # Arguments::from_str
        out.extend(fa.chars()); return
    tpl = fa.tpl
    if isinstance(tpl, SliceRef): tpl = tpl.lst()[tpl.lo:tpl.hi]
    args = fa.args
    if isinstance(args, Ref): args = args.get()
    if isinstance(args, SliceRef): args = args.lst()[args.lo:args.hi]
    k = 0; ai = 0
    while True:
        n = tpl[k]; k += 1
        if n == 0: break
        if n < 0x80:
            raw = bytes(tpl[k:k + n]); k += n
            # literals may be split in the middle of a multi-byte char only never: decode whole
            for ch in raw.decode('utf-8'):
                out.append((ord(ch), utf8_width(ord(ch))))
        elif n == 0x80:
            # long literal: u16 length
            ln = tpl[k] | (tpl[k + 1] << 8); k += 2
            raw = bytes(tpl[k:k + ln]); k += ln
            for ch in raw.decode('utf-8'):
                out.append((ord(ch), utf8_width(ord(ch))))
        elif n & 0xC0 == 0xC0:
            spec = {}
            flags = None
            if n & 1:
                flags = tpl[k] | (tpl[k + 1] << 8) | (tpl[k + 2] << 16) | (tpl[k + 3] << 24); k += 4
                spec['flags'] = flags
            if n & 2:
                spec['width'] = tpl[k] | (tpl[k + 1] << 8); k += 2
            if n & 4:
                spec['precision'] = tpl[k] | (tpl[k + 1] << 8); k += 2
            if n & 8:
                ai = tpl[k] | (tpl[k + 1] << 8); k += 2
            arg = args[ai]; ai += 1
            alt = bool(flags is not None and (flags >> 23) & 1)
            fmt_value(it, arg.kind, arg.val, Formatter(out, alt, spec), arg.ty)
        else:
            raise Unsupported('fmt template byte 0x%x' % n)


def fmt_value(it, kind, val, f, ty=None):
    """Display/Debug/LowerHex... of a value into formatter f"""
    v = val
    while isinstance(v, Ref): v = v.get()
    nf = getattr(it.prog, 'numfmt', None)
    if nf is not None and nf(it, kind, v, f, ty): return
    h = getattr(it.prog, 'fmt_hook', None)
    if h is not None:
        r = h(it, kind, v, f)
        if r is not NotImplemented: return
    if isinstance(v, (StrRef, StrObj)) and kind == 'display':
        sr = as_str(it, v)
        pad_write(f, list(sr.chars())); return
    if isinstance(v, Agg) and v.ty == 'Cow' and kind == 'display':
        return fmt_value(it, kind, v.f[0], f)
    if isinstance(v, Agg) and v.ty == 'Box':
        return fmt_value(it, kind, v.f[0].f[0].f[0], f)
    if isinstance(v, bool) and kind in ('display', 'debug'):
        f.out.extend((ord(c), 1) for c in ('true' if v else 'false')); return
    if isinstance(v, int) and not isinstance(v, bool):
        ty = getattr(val, '_ty', None)
        if kind == 'display_char':
            f.out.append((v, utf8_width(v))); return
        if kind in ('display', 'debug'):
            pad_write(f, [(ord(c), 1) for c in str(v)]); return
        if kind == 'lowerhex':
            pad_write(f, [(ord(c), 1) for c in '%x' % (v & ((1 << 64) - 1) if v < 0 else v)]); return
    if is_sym(v) and kind == 'display_char':
        f.out.append((v, len_utf8(it, v))); return
    if isinstance(v, Agg):
        name = it.prog.resolve_crate('<%s as %s>::fmt' % (v.ty, KIND_TRAIT[kind]))
        if name:
            fcell = Ref(Cell(Agg('Formatter', None, [f])))
            r = it.call(name, [Ref(Cell(v)), fcell])
            return
    if kind == 'lowerhex' and is_sym(v) and not z3.is_fp(v) and not f.spec:
        # hex digits of a symbolic integer: fork on the number of digits, digits are solver terms
        w = v.size()
        nd = 1
        while nd < w // 4 and not it.branch(z3.ULT(v, 1 << (4 * nd))): nd += 1
        for i in range(nd - 1, -1, -1):
            nib = z3.ZeroExt(32 - 4, z3.Extract(4 * i + 3, 4 * i, v)) if w >= 4 * i + 4 else z3.BitVecVal(0, 32)
            f.out.append((z3.simplify(z3.If(z3.ULT(nib, 10), nib + 48, nib + 87)), 1))
        return
    if kind in ('display', 'debug', 'lowerhex') and (is_sym(v) or isinstance(v, float)):
        f.out.append(('opaque', kind, v)); return
    raise Unsupported('fmt %s of %r' % (kind, v))

KIND_TRAIT = {'display': 'Display', 'debug': 'Debug', 'lowerhex': 'LowerHex', 'octal': 'Octal', 'binary': 'Binary',
              'display_char': 'Display', 'lowerexp': 'LowerExp'}


def pad_write(f, chars):
    w = f.spec.get('width')
    if w is not None and len(chars) < w:
        flags = f.spec.get('flags', 0)
        align = (flags >> 29) & 3      # 0 left 1 right 2 center 3 unknown
        fill = flags & 0x1FFFFF if flags else 32
        pad = [(fill or 32, 1)] * (w - len(chars))
        if align == 1: chars = pad + chars
        else: chars = chars + pad
    f.out.extend(chars)


def install(prog):
    M = prog.model
    # logging is statically disabled (log level comparisons are constant false): exact matches take precedence
    prog.exact['<Level as PartialOrd<LevelFilter>>::le'] = lambda it, m, a: False
    prog.exact['<log::Level as PartialOrd<log::LevelFilter>>::le'] = lambda it, m, a: False
    prog.exact['<LevelFilter as PartialOrd>::le'] = lambda it, m, a: False

    # ---- explicit panics ---------------------------------------------------------------------
    @M(r'(?:core::panicking::|std::rt::)?panic_fmt|(?:core::panicking::)?panic|(?:core::panicking::)?panic_explicit|(?:core::panicking::)?panic_display::<.*>|(?:std::rt::)?begin_panic::<.*>')
    def _(it, m, a):
        msg = 'explicit panic'
        try:
            if a and isinstance(a[0], (StrRef, StrObj)): msg = conc_str(as_str(it, a[0]).chars()) or msg
            elif a and isinstance(a[0], FmtArgs):
                out = []; render(it, a[0], out); msg = conc_str(out) or 'panic with a formatted message'
        except Exception:
            pass
        raise Panic(msg, 'explicit')

    @M(r'core::panicking::assert_failed::<.*>')
    def _(it, m, a): raise Panic('assertion `left == right` failed', 'assert')

    # ---- Option / Result -------------------------------------------------------------------
    @M(r'Option::<.*>::unwrap')
    def _(it, m, a):
        if a[0].var == 0: raise Panic('called `Option::unwrap()` on a `None` value', 'unwrap')
        return a[0].f[0]

    @M(r'Option::<.*>::expect')
    def _(it, m, a):
        if a[0].var == 0: raise Panic('expect: ' + show_chars(a[1].chars()), 'unwrap')
        return a[0].f[0]

    @M(r'Result::<.*>::(unwrap|expect)')
    def _(it, m, a):
        if a[0].var != 0: raise Panic('called `Result::%s()` on an `Err` value' % m.group(1), 'unwrap')
        return a[0].f[0]

    @M(r'Option::<.*>::unwrap_or(?:::<.*>)?')
    def _(it, m, a): return a[0].f[0] if a[0].var == 1 else a[1]

    @M(r'Result::<.*>::unwrap_or(?:::<.*>)?')
    def _(it, m, a): return a[0].f[0] if a[0].var == 0 else a[1]

    @M(r'Option::<.*>::unwrap_or_else::<.*>')
    def _(it, m, a): return a[0].f[0] if a[0].var == 1 else it.call_closure(a[1], [])

    @M(r'Option::<.*>::unwrap_or_default')
    def _(it, m, a):
        if a[0].var == 1: return a[0].f[0]
        raise Unsupported('unwrap_or_default on None')

    @M(r'Option::<.*>::ok_or::<.*>')
    def _(it, m, a): return mk_ok(a[0].f[0]) if a[0].var == 1 else mk_err(a[1])

    @M(r'Option::<.*>::ok_or_else::<.*>')
    def _(it, m, a):
        if a[0].var == 1: return mk_ok(a[0].f[0])
        return mk_err(it.call_closure(a[1], []))

    @M(r'Option::<.*>::(is_some|is_none)')
    def _(it, m, a):
        o = deref(a[0])
        return (o.var == 1) == (m.group(1) == 'is_some')

    @M(r'Result::<.*>::(is_ok|is_err)')
    def _(it, m, a):
        o = deref(a[0])
        return (o.var == 0) == (m.group(1) == 'is_ok')

    @M(r'Option::<.*>::map::<.*>')
    def _(it, m, a):
        if a[0].var == 0: return mk_none()
        return mk_some(it.call_closure(a[1], [a[0].f[0]]))

    @M(r'Option::<.*>::and_then::<.*>')
    def _(it, m, a):
        if a[0].var == 0: return mk_none()
        return it.call_closure(a[1], [a[0].f[0]])

    @M(r'Option::<.*>::map_or::<.*>')
    def _(it, m, a):
        if a[0].var == 0: return a[1]
        return it.call_closure(a[2], [a[0].f[0]])

    @M(r'Result::<.*>::map::<.*>')
    def _(it, m, a):
        if a[0].var == 1: return a[0]
        return mk_ok(it.call_closure(a[1], [a[0].f[0]]))

    @M(r'Result::<.*>::map_err::<.*>')
    def _(it, m, a):
        if a[0].var == 0: return a[0]
        return mk_err(it.call_closure(a[1], [a[0].f[0]]))

    @M(r'Result::<.*>::ok')
    def _(it, m, a): return mk_some(a[0].f[0]) if a[0].var == 0 else mk_none()

    @M(r'Result::<.*>::and_then::<.*>')
    def _(it, m, a):
        if a[0].var == 1: return a[0]
        return it.call_closure(a[1], [a[0].f[0]])

    @M(r'Option::<&.*>::(cloned|copied)')
    def _(it, m, a):
        return mk_none() if a[0].var == 0 else mk_some(it.clone(deref(a[0].f[0])))

    @M(r'Option::<.*>::as_ref')
    def _(it, m, a):
        o = a[0].get()
        return mk_none() if o.var == 0 else mk_some(a[0].sub(0))

    @M(r'Option::<.*>::as_mut')
    def _(it, m, a):
        o = a[0].get()
        return mk_none() if o.var == 0 else mk_some(a[0].sub(0))

    @M(r'Option::<.*>::take')
    def _(it, m, a):
        o = a[0].get(); a[0].set(mk_none()); return o

    @M(r'<Result<.*> as Try>::branch')
    def _(it, m, a):
        r = a[0]
        return Agg('ControlFlow', 0, [r.f[0]]) if r.var == 0 else Agg('ControlFlow', 1, [mk_err(r.f[0])])

    @M(r'<Option<.*> as Try>::branch')
    def _(it, m, a):
        r = a[0]
        return Agg('ControlFlow', 0, [r.f[0]]) if r.var == 1 else Agg('ControlFlow', 1, [mk_none()])

    @M(r'<Result<.*> as FromResidual<Result<Infallible, (.*)>>>::from_residual')
    def _(it, m, a):
        e = a[0].f[0]
        # `?` converts the error with From::from when the types differ
        dst = re.match(r'<Result<.*, (.*)> as FromResidual', m.group(0))
        src_ty = m.group(1)
        mm = re.match(r'<Result<(.*)> as FromResidual', m.group(0))
        dst_ty = mirsplit_last(mm.group(1))
        if it.prog.short_ty(dst_ty) != it.prog.short_ty(src_ty):
            name = it.prog.resolve_crate('<%s as From<%s>>::from' % (dst_ty, src_ty))
            if name is None:
                raise Unsupported('from_residual conversion %s -> %s' % (src_ty, dst_ty))
            e = it.call(name, [e])
        return mk_err(e)

    @M(r'<Option<.*> as FromResidual<Option<Infallible>>>::from_residual')
    def _(it, m, a): return mk_none()

    @M(r'<([^<> ]+) as Into<\1>>::into|<([^<> ]+) as From<\2>>::from')
    def _(it, m, a): return a[0]

    # ---- char ------------------------------------------------------------------------------
    @M(r'(?:std|core)::char::methods::<impl char>::len_utf8')
    def _(it, m, a): return len_utf8(it, a[0])

    @M(r'(?:std|core)::char::methods::<impl char>::to_digit')
    def _(it, m, a): return to_digit(it, a[0], a[1])

    @M(r'(?:std|core)::char::methods::<impl char>::from_u32|char::from_u32|std::char::from_u32|core::char::from_u32')
    def _(it, m, a):
        v = a[0]
        if not is_sym(v):
            return mk_some(v) if (0 <= v < 0xD800 or 0xE000 <= v <= 0x10FFFF) else mk_none()
        ok = z3.Or(z3.ULT(v, 0xD800), z3.And(z3.UGE(v, 0xE000), z3.ULE(v, 0x10FFFF)))
        return mk_some(v) if it.branch(ok) else mk_none()

    @M(r'(?:std|core)::char::methods::<impl char>::(is_\w+)')
    def _(it, m, a): return char_pred(it, m.group(1), a[0])

    @M(r'<char as Into<String>>::into|<String as From<char>>::from')
    def _(it, m, a):
        ch = a[0]
        return StrObj([(ch, len_utf8(it, ch))])

    @M(r'<char as Into<u32>>::into|<u32 as From<char>>::from')
    def _(it, m, a): return a[0]

    @M(r'<char as PartialEq>::(eq|ne)')
    def _(it, m, a):
        r = it.binop('Eq', deref(a[0]), deref(a[1]), 'char')
        if m.group(1) == 'eq': return r
        return (not r) if isinstance(r, bool) else z3.Not(r)

    @M(r'<(u8|u16|u32|u64|usize|i8|i16|i32|i64|isize|char|bool) as PartialEq>::(eq|ne)')
    def _(it, m, a):
        r = it.binop('Eq', deref(a[0]), deref(a[1]), m.group(1))
        if m.group(2) == 'eq': return r
        return (not r) if isinstance(r, bool) else z3.Not(r)

    @M(r'<(u8|u16|u32|u64|usize|i8|i16|i32|i64|isize|char) as PartialOrd>::(lt|le|gt|ge)')
    def _(it, m, a):
        return it.binop(m.group(2).capitalize(), deref(a[0]), deref(a[1]), m.group(1))

    @M(r'<(u8|u16|u32|u64|usize|i8|i16|i32|i64|isize|char) as (?:Partial)?Ord>::(?:partial_)?cmp')
    def _(it, m, a):
        x, y = deref(a[0]), deref(a[1])
        ty = m.group(1)
        if it.branch(it.binop('Lt', x, y, ty)): r = mk_ordering(-1)
        elif it.branch(it.binop('Eq', x, y, ty)): r = mk_ordering(0)
        else: r = mk_ordering(1)
        return mk_some(r) if 'partial_cmp' in m.group(0) else r

    @M(r'<(\w+) as Clone>::clone')
    def _(it, m, a):
        if m.group(1) in INT_TYPES or m.group(1) in ('f64', 'f32'): return deref(a[0])
        name = it.prog.resolve_crate(m.group(0))
        if name: return it.call(name, a)
        return it.clone(deref(a[0]))

    # ---- str -------------------------------------------------------------------------------
    @M(r'core::str::<impl str>::char_indices')
    def _(it, m, a): return CharIndices(as_str(it, a[0]))

    @M(r'core::str::<impl str>::chars')
    def _(it, m, a): return Chars(as_str(it, a[0]))

    @M(r'core::str::<impl str>::len|String::len')
    def _(it, m, a): return as_str(it, a[0]).bytelen()

    @M(r'core::str::<impl str>::is_empty|String::is_empty')
    def _(it, m, a): return as_str(it, a[0]).bytelen() == 0

    @M(r'<(?:str|String) as Index<(?:std::ops::)?(RangeTo|RangeFrom|Range|RangeFull|RangeInclusive)(?:<usize>)?>>::index')
    def _(it, m, a):
        sr = as_str(it, a[0]); r = a[1]
        k = m.group(1)
        if k == 'RangeTo': return str_index(it, sr, None, r.f[0])
        if k == 'RangeFrom': return str_index(it, sr, r.f[0], None)
        if k == 'Range': return str_index(it, sr, r.f[0], r.f[1])
        if k == 'RangeFull': return sr
        raise Unsupported('str index ' + k)

    @M(r'<str as PartialEq>::(eq|ne)|<String as PartialEq(?:<str>|<&str>|<String>)?>::(eq|ne)|<&str as PartialEq(?:<String>|<str>)?>::(eq|ne)|<str as PartialEq<String>>::(eq|ne)|core::str::traits::<impl PartialEq for str>::(eq|ne)|<(?:&str|String|str) as PartialEq<(?:&str|String|str)>>::(eq|ne)|<&String as PartialEq>::(eq|ne)')
    def _(it, m, a):
        x, y = as_str(it, a[0]), as_str(it, a[1])
        r = chars_equal(it, x.chars(), y.chars())
        ne = any(g == 'ne' for g in m.groups())
        return (not r) if ne else r

    @M(r'core::str::<impl str>::starts_with::<char>')
    def _(it, m, a):
        sr = as_str(it, a[0])
        cs = sr.chars()
        if not cs: return False
        return it.branch(it.binop('Eq', cs[0][0], a[1], 'char'))

    @M(r'core::str::<impl str>::starts_with::<&str>')
    def _(it, m, a):
        sr, p = as_str(it, a[0]).chars(), as_str(it, a[1]).chars()
        if len(p) > len(sr): return False
        return chars_equal(it, sr[:len(p)], p)

    @M(r'<str as ToString>::to_string|<str as ToOwned>::to_owned|<&str as Into<String>>::into|<String as From<&str>>::from|<String as Clone>::clone|<&str as ToString>::to_string|core::str::<impl str>::to_string|<String as From<&String>>::from|<&String as Into<String>>::into|<str as Into<String>>::into|core::str::<impl str>::to_owned|<String as ToString>::to_string|<&String as ToString>::to_string')
    def _(it, m, a):
        return StrObj(list(as_str(it, a[0]).chars()))

    @M(r'<String as Into<String>>::into')
    def _(it, m, a): return a[0]

    @M(r'String::new')
    def _(it, m, a): return StrObj([])

    @M(r'String::with_capacity')
    def _(it, m, a): return StrObj([])

    @M(r'String::push')
    def _(it, m, a):
        ch = a[1]
        deref(a[0]).chars.append((ch, len_utf8(it, ch))); return UNIT

    @M(r'String::push_str')
    def _(it, m, a):
        deref(a[0]).chars.extend(as_str(it, a[1]).chars()); return UNIT

    @M(r'String::as_str|<String as Deref>::deref|<String as AsRef<str>>::as_ref|<String as Borrow<str>>::borrow|<String as DerefMut>::deref_mut|String::as_mut_str|<str as AsRef<str>>::as_ref|<&str as AsRef<str>>::as_ref|<&String as AsRef<str>>::as_ref')
    def _(it, m, a): return as_str(it, a[0])

    @M(r"<Cow<str> as Deref>::deref")
    def _(it, m, a): return as_str(it, a[0])

    @M(r'<Chars as Iterator>::count|core::str::<impl str>::chars::count')
    def _(it, m, a):
        c = deref(a[0]); return c.sr.b - c.sr.a - c.i

    @M(r'<Chars as Iterator>::all::<.*>')
    def _(it, m, a):
        c = deref(a[0])
        while True:
            r = iter_next(it, c)
            if r.var == 0: return True
            if not it.branch(it.call_closure(a[1], [r.f[0]])): return False

    # ---- iterators -------------------------------------------------------------------------
    @M(r'<.* as Iterator>::peekable')
    def _(it, m, a): return Peekable(a[0])

    @M(r'Peekable::<.*>::peek')
    def _(it, m, a):
        pk = deref(a[0])
        if pk.peeked is None: pk.peeked = iter_next(it, pk.it)
        if pk.peeked.var == 0: return mk_none()
        return mk_some(Ref(Cell(pk.peeked), (0,)))

    @M(r'<Peekable<.*> as ExactSizeIterator>::len')
    def _(it, m, a):
        pk = deref(a[0])
        n = 0
        if pk.peeked is not None:
            if pk.peeked.var == 0: return 0
            n = 1
        inner = it.clone(unbox(pk.it))            # count on a copy: the iterator itself is not advanced
        while iter_next(it, inner).var == 1: n += 1
        return n

    @M(r'<.* as Iterator>::next')
    def _(it, m, a): return iter_next(it, a[0])

    @M(r'<.* as DoubleEndedIterator>::next_back')
    def _(it, m, a): return iter_next_back(it, a[0])

    @M(r'<.* as IntoIterator>::into_iter')
    def _(it, m, a): return iter_of(it, a[0])

    @M(r'<.* as Iterator>::rev')
    def _(it, m, a): return RevIter(a[0])

    @M(r'<.* as Iterator>::enumerate')
    def _(it, m, a): return EnumIter(a[0])

    @M(r'<.* as Iterator>::map::<.*>')
    def _(it, m, a): return MapIter(a[0], a[1])

    @M(r'<.* as Iterator>::filter_map::<.*>')
    def _(it, m, a): return FilterMapIter(a[0], a[1])

    @M(r'<.* as Iterator>::filter::<.*>')
    def _(it, m, a): return FilterIter(a[0], a[1])

    @M(r'<.* as Iterator>::cloned::<.*>|<.* as Iterator>::copied::<.*>|<.* as Iterator>::cloned|<.* as Iterator>::copied')
    def _(it, m, a): return ClonedIter(a[0])

    @M(r'<.* as Iterator>::inspect::<.*>')
    def _(it, m, a): return a[0]          # inspect closures in marwood are `trace!` calls (logging only): passed through

    @M(r'<.* as Iterator>::skip')
    def _(it, m, a): return SkipIter(a[0], a[1])

    @M(r'<.* as Iterator>::take')
    def _(it, m, a): return TakeIter(a[0], a[1])

    @M(r'<.* as Iterator>::zip::<.*>')
    def _(it, m, a): return ZipIter(a[0], iter_of(it, a[1]))

    @M(r'<.* as Iterator>::chain::<.*>')
    def _(it, m, a): return ChainIter(a[0], iter_of(it, a[1]))

    @M(r'<.* as Iterator>::find::<.*>')
    def _(it, m, a):
        obj = deref(a[0])
        while True:
            r = iter_next(it, obj)
            if r.var == 0: return mk_none()
            item = r.f[0]
            ok = it.call_closure(a[1], [Ref(Cell(item))])
            if it.branch(ok): return mk_some(item)

    @M(r'<.* as Iterator>::position::<.*>')
    def _(it, m, a):
        obj = deref(a[0]); k = 0
        while True:
            r = iter_next(it, obj)
            if r.var == 0: return mk_none()
            if it.branch(it.call_closure(a[1], [r.f[0]])): return mk_some(k)
            k += 1

    @M(r'<.* as Iterator>::(all|any)::<.*>')
    def _(it, m, a):
        obj = deref(a[0]); want_all = m.group(1) == 'all'
        while True:
            r = iter_next(it, obj)
            if r.var == 0: return want_all
            ok = it.branch(it.call_closure(a[1], [r.f[0]]))
            if want_all and not ok: return False
            if not want_all and ok: return True

    @M(r'<.* as Iterator>::for_each::<.*>')
    def _(it, m, a):
        obj = a[0]
        while True:
            r = iter_next(it, obj)
            if r.var == 0: return UNIT
            it.call_closure(a[1], [r.f[0]])

    @M(r'<.* as Iterator>::fold::<.*>')
    def _(it, m, a):
        obj = a[0]; acc = a[1]
        while True:
            r = iter_next(it, obj)
            if r.var == 0: return acc
            acc = it.call_closure(a[2], [acc, r.f[0]])

    @M(r'<.* as Iterator>::count')
    def _(it, m, a):
        obj = a[0]; n = 0
        while True:
            r = iter_next(it, obj)
            if r.var == 0: return n
            n += 1

    @M(r'<.* as Iterator>::last')
    def _(it, m, a):
        obj = a[0]; last = mk_none()
        while True:
            r = iter_next(it, obj)
            if r.var == 0: return last
            last = r

    @M(r'<.* as Iterator>::nth')
    def _(it, m, a):
        obj = a[0]; n = a[1]
        if is_sym(n): n = it.concretize(n)
        while True:
            r = iter_next(it, obj)
            if r.var == 0 or n == 0: return r
            n -= 1

    @M(r'<.* as Iterator>::collect::<(.*)>')
    def _(it, m, a):
        tgt = m.group(1)
        out = []
        while True:
            r = iter_next(it, a[0])
            if r.var == 0: break
            out.append(r.f[0])
        if tgt.startswith('Vec<'): return out
        if tgt == 'String':
            chars = []
            for x in out:
                if isinstance(x, (StrRef, StrObj)): chars.extend(as_str(it, x).chars())
                else: chars.append((x, len_utf8(it, x)))
            return StrObj(chars)
        if tgt.startswith('Result<Vec<'):
            vals = []
            for x in out:
                if x.var == 1: return x
                vals.append(x.f[0])
            return mk_ok(vals)
        raise Unsupported('collect into ' + tgt)

    @M(r'<Rev<.*> as Iterator>::next')
    def _(it, m, a): return iter_next(it, a[0])

    # ---- slices / Vec ----------------------------------------------------------------------
    @M(r'core::slice::<impl \[.*\]>::iter(_mut)?')
    def _(it, m, a): return SliceIter(as_slice(it, a[0]))

    @M(r'core::slice::<impl \[.*\]>::len')
    def _(it, m, a): return len(as_slice(it, a[0]))

    @M(r'core::slice::<impl \[.*\]>::is_empty')
    def _(it, m, a): return len(as_slice(it, a[0])) == 0

    @M(r'core::slice::<impl \[.*\]>::get(_mut)?::<usize>')
    def _(it, m, a):
        sl = as_slice(it, a[0]); i = a[1]
        inb = it.binop('Lt', i, len(sl), 'usize')
        if not it.branch(inb): return mk_none()
        i = it.concretize(i)
        return mk_some(sl.elem(i))

    @M(r'core::slice::<impl \[.*\]>::(first|last)(_mut)?')
    def _(it, m, a):
        sl = as_slice(it, a[0])
        if len(sl) == 0: return mk_none()
        return mk_some(sl.elem(0 if m.group(1) == 'first' else len(sl) - 1))

    @M(r'(?:core|std|alloc)::slice::<impl \[.*\]>::to_vec|<\[.*\] as ToOwned>::to_owned|<Vec<.*> as From<&\[.*\]>>::from|<Vec<.*> as From<&mut \[.*\]>>::from')
    def _(it, m, a):
        sl = as_slice(it, a[0])
        return [clone_val(it, sl.elem(i).get()) for i in range(len(sl))]

    @M(r'core::slice::<impl \[.*\]>::split_at_mut')
    def _(it, m, a):
        sl = as_slice(it, a[0]); k = a[1]
        if is_sym(k): k = it.concretize(k)
        if k > len(sl): raise Panic('mid > len in split_at_mut', 'slice')
        return Agg('tuple', None, [SliceRef(sl.lref, sl.lo, sl.lo + k), SliceRef(sl.lref, sl.lo + k, sl.hi)])

    @M(r'core::slice::<impl \[.*\]>::clone_from_slice')
    def _(it, m, a):
        d, srcs = as_slice(it, a[0]), as_slice(it, a[1])
        if len(d) != len(srcs): raise Panic('destination and source slices have different lengths', 'slice')
        for i in range(len(d)):
            d.elem(i).set(clone_val(it, srcs.elem(i).get()))
        return UNIT

    @M(r'core::slice::<impl \[.*\]>::reverse')
    def _(it, m, a):
        sl = as_slice(it, a[0]); l = sl.lst()
        l[sl.lo:sl.hi] = l[sl.lo:sl.hi][::-1]
        return UNIT

    @M(r'<\[.*\] as Index(?:Mut)?<(?:std::ops::)?(RangeTo|RangeFrom|Range|RangeFull|RangeInclusive|RangeToInclusive)<usize>>>::index(_mut)?|<Vec<.*> as Index(?:Mut)?<(?:std::ops::)?(RangeTo|RangeFrom|Range|RangeFull|RangeInclusive|RangeToInclusive)<usize>>>::index(_mut)?')
    def _(it, m, a):
        sl = as_slice(it, a[0]); r = a[1]
        n = len(sl)
        kind = m.group(1) or m.group(3)
        if kind == 'RangeTo': lo, hi = 0, r.f[0]
        elif kind == 'RangeFrom': lo, hi = r.f[0], n
        elif kind == 'Range': lo, hi = r.f[0], r.f[1]
        elif kind == 'RangeFull': lo, hi = 0, n
        elif kind == 'RangeInclusive':
            lo, hi = r.f[0], r.f[1]
            if is_sym(hi): hi = it.concretize(hi)
            if hi == (1 << 64) - 1: raise Panic('attempted to index slice up to maximum usize', 'slice')
            hi = hi + 1
        elif kind == 'RangeToInclusive':
            lo, hi = 0, r.f[0]
            if is_sym(hi): hi = it.concretize(hi)
            hi = hi + 1
        if is_sym(lo): lo = it.concretize(lo)
        if is_sym(hi): hi = it.concretize(hi)
        if lo > hi: raise Panic('slice index starts at %d but ends at %d' % (lo, hi), 'slice')
        if hi > n: raise Panic('range end index %d out of range for slice of length %d' % (hi, n), 'slice')
        return SliceRef(sl.lref, sl.lo + lo, sl.lo + hi)

    @M(r'<Vec<.*> as Index(?:Mut)?<usize>>::index(_mut)?|<\[.*\] as Index(?:Mut)?<usize>>::index(_mut)?')
    def _(it, m, a):
        sl = as_slice(it, a[0]); i = a[1]
        if is_sym(i):
            if not it.branch(z3.ULT(i, len(sl))): raise Panic('index out of bounds', 'index')
            i = it.concretize(i)
        elif not (0 <= i < len(sl)):
            raise Panic('index out of bounds: the len is %d but the index is %d' % (len(sl), i), 'index')
        return sl.elem(i)

    @M(r'Vec::<.*>::new|<Vec<.*> as Default>::default')
    def _(it, m, a): return []

    @M(r'Vec::<.*>::with_capacity')
    def _(it, m, a): return []

    @M(r'Vec::<.*>::push')
    def _(it, m, a): deref(a[0]).append(a[1]); return UNIT

    @M(r'Vec::<.*>::pop')
    def _(it, m, a):
        l = deref(a[0])
        return mk_some(l.pop()) if l else mk_none()

    @M(r'Vec::<.*>::len')
    def _(it, m, a): return len(deref(a[0]))

    @M(r'Vec::<.*>::is_empty')
    def _(it, m, a): return len(deref(a[0])) == 0

    @M(r'Vec::<.*>::clear')
    def _(it, m, a): del deref(a[0])[:]; return UNIT

    @M(r'Vec::<.*>::truncate')
    def _(it, m, a):
        n = a[1]
        if is_sym(n): n = it.concretize(n)
        del deref(a[0])[n:]; return UNIT

    @M(r'Vec::<.*>::insert')
    def _(it, m, a):
        l = deref(a[0]); i = a[1]
        if is_sym(i): i = it.concretize(i)
        if i > len(l): raise Panic('insertion index out of range', 'index')
        l.insert(i, a[2]); return UNIT

    @M(r'Vec::<.*>::remove')
    def _(it, m, a):
        l = deref(a[0]); i = a[1]
        if is_sym(i): i = it.concretize(i)
        if i >= len(l): raise Panic('removal index out of range', 'index')
        return l.pop(i)

    @M(r'Vec::<.*>::resize')
    def _(it, m, a):
        lst = deref(a[0]); n = a[1]
        if is_sym(n): n = it.concretize(n)
        if n > (1 << 20): raise Unsupported('Vec::resize to %d' % n)
        while len(lst) < n: lst.append(clone_val(it, a[2]))
        del lst[n:]
        return UNIT

    @M(r'Vec::<.*>::extend_from_slice')
    def _(it, m, a):
        l = deref(a[0]); sl = as_slice(it, a[1])
        for i in range(len(sl)): l.append(clone_val(it, sl.elem(i).get()))
        return UNIT

    @M(r'Vec::<.*>::(as_slice|as_mut_slice)|<Vec<.*> as Deref(Mut)?>::deref(_mut)?|<Vec<.*> as AsRef<\[.*\]>>::as_ref|<Vec<.*> as Borrow<\[.*\]>>::borrow')
    def _(it, m, a): return as_slice(it, a[0])

    @M(r'<Vec<.*> as Clone>::clone')
    def _(it, m, a): return [clone_val(it, x) for x in deref(a[0])]

    @M(r'<Vec<.*> as Into<Vec<.*>>>::into')
    def _(it, m, a): return a[0]

    @M(r'<Vec<.*> as From<\[.*\]>>::from|<\[.*\] as Into<Vec<.*>>>::into|std::slice::<impl \[.*\]>::into_vec::<.*>|<\[.*; \d+\] as Into<Vec<.*>>>::into')
    def _(it, m, a):
        v = a[0]
        if isinstance(v, Agg) and v.ty == 'Box': v = unbox(v)
        return list(v)

    @M(r'std::vec::from_elem::<.*>|alloc::vec::from_elem::<.*>')
    def _(it, m, a):
        n = a[1]
        if is_sym(n): n = it.concretize(n)
        if n >= (1 << 59): raise Panic('capacity overflow (vec![x; %d])' % n, 'capacity-overflow')
        if n > (1 << 20): raise Unsupported('vec![x; %d]' % n)
        return [clone_val(it, a[0]) for _ in range(n)]

    @M(r'<Vec<.*> as FromIterator<.*>>::from_iter::<.*>')
    def _(it, m, a):
        out = []
        obj = iter_of(it, a[0])
        while True:
            r = iter_next(it, obj)
            if r.var == 0: return out
            out.append(r.f[0])

    @M(r'<\(.*\) as PartialEq>::(eq|ne)')
    def _(it, m, a):
        r = values_equal(it, deref(a[0]), deref(a[1]))
        if m.group(1) == 'eq': return r
        return (not r) if isinstance(r, bool) else z3.Not(r)

    @M(r'<Vec<.*> as PartialEq>::(eq|ne)|<\[.*\] as PartialEq>::(eq|ne)')
    def _(it, m, a):
        x, y = as_slice(it, a[0]), as_slice(it, a[1])
        ne = 'ne' in (m.group(1), m.group(2))
        if len(x) != len(y): return ne
        for i in range(len(x)):
            if not it.branch(values_equal(it, x.elem(i).get(), y.elem(i).get())): return ne
        return not ne

    # ---- Box / Rc / RefCell ----------------------------------------------------------------
    @M(r'Box::<.*>::new')
    def _(it, m, a): return mk_box(a[0])

    @M(r'Box::<\[.*; \d+\]>::new_uninit')
    def _(it, m, a):
        # vec![a, b] lowering: Box<MaybeUninit<[T; N]>> written through .1 (ManuallyDrop) .0 (MaybeDangling) .0
        return mk_box(Agg('MaybeUninit', None, [UNIT, Agg('ManuallyDrop', None, [Agg('MaybeDangling', None, [None])])]))

    @M(r'std::boxed::box_assume_init_into_vec_unsafe::<.*>|alloc::boxed::box_assume_init_into_vec_unsafe::<.*>')
    def _(it, m, a):
        mu = unbox(a[0])
        arr = mu.f[1].f[0].f[0]
        if arr is None: raise Unsupported('vec! storage not initialised')
        return list(arr)

    @M(r'Rc::<.*>::new')
    def _(it, m, a): return Ref(Cell(a[0]))

    @M(r'<Rc<.*> as Clone>::clone')
    def _(it, m, a): return deref1(a[0])

    @M(r'<Rc<.*> as (Deref|AsRef<.*>|Borrow<.*>)>::(deref|as_ref|borrow)')
    def _(it, m, a): return deref1(a[0])

    @M(r'Rc::<.*>::ptr_eq')
    def _(it, m, a): return deref1(a[0]).same(deref1(a[1]))

    @M(r'Rc::<.*>::as_ptr')
    def _(it, m, a): return deref1(a[0])

    @M(r'<Box<.*> as (Deref|AsRef<.*>|Borrow<.*>)>::(deref|as_ref|borrow)|<Box<.*> as DerefMut>::deref_mut')
    def _(it, m, a):
        b = deref(a[0]) if isinstance(a[0], Ref) else a[0]
        return b.f[0].f[0].f[0]

    @M(r'RefCell::<.*>::new')
    def _(it, m, a): return Agg('RefCell', None, [a[0], 0])

    @M(r'RefCell::<.*>::(borrow|borrow_mut)')
    def _(it, m, a):
        cell = a[0]
        if not isinstance(cell.get(), Agg): cell = cell.get()
        rcv = cell.get()
        if m.group(1) == 'borrow':
            if rcv.f[1] < 0: raise Panic('already mutably borrowed: BorrowError', 'refcell')
            rcv.f[1] += 1
            return Agg('BorrowRef', None, [cell.sub(0), cell])
        if rcv.f[1] != 0: raise Panic('already borrowed: BorrowMutError', 'refcell')
        rcv.f[1] = -1
        return Agg('BorrowRefMut', None, [cell.sub(0), cell])

    @M(r'<Ref(Mut)?<.*> as Deref(Mut)?>::deref(_mut)?|<std::cell::Ref(Mut)?<.*> as Deref(Mut)?>::deref(_mut)?')
    def _(it, m, a): return deref(a[0]).f[0]

    @M(r'<RefCell<.*> as Clone>::clone')
    def _(it, m, a):
        rc = deref(a[0])
        if rc.f[1] < 0: raise Panic('already mutably borrowed', 'refcell')
        return Agg('RefCell', None, [clone_val(it, rc.f[0]), 0])

    @M(r'<RefCell<.*> as PartialEq>::eq')
    def _(it, m, a):
        x, y = deref(a[0]), deref(a[1])
        if x.f[1] < 0 or y.f[1] < 0: raise Panic('already mutably borrowed', 'refcell')
        return values_equal(it, x.f[0], y.f[0])

    @M(r'std::mem::(swap|replace|take)::<.*>|core::mem::(swap|replace|take)::<.*>')
    def _(it, m, a):
        k = m.group(1) or m.group(2)
        if k == 'swap':
            x, y = a[0].get(), a[1].get(); a[0].set(y); a[1].set(x); return UNIT
        if k == 'replace':
            x = a[0].get(); a[0].set(a[1]); return x
        raise Unsupported('mem::take')

    @M(r'std::mem::drop::<.*>|core::mem::drop::<.*>|drop::<.*>')
    def _(it, m, a):
        v = a[0]
        if isinstance(v, Agg) and v.ty in ('BorrowRef', 'BorrowRefMut'):
            rc = v.f[1].get()
            if v.ty == 'BorrowRef': rc.f[1] -= 1
            else: rc.f[1] = 0
        return UNIT

    @M(r'std::ptr::eq::<.*>|core::ptr::eq::<.*>')
    def _(it, m, a):
        x, y = a
        if isinstance(x, Agg) and x.ty == 'fnitem' and isinstance(y, Agg):
            return x.f[0] == y.f[0]
        if isinstance(x, Ref): return x.same(y)
        raise Unsupported('ptr::eq %r %r' % (x, y))

    # ---- integer helpers -------------------------------------------------------------------
    @M(r'core::num::<impl (\w+)>::saturating_sub')
    def _(it, m, a):
        ty = m.group(1); w, sg = INT_TYPES[ty]
        x, y = a
        if sg: raise Unsupported('signed saturating_sub')
        if not is_sym(x) and not is_sym(y): return max(0, x - y)
        X, Y = it.to_bv(x, w), it.to_bv(y, w)
        return z3.If(z3.ULT(X, Y), z3.BitVecVal(0, w), X - Y)

    @M(r'core::num::<impl (\w+)>::checked_(add|sub|mul)')
    def _(it, m, a):
        r = it.overflow_op(m.group(2).capitalize(), a[0], a[1], m.group(1))
        if it.branch(r.f[1]): return mk_none()
        return mk_some(r.f[0])

    @M(r'core::num::<impl (\w+)>::wrapping_(add|sub|mul)')
    def _(it, m, a):
        return it.binop(m.group(2).capitalize(), a[0], a[1], m.group(1))

    @M(r'core::num::<impl (\w+)>::unsigned_abs')
    def _(it, m, a):
        w, _ = INT_TYPES[m.group(1)]; x = a[0]
        if not is_sym(x): return abs(x)
        return z3.If(x < 0, -x, x)

    @M(r'core::num::<impl (u8|u16|u32|u64|usize)>::from_str_radix')
    def _(it, m, a):
        w, _ = INT_TYPES[m.group(1)]
        cs = as_str(it, a[0]).chars(); radix = a[1]
        if not cs: return mk_err(Agg('ParseIntError', None, ['Empty']))
        start = 0
        if not is_sym(cs[0][0]) and cs[0][0] == ord('+'):
            start = 1
            if len(cs) == 1: return mk_err(Agg('ParseIntError', None, ['InvalidDigit']))
        elif is_sym(cs[0][0]):
            if it.branch(cs[0][0] == ord('+')):
                start = 1
                if len(cs) == 1: return mk_err(Agg('ParseIntError', None, ['InvalidDigit']))
        acc = 0
        for ch, _ in cs[start:]:
            d = to_digit(it, ch, radix)
            if d.var == 0: return mk_err(Agg('ParseIntError', None, ['InvalidDigit']))
            r = it.overflow_op('Mul', acc, radix, m.group(1))
            if it.branch(r.f[1]): return mk_err(Agg('ParseIntError', None, ['PosOverflow']))
            r = it.overflow_op('Add', r.f[0], d.f[0], m.group(1))
            if it.branch(r.f[1]): return mk_err(Agg('ParseIntError', None, ['PosOverflow']))
            acc = r.f[0]
        return mk_ok(acc)

    @M(r'std::cmp::(min|max)::<(\w+)>|core::cmp::(min|max)::<(\w+)>|<(\w+) as Ord>::(min|max)')
    def _(it, m, a):
        g = m.groups()
        if g[0]: k, ty = g[0], g[1]
        elif g[2]: k, ty = g[2], g[3]
        else: k, ty = g[5], g[4]
        le = it.branch(it.binop('Le', a[0], a[1], ty))
        if k == 'min': return a[0] if le else a[1]
        return a[1] if le else a[0]

    # ---- fmt -------------------------------------------------------------------------------
    @M(r'core::fmt::rt::Argument::new_(display|debug|lower_hex|octal|binary|lower_exp)::<(.*)>')
    def _(it, m, a):
        kind = {'display': 'display', 'debug': 'debug', 'lower_hex': 'lowerhex', 'octal': 'octal', 'binary': 'binary', 'lower_exp': 'lowerexp'}[m.group(1)]
        if m.group(2) in ('char', '&char') and kind == 'display': kind = 'display_char'
        ty = m.group(2)
        while ty.startswith('&'): ty = ty[1:]
        return FmtArg(kind, a[0], ty)

    @M(r'Arguments::new::<\d+, \d+>|Arguments::new_v1::<\d+, \d+>|core::fmt::Arguments::new::<\d+, \d+>')
    def _(it, m, a): return FmtArgs(a[0], a[1])

    @M(r'Arguments::from_str|Arguments::new_const::<\d+>|Arguments::from_str_nonconst')
    def _(it, m, a): return a[0]

    @M(r'format|alloc::fmt::format|std::fmt::format')
    def _(it, m, a):
        if not getattr(it.prog, 'render_fmt', True):
            return StrObj([('opaque-string',)])
        out = []
        render(it, a[0], out)
        return StrObj(out)

    @M(r'must_use::<.*>|std::hint::must_use::<.*>|core::hint::must_use::<.*>')
    def _(it, m, a): return a[0]

    @M(r'Formatter::write_fmt')
    def _(it, m, a):
        f = deref(a[0]).f[0]
        render(it, a[1], f.out)
        return mk_ok(UNIT)

    @M(r'Formatter::write_str|<Formatter as std::fmt::Write>::write_str|<Formatter as Write>::write_str')
    def _(it, m, a):
        deref(a[0]).f[0].out.extend(as_str(it, a[1]).chars()); return mk_ok(UNIT)

    @M(r'<Formatter as Write>::write_char|Formatter::write_char|<Formatter as std::fmt::Write>::write_char')
    def _(it, m, a):
        ch = a[1]
        deref(a[0]).f[0].out.append((ch, len_utf8(it, ch))); return mk_ok(UNIT)

    @M(r'Formatter::alternate')
    def _(it, m, a): return deref(a[0]).f[0].alternate

    @M(r'<(str|String|&str) as (?:std::fmt::)?Display>::fmt')
    def _(it, m, a):
        f = deref(a[1]).f[0]
        pad_write(f, list(as_str(it, a[0]).chars())); return mk_ok(UNIT)

    @M(r"<.* as thiserror::__private::AsDisplay.*>::as_display")
    def _(it, m, a): return a[0]

    @M(r'(?:std|core)::char::methods::<impl char>::encode_utf8')
    def _(it, m, a):
        # -> &mut str holding the character (the byte buffer itself is not modelled: strings are lists of scalar values)
        ch = deref(a[0])
        return StrRef(StrObj([(ch, len_utf8(it, ch))]))

    @M(r'(?:std|core)::cmp::Ord::max|<usize as Ord>::max|(?:std|core)::cmp::max::<usize>')
    def _(it, m, a):
        x, y = deref(a[0]), deref(a[1])
        if not is_sym(x) and not is_sym(y): return max(x, y)
        return y if it.branch(it.binop('Lt', x, y, 'usize')) else x

    @M(r'<char as (?:std::fmt::)?Display>::fmt')
    def _(it, m, a):
        ch = deref(a[0]); deref(a[1]).f[0].out.append((ch, len_utf8(it, ch))); return mk_ok(UNIT)

    @M(r'(?:std|core)::char::methods::<impl char>::(to_uppercase|to_lowercase)')
    def _(it, m, a):
        c = deref(a[0]); up = m.group(1) == 'to_uppercase'
        if is_sym(c):
            if it.char_info.get(c.get_id()) != 1: raise Unsupported('case mapping of a symbolic non-ASCII character')
            return VecIntoIter([(ascii_upper if up else ascii_lower)(it, c)])
        if c < 128: return VecIntoIter([(ascii_upper if up else ascii_lower)(it, c)])
        tbl = getattr(it.prog, 'chartable', None) or {}
        if c not in tbl: raise Unsupported('case mapping of U+%04X without table entry' % c)
        return VecIntoIter(list(tbl[c]['toupper' if up else 'tolower']))

    @M(r'<char as ToString>::to_string|<&char as ToString>::to_string')
    def _(it, m, a):
        ch = deref(a[0])
        return StrObj([(ch, len_utf8(it, ch))])

    @M(r'<.* as ToString>::to_string')
    def _(it, m, a):
        out = []
        v = a[0]
        fmt_value(it, 'display', v, Formatter(out))
        return StrObj(out)

    @M(r'<(.*) as Fn(?:Mut|Once)?<\(.*\)>>::call(?:_mut|_once)?')
    def _(it, m, a):
        clo = deref(a[0])
        if clo is None:          # zero-sized closure: MIR never initialises the local
            clo = Agg(re.sub(r'^&(mut )?', '', m.group(1)), None, [])
        tup = a[1]
        return it.call_closure(clo, list(tup.f) if isinstance(tup, Agg) else [tup])


    # ---- more Option / Result --------------------------------------------------------------
    @M(r'Option::<.*>::map_or_else::<.*>')
    def _(it, m, a):
        if a[0].var == 0: return it.call_closure(a[1], [])
        return it.call_closure(a[2], [a[0].f[0]])

    @M(r'Option::<.*>::(is_some_and|is_none_or)::<.*>')
    def _(it, m, a):
        if a[0].var == 0: return m.group(1) == 'is_none_or'
        return it.call_closure(a[1], [a[0].f[0]])

    @M(r'Option::<.*>::filter::<.*>')
    def _(it, m, a):
        if a[0].var == 0: return a[0]
        ok = it.call_closure(a[1], [Ref(Cell(a[0].f[0]))])
        return a[0] if it.branch(ok) else mk_none()

    @M(r'Option::<.*>::or')
    def _(it, m, a): return a[0] if a[0].var == 1 else a[1]

    @M(r'Option::<.*>::or_else::<.*>')
    def _(it, m, a): return a[0] if a[0].var == 1 else it.call_closure(a[1], [])

    @M(r'Option::<.*>::and::<.*>')
    def _(it, m, a): return a[1] if a[0].var == 1 else mk_none()

    @M(r'Option::<.*>::zip::<.*>')
    def _(it, m, a):
        if a[0].var == 1 and a[1].var == 1: return mk_some(Agg('tuple', None, [a[0].f[0], a[1].f[0]]))
        return mk_none()

    @M(r'Option::<.*>::(replace|insert)')
    def _(it, m, a):
        old = a[0].get(); a[0].set(mk_some(a[1]))
        return old if m.group(1) == 'replace' else a[0].sub(0)

    @M(r'Option::<.*>::as_deref')
    def _(it, m, a):
        o = deref(a[0])
        if o.var == 0: return mk_none()
        v = o.f[0]
        if isinstance(v, StrObj): return mk_some(StrRef(v, 0, len(v.chars)))
        return mk_some(v)

    @M(r'Result::<.*>::unwrap_or_else::<.*>')
    def _(it, m, a): return a[0].f[0] if a[0].var == 0 else it.call_closure(a[1], [a[0].f[0]])

    @M(r'Result::<.*>::unwrap_or_default')
    def _(it, m, a):
        if a[0].var == 0: return a[0].f[0]
        raise Unsupported('Result::unwrap_or_default on Err')

    @M(r'Result::<.*>::map_or::<.*>')
    def _(it, m, a): return a[1] if a[0].var == 1 else it.call_closure(a[2], [a[0].f[0]])

    @M(r'Result::<.*>::(is_ok_and|is_err_and)::<.*>')
    def _(it, m, a):
        want = 0 if m.group(1) == 'is_ok_and' else 1
        if a[0].var != want: return False
        return it.call_closure(a[1], [a[0].f[0]])

    @M(r'Result::<.*>::or_else::<.*>')
    def _(it, m, a): return a[0] if a[0].var == 0 else it.call_closure(a[1], [a[0].f[0]])

    @M(r'Result::<.*>::err')
    def _(it, m, a): return mk_some(a[0].f[0]) if a[0].var == 1 else mk_none()

    @M(r'Result::<.*>::(unwrap_err|expect_err)')
    def _(it, m, a):
        if a[0].var != 1: raise Panic('unwrap_err on Ok', 'unwrap')
        return a[0].f[0]

    @M(r'Result::<.*>::as_ref')
    def _(it, m, a):
        o = a[0].get()
        return Agg('Result', o.var, [a[0].sub(0)])

    # ---- more integers -----------------------------------------------------------------------
    @M(r'core::num::<impl (\w+)>::saturating_add')
    def _(it, m, a):
        ty = m.group(1); w, sg = INT_TYPES[ty]
        r = it.overflow_op('Add', a[0], a[1], ty)
        if not it.branch(r.f[1]): return r.f[0]
        if not sg: return (1 << w) - 1
        neg = it.branch(it.binop('Lt', a[1], 0, ty))
        return -(1 << (w - 1)) if neg else (1 << (w - 1)) - 1

    @M(r'core::num::<impl (\w+)>::saturating_mul')
    def _(it, m, a):
        ty = m.group(1); w, sg = INT_TYPES[ty]
        r = it.overflow_op('Mul', a[0], a[1], ty)
        if not it.branch(r.f[1]): return r.f[0]
        if not sg: return (1 << w) - 1
        raise Unsupported('signed saturating_mul overflow')

    @M(r'core::num::<impl (\w+)>::checked_(div|rem)')
    def _(it, m, a):
        ty = m.group(1); w, sg = INT_TYPES[ty]
        if it.branch(it.binop('Eq', a[1], 0, ty)): return mk_none()
        if sg:
            mn = -(1 << (w - 1))
            if it.branch(it.binop('Eq', a[0], mn, ty)) and it.branch(it.binop('Eq', a[1], -1, ty)): return mk_none()
        return mk_some(it.binop('Div' if m.group(2) == 'div' else 'Rem', a[0], a[1], ty))

    @M(r'core::num::<impl (\w+)>::wrapping_(div|rem)')
    def _(it, m, a):
        ty = m.group(1); w, sg = INT_TYPES[ty]
        if it.branch(it.binop('Eq', a[1], 0, ty)): raise Panic('attempt to divide by zero' if m.group(2) == 'div' else 'attempt to calculate the remainder with a divisor of zero')
        if sg and it.branch(it.binop('Eq', a[1], -1, ty)):
            return it.binop('Sub', 0, a[0], ty) if m.group(2) == 'div' else 0
        return it.binop('Div' if m.group(2) == 'div' else 'Rem', a[0], a[1], ty)

    @M(r'core::num::<impl (\w+)>::checked_abs')
    def _(it, m, a):
        ty = m.group(1); w, sg = INT_TYPES[ty]
        if it.branch(it.binop('Eq', a[0], -(1 << (w - 1)), ty)): return mk_none()
        if it.branch(it.binop('Lt', a[0], 0, ty)): return mk_some(it.binop('Sub', 0, a[0], ty))
        return mk_some(a[0])

    @M(r'core::num::<impl (i\w+)>::(div_euclid|rem_euclid)')
    def _(it, m, a):
        # core: q = self / rhs; if self % rhs < 0 { if rhs > 0 { q - 1 } else { q + 1 } } else { q }   (panics as / does)
        ty = m.group(1); w, sg = INT_TYPES[ty]
        if it.branch(it.binop('Eq', a[1], 0, ty)): raise Panic('attempt to divide by zero')
        if it.branch(it.binop('Eq', a[0], -(1 << (w - 1)), ty)) and it.branch(it.binop('Eq', a[1], -1, ty)): raise Panic('attempt to divide with overflow', 'overflow')
        q = it.binop('Div', a[0], a[1], ty); r = it.binop('Rem', a[0], a[1], ty)
        neg = it.branch(it.binop('Lt', r, 0, ty))
        pos = it.branch(it.binop('Gt', a[1], 0, ty)) if neg else None
        if m.group(2) == 'div_euclid':
            if not neg: return q
            return it.binop('Sub', q, 1, ty) if pos else it.binop('Add', q, 1, ty)
        if not neg: return r
        return it.binop('Add', r, a[1], ty) if pos else it.binop('Sub', r, a[1], ty)

    @M(r'core::num::<impl (\w+)>::checked_neg')
    def _(it, m, a):
        ty = m.group(1); w, sg = INT_TYPES[ty]
        if sg:
            if it.branch(it.binop('Eq', a[0], -(1 << (w - 1)), ty)): return mk_none()
            return mk_some(it.binop('Sub', 0, a[0], ty))
        return mk_some(0) if it.branch(it.binop('Eq', a[0], 0, ty)) else mk_none()

    @M(r'core::num::<impl (\w+)>::wrapping_neg')
    def _(it, m, a): return it.binop('Sub', 0, a[0], m.group(1))

    @M(r'core::num::<impl (\w+)>::(abs|wrapping_abs)')
    def _(it, m, a):
        ty = m.group(1); w, sg = INT_TYPES[ty]; x = a[0]
        if not is_sym(x):
            if x == -(1 << (w - 1)):
                if m.group(2) == 'abs' and it.overflow_checks: raise Panic('attempt to negate with overflow', 'overflow')
                return x
            return abs(x)
        mn = -(1 << (w - 1))
        if m.group(2) == 'abs' and it.overflow_checks and it.branch(x == mn): raise Panic('attempt to negate with overflow', 'overflow')
        return z3.If(x < 0, -x, x)

    @M(r'core::num::<impl (\w+)>::abs_diff')
    def _(it, m, a):
        ty = m.group(1)
        if it.branch(it.binop('Lt', a[0], a[1], ty)): return it.binop('Sub', a[1], a[0], ty)
        return it.binop('Sub', a[0], a[1], ty)

    @M(r'core::num::<impl (\w+)>::(checked_pow|pow|wrapping_pow)')
    def _(it, m, a):
        ty = m.group(1); kind = m.group(2); e = a[1]
        if is_sym(e): e = it.concretize(e)
        if e > 4096: raise Unsupported('pow with exponent %d' % e)
        acc = 1
        for _ in range(e):
            if kind == 'wrapping_pow':
                acc = it.binop('Mul', acc, a[0], ty)
                continue
            r = it.overflow_op('Mul', acc, a[0], ty)
            if it.branch(r.f[1]):
                if kind == 'checked_pow': return mk_none()
                if it.overflow_checks: raise Panic('attempt to multiply with overflow', 'overflow')
            acc = r.f[0]
        return mk_some(acc) if kind == 'checked_pow' else acc

    @M(r'core::num::<impl (\w+)>::(is_positive|is_negative|signum)')
    def _(it, m, a):
        ty = m.group(1)
        if m.group(2) == 'is_positive': return it.binop('Gt', a[0], 0, ty)
        if m.group(2) == 'is_negative': return it.binop('Lt', a[0], 0, ty)
        if it.branch(it.binop('Gt', a[0], 0, ty)): return 1
        return 0 if it.branch(it.binop('Eq', a[0], 0, ty)) else -1

    @M(r'<(\w+) as Ord>::clamp|core::cmp::Ord::clamp')
    def _(it, m, a):
        ty = m.group(1) or 'i64'
        if it.branch(it.binop('Lt', a[0], a[1], ty)): return a[1]
        if it.branch(it.binop('Gt', a[0], a[2], ty)): return a[2]
        return a[0]

    # ---- more str ------------------------------------------------------------------------------
    @M(r'core::str::<impl str>::get(_mut)?::<(?:std::ops::)?(RangeTo|RangeFrom|Range|RangeFull|RangeInclusive)(?:<usize>)?>')
    def _(it, m, a):
        sr = as_str(it, a[0]); r = a[1]; k = m.group(2)
        if k == 'RangeTo': lo, hi = None, r.f[0]
        elif k == 'RangeFrom': lo, hi = r.f[0], None
        elif k == 'Range': lo, hi = r.f[0], r.f[1]
        elif k == 'RangeFull': return mk_some(sr)
        else:
            lo, hi = r.f[0], r.f[1]
            if is_sym(hi): hi = it.concretize(hi)
            if hi == (1 << 64) - 1: return mk_none()
            hi += 1
        try:
            return mk_some(str_index(it, sr, lo, hi))
        except Panic:
            return mk_none()

    @M(r'core::str::<impl str>::is_char_boundary')
    def _(it, m, a):
        sr = as_str(it, a[0]); i = a[1]
        if is_sym(i): i = it.concretize(i)
        o = 0; offs = {0}
        for _, w in sr.chars():
            o += w; offs.add(o)
        return i in offs

    @M(r'(?:std|alloc)::slice::<impl \[String\]>::join::<&str>|(?:std|alloc)::slice::<impl \[&str\]>::join::<&str>')
    def _(it, m, a):
        items = deref(a[0])
        if isinstance(items, SliceRef): items = items.lst()[items.lo:items.hi]
        sep = list(as_str(it, a[1]).chars())
        out = []
        for i, x in enumerate(items):
            if i: out += sep
            out += list(as_str(it, x).chars())
        return StrObj(out)

    @M(r'<&?Rc<RefCell<String>> as PartialEq>::(eq|ne)')
    def _(it, m, a):
        x, y = deref(a[0]), deref(a[1])
        while isinstance(x, Agg) and x.ty == 'RefCell': x = x.f[0]
        while isinstance(y, Agg) and y.ty == 'RefCell': y = y.f[0]
        e = chars_equal(it, list(as_str(it, x).chars()), list(as_str(it, y).chars()))
        return e if m.group(1) == 'eq' else not e

    @M(r'core::str::<impl str>::contains::<char>')
    def _(it, m, a):
        for c, _ in as_str(it, a[0]).chars():
            if it.branch(it.binop('Eq', c, a[1], 'char')): return True
        return False

    @M(r'core::str::<impl str>::contains::<&?\[char(?:; \d+)?\]>')
    def _(it, m, a):
        pat = deref(a[1])
        if isinstance(pat, SliceRef): pat = pat.lst()[pat.lo:pat.hi]
        if isinstance(pat, Agg): pat = pat.f
        pat = [deref(p) for p in pat]
        for c, _ in as_str(it, a[0]).chars():
            if not is_sym(c):
                if any((not is_sym(p)) and p == c for p in pat): return True
                continue
            if it.branch(z3.Or(*[c == p for p in pat])): return True
        return False

    @M(r'core::str::<impl str>::contains::<&str>|core::str::<impl str>::contains::<&String>')
    def _(it, m, a):
        hs, nd = as_str(it, a[0]).chars(), as_str(it, a[1]).chars()
        for i in range(len(hs) - len(nd) + 1):
            if chars_equal(it, hs[i:i + len(nd)], nd): return True
        return False

    @M(r'core::str::<impl str>::contains::<.*closure.*>|core::str::<impl str>::contains::<fn.*>')
    def _(it, m, a):
        for c, _ in as_str(it, a[0]).chars():
            if it.branch(it.call_closure(a[1], [c])): return True
        return False

    @M(r'core::str::<impl str>::(find|rfind)::<(.*)>')
    def _(it, m, a):
        sr = as_str(it, a[0]); cs = sr.chars()
        offs = [0]
        for _, w in cs: offs.append(offs[-1] + w)
        idxs = range(len(cs)) if m.group(1) == 'find' else range(len(cs) - 1, -1, -1)
        pat = m.group(2)
        if pat in ('&str', '&String'):
            nd = as_str(it, a[1]).chars()
            rng_ = range(len(cs) - len(nd) + 1) if m.group(1) == 'find' else range(len(cs) - len(nd), -1, -1)
            for i in rng_:
                if chars_equal(it, cs[i:i + len(nd)], nd): return mk_some(offs[i])
            return mk_none()
        for i in idxs:
            c = cs[i][0]
            hit = it.binop('Eq', c, a[1], 'char') if pat == 'char' else it.call_closure(a[1], [c])
            if it.branch(hit): return mk_some(offs[i])
        return mk_none()

    @M(r'core::str::<impl str>::ends_with::<char>')
    def _(it, m, a):
        cs = as_str(it, a[0]).chars()
        if not cs: return False
        return it.branch(it.binop('Eq', cs[-1][0], a[1], 'char'))

    @M(r'core::str::<impl str>::ends_with::<&str>')
    def _(it, m, a):
        sr, p = as_str(it, a[0]).chars(), as_str(it, a[1]).chars()
        if len(p) > len(sr): return False
        return chars_equal(it, sr[len(sr) - len(p):], p)

    @M(r'core::str::<impl str>::(strip_prefix|strip_suffix)::<(char|&str)>')
    def _(it, m, a):
        sr = as_str(it, a[0]); cs = sr.chars()
        p = [(a[1], 1)] if m.group(2) == 'char' else as_str(it, a[1]).chars()
        if len(p) > len(cs): return mk_none()
        if m.group(1) == 'strip_prefix':
            if chars_equal(it, cs[:len(p)], p): return mk_some(StrRef(sr.obj, sr.a + len(p), sr.b))
        else:
            if chars_equal(it, cs[len(cs) - len(p):], p): return mk_some(StrRef(sr.obj, sr.a, sr.b - len(p)))
        return mk_none()

    @M(r'core::str::<impl str>::split_at')
    def _(it, m, a):
        sr = as_str(it, a[0])
        return Agg('tuple', None, [str_index(it, sr, None, a[1]), str_index(it, sr, a[1], None)])

    @M(r'core::str::<impl str>::(trim|trim_start|trim_end)')
    def _(it, m, a):
        sr = as_str(it, a[0]); lo, hi = sr.a, sr.b
        if m.group(1) in ('trim', 'trim_start'):
            while lo < hi and it.branch(char_pred(it, 'is_whitespace', sr.obj.chars[lo][0])): lo += 1
        if m.group(1) in ('trim', 'trim_end'):
            while hi > lo and it.branch(char_pred(it, 'is_whitespace', sr.obj.chars[hi - 1][0])): hi -= 1
        return StrRef(sr.obj, lo, hi)

    @M(r'core::str::<impl str>::(as_bytes|bytes)')
    def _(it, m, a):
        sr = as_str(it, a[0]); out = []
        for c, w in sr.chars():
            if w != 1: raise Unsupported('as_bytes of non-ASCII text')
            out.append(it.cast_char_u8(c) if hasattr(it, 'cast_char_u8') else (z3.Extract(7, 0, c) if is_sym(c) else c))
        sl = SliceRef(Ref(Cell(out)), 0, len(out))
        return sl if m.group(1) == 'as_bytes' else SliceIter(sl)

    @M(r'core::str::<impl str>::eq_ignore_ascii_case')
    def _(it, m, a):
        x, y = as_str(it, a[0]).chars(), as_str(it, a[1]).chars()
        if len(x) != len(y): return False
        for (p, _), (q, _) in zip(x, y):
            if not it.branch(it.binop('Eq', ascii_lower(it, p), ascii_lower(it, q), 'char')): return False
        return True

    @M(r'(?:std|core)::char::methods::<impl char>::(to_ascii_lowercase|to_ascii_uppercase)')
    def _(it, m, a):
        return ascii_lower(it, deref(a[0])) if m.group(1) == 'to_ascii_lowercase' else ascii_upper(it, deref(a[0]))

    @M(r'(?:std|core)::char::methods::<impl char>::eq_ignore_ascii_case')
    def _(it, m, a):
        return it.binop('Eq', ascii_lower(it, deref(a[0])), ascii_lower(it, deref(a[1])), 'char')

    @M(r'<Chars as Iterator>::rev|<CharIndices as Iterator>::rev')
    def _(it, m, a):
        c = deref(a[0])
        if isinstance(c, Chars):
            lst = [ch for ch, _ in c.sr.obj.chars[c.sr.a + c.i:c.sr.b]][::-1]
            return VecIntoIter(lst)
        o = c.off; items = []
        for ch, w in c.sr.obj.chars[c.sr.a + c.i:c.sr.b]:
            items.append(Agg('tuple', None, [o, ch])); o += w
        return VecIntoIter(items[::-1])


    # ---- operator traits on (references to) primitive integers ---------------------------------------
    @M(r'<&?(u8|u16|u32|u64|usize|i8|i16|i32|i64|isize) as (Add|Sub|Mul|Div|Rem|Shl|Shr|BitAnd|BitOr|BitXor)(?:<&?([iu](?:8|16|32|64|128|size))>)?>::(?:add|sub|mul|div|rem|shl|shr|bitand|bitor|bitxor)')
    def _(it, m, a):
        ty, op = m.group(1), m.group(2)
        x, y = deref(a[0]), deref(a[1])
        w, sg = INT_TYPES[ty]
        if op in ('Add', 'Sub', 'Mul'):
            r = it.overflow_op(op, x, y, ty)
            if it.overflow_checks and it.branch(r.f[1]): raise Panic('attempt to %s with overflow' % op.lower(), 'overflow')
            return r.f[0]
        if op in ('Div', 'Rem'):
            if it.branch(it.binop('Eq', y, 0, ty)): raise Panic('attempt to divide by zero', 'div-zero')
            if sg and it.branch(it.binop('Eq', x, -(1 << (w - 1)), ty)) and it.branch(it.binop('Eq', y, -1, ty)):
                raise Panic('attempt to divide with overflow', 'overflow')
            return it.binop(op, x, y, ty)
        if op in ('Shl', 'Shr'):
            rty = m.group(3) or ty
            big = it.binop('Ge', y, w, rty)
            if it.branch(big):
                if it.overflow_checks: raise Panic('attempt to shift with overflow', 'overflow')
                y = it.binop('BitAnd', y, w - 1, rty)
            if is_sym(y): y = it.resize(y, w) if y.size() != w else y
            return it.binop(op, x, y, ty)
        return it.binop(op, x, y, ty)

    @M(r'<&?(u8|u16|u32|u64|usize|i8|i16|i32|i64|isize|bool) as Not>::not')
    def _(it, m, a):
        v = deref(a[0])
        if isinstance(v, bool): return not v
        if is_sym(v): return z3.Not(v) if z3.is_bool(v) else ~v
        w, sg = INT_TYPES[m.group(1)]
        return wrap_int(~v, w, sg)

    @M(r'<(u8|u16|u32|u64|usize|i8|i16|i32|i64|isize) as (AddAssign|SubAssign|MulAssign|BitAndAssign|BitOrAssign|BitXorAssign|ShlAssign|ShrAssign)(?:<&?(\w+)>)?>::\w+')
    def _(it, m, a):
        ty, op = m.group(1), m.group(2)[:-6]
        x, y = a[0].get(), deref(a[1])
        if op in ('Add', 'Sub', 'Mul'):
            r = it.overflow_op(op, x, y, ty)
            if it.overflow_checks and it.branch(r.f[1]): raise Panic('attempt to %s with overflow' % op.lower(), 'overflow')
            a[0].set(r.f[0])
        else:
            a[0].set(it.binop(op, x, y, ty))
        return UNIT


    @M(r'<(?!Rc<)(?!Vec<)(?!RefCell<)(.+) as Clone>::clone')
    def _(it, m, a):
        name = it.prog.resolve_crate(m.group(0))
        if name: return it.call(name, a)
        return clone_val(it, deref(a[0]) if not isinstance(deref1(a[0]), Ref) or not isinstance(deref1(a[0]).get(), Ref) else deref1(a[0]))

    @M(r'(?:std::cmp::|core::cmp::)?Ordering::reverse')
    def _(it, m, a): return mk_ordering(-deref(a[0]).var)

    @M(r'(?:std::cmp::|core::cmp::)?Ordering::(is_lt|is_le|is_gt|is_ge|is_eq|is_ne)')
    def _(it, m, a):
        o = deref(a[0]).var
        return {'is_lt': o < 0, 'is_le': o <= 0, 'is_gt': o > 0, 'is_ge': o >= 0, 'is_eq': o == 0, 'is_ne': o != 0}[m.group(1)]

    @M(r'<Ordering as PartialEq>::(eq|ne)')
    def _(it, m, a):
        r = deref(a[0]).var == deref(a[1]).var
        return r if m.group(1) == 'eq' else not r

    @M(r'<(f64|f32) as PartialOrd>::partial_cmp')
    def _(it, m, a):
        x, y = deref(a[0]), deref(a[1])
        if it.branch(it.float_binop('Lt', x, y)): return mk_some(mk_ordering(-1))
        if it.branch(it.float_binop('Eq', x, y)): return mk_some(mk_ordering(0))
        if it.branch(it.float_binop('Gt', x, y)): return mk_some(mk_ordering(1))
        return mk_none()

    # ---- generic comparison fallbacks ---------------------------------------------------------------
    @M(r'<(Option|Result)<.*> as PartialEq>::(eq|ne)')
    def _(it, m, a):
        r = values_equal(it, deref(a[0]), deref(a[1]))
        if m.group(2) == 'eq': return r
        return (not r) if isinstance(r, bool) else z3.Not(r)

    @M(r'<&?(?:str|String) as PartialOrd(?:<&?(?:str|String)>)?>::(lt|le|gt|ge)|<&&str as PartialOrd>::(lt|le|gt|ge)')
    def _(it, m, a):
        op = m.group(1) or m.group(2)
        x, y = as_str(it, a[0]).chars(), as_str(it, a[1]).chars()
        # lexicographic by code point (= byte order of UTF-8): decided by forking on the first difference
        for (p, _), (q, _) in zip(x, y):
            if it.branch(it.binop('Eq', p, q, 'char')): continue
            lt = it.branch(it.binop('Lt', p, q, 'char'))
            return {'lt': lt, 'le': lt, 'gt': not lt, 'ge': not lt}[op]
        if len(x) == len(y): return op in ('le', 'ge')
        lt = len(x) < len(y)
        return {'lt': lt, 'le': lt, 'gt': not lt, 'ge': not lt}[op]

    @M(r'<&?(?:str|String) as (?:Partial)?Ord>::(?:partial_)?cmp')
    def _(it, m, a):
        x, y = as_str(it, a[0]).chars(), as_str(it, a[1]).chars()
        r = None
        for (p, _), (q, _) in zip(x, y):
            if it.branch(it.binop('Eq', p, q, 'char')): continue
            r = mk_ordering(-1 if it.branch(it.binop('Lt', p, q, 'char')) else 1); break
        if r is None: r = mk_ordering(-1 if len(x) < len(y) else (0 if len(x) == len(y) else 1))
        return mk_some(r) if 'partial_cmp' in m.group(0) else r

    @M(r'<&+(u8|u16|u32|u64|usize|i8|i16|i32|i64|isize|char) as PartialOrd>::(lt|le|gt|ge)')
    def _(it, m, a): return it.binop(m.group(2).capitalize(), deref(a[0]), deref(a[1]), m.group(1))

    @M(r'<&+(u8|u16|u32|u64|usize|i8|i16|i32|i64|isize|char|bool) as PartialEq>::(eq|ne)')
    def _(it, m, a):
        r = it.binop('Eq', deref(a[0]), deref(a[1]), m.group(1))
        if m.group(2) == 'eq': return r
        return (not r) if isinstance(r, bool) else z3.Not(r)

    @M(r'<(.+) as PartialOrd(<.*>)?>::(lt|le|gt|ge)')
    def _(it, m, a):
        """provided methods of PartialOrd for crate types: through the crate's partial_cmp"""
        it.prog.last_autoderef = 0
        name = it.prog.resolve_crate('<%s as PartialOrd%s>::partial_cmp' % (m.group(1), m.group(2) or ''))
        if not name: raise Unsupported('call ' + m.group(0))
        a = autoderef(a, it.prog.last_autoderef)
        r = it.call(name, a)
        if r.var == 0: return False
        o = r.f[0].var
        return {'lt': o == -1, 'le': o in (-1, 0), 'gt': o == 1, 'ge': o in (0, 1)}[m.group(3)]

    @M(r'<(.+) as PartialEq(<.*>)?>::ne')
    def _(it, m, a):
        it.prog.last_autoderef = 0
        name = it.prog.resolve_crate('<%s as PartialEq%s>::eq' % (m.group(1), m.group(2) or ''))
        if not name: raise Unsupported('call ' + m.group(0))
        a = autoderef(a, it.prog.last_autoderef)
        r = it.call(name, a)
        return (not r) if isinstance(r, bool) else z3.Not(r)

    # ---- more String --------------------------------------------------------------------------------
    @M(r'String::insert_str')
    def _(it, m, a):
        so = deref(a[0]); idx = a[1]
        if is_sym(idx): idx = it.concretize(idx)
        offs = [0]
        for _, w in so.chars: offs.append(offs[-1] + w)
        if idx not in offs: raise Panic('insert_str: not a char boundary', 'str-boundary')
        k = offs.index(idx)
        so.chars[k:k] = list(as_str(it, a[2]).chars())
        return UNIT

    @M(r'String::insert')
    def _(it, m, a):
        so = deref(a[0]); idx = a[1]
        if is_sym(idx): idx = it.concretize(idx)
        offs = [0]
        for _, w in so.chars: offs.append(offs[-1] + w)
        if idx not in offs: raise Panic('insert: not a char boundary', 'str-boundary')
        so.chars.insert(offs.index(idx), (a[2], len_utf8(it, a[2])))
        return UNIT

    @M(r'String::replace_range::<(?:std::ops::)?(Range|RangeFrom|RangeTo|RangeFull|RangeInclusive)(?:<usize>)?>')
    def _(it, m, a):
        so = deref(a[0]); r = a[1]; k = m.group(1)
        offs = [0]
        for _, w in so.chars: offs.append(offs[-1] + w)
        total = offs[-1]
        if k == 'Range': lo, hi = r.f[0], r.f[1]
        elif k == 'RangeFrom': lo, hi = r.f[0], total
        elif k == 'RangeTo': lo, hi = 0, r.f[0]
        elif k == 'RangeFull': lo, hi = 0, total
        else:
            lo, hi = r.f[0], r.f[1]
            if is_sym(hi): hi = it.concretize(hi)
            hi += 1
        if is_sym(lo): lo = it.concretize(lo)
        if is_sym(hi): hi = it.concretize(hi)
        # std: asserts char boundaries of both ends, then slices (start <= end <= len)
        if lo not in offs: raise Panic('replace_range: start is not a char boundary', 'str-boundary')
        if hi not in offs: raise Panic('replace_range: end is not a char boundary', 'str-boundary')
        if lo > hi: raise Panic('slice index starts at %d but ends at %d' % (lo, hi), 'str-slice')
        so.chars[offs.index(lo):offs.index(hi)] = list(as_str(it, a[2]).chars())
        return UNIT

    @M(r'String::truncate')
    def _(it, m, a):
        so = deref(a[0]); n = a[1]
        if is_sym(n): n = it.concretize(n)
        offs = [0]
        for _, w in so.chars: offs.append(offs[-1] + w)
        if n >= offs[-1]: return UNIT
        if n not in offs: raise Panic('truncate: not a char boundary', 'str-boundary')
        del so.chars[offs.index(n):]
        return UNIT

    @M(r'String::pop')
    def _(it, m, a):
        so = deref(a[0])
        if not so.chars: return mk_none()
        return mk_some(so.chars.pop()[0])

    @M(r'String::clear')
    def _(it, m, a): del deref(a[0]).chars[:]; return UNIT

    @M(r'(?:std::iter::|core::iter::)?repeat_n::<.*>')
    def _(it, m, a):
        n = a[1]
        if is_sym(n): n = it.concretize(n)
        if n >= (1 << 62): raise Panic('capacity overflow (collecting %d repeated items)' % n, 'capacity-overflow')
        if n > (1 << 20): raise Unsupported('repeat_n(_, %d)' % n)
        return VecIntoIter([clone_val(it, a[0]) for _ in range(n)])

    @M(r'(?:std::iter::|core::iter::)?repeat::<.*>')
    def _(it, m, a): raise Unsupported('unbounded iter::repeat')

    @M(r'(?:core|std|alloc)::str::<impl str>::(to_lowercase|to_uppercase)')
    def _(it, m, a):
        out = []
        for c, w in as_str(it, a[0]).chars():
            if is_sym(c):
                if it.char_info.get(c.get_id()) != 1: raise Unsupported('case mapping of a symbolic non-ASCII character')
                out.append(((ascii_lower if m.group(1) == 'to_lowercase' else ascii_upper)(it, c), 1))
            elif c < 128:
                out.append(((ascii_lower if m.group(1) == 'to_lowercase' else ascii_upper)(it, c), 1))
            else:
                tbl = getattr(it.prog, 'chartable', None) or {}
                if c not in tbl: raise Unsupported('case mapping of U+%04X without table entry' % c)
                for x in tbl[c]['tolower' if m.group(1) == 'to_lowercase' else 'toupper']: out.append((x, utf8_width(x)))
        return StrObj(out)

    @M(r'(?:std::ops::|core::ops::)?RangeInclusive::<(usize|u64|u32|u16|u8|i64|i32)>::contains::<.*>')
    def _(it, m, a):
        r = deref(a[0]); x = deref(a[1]); ty = m.group(1)
        if not it.branch(it.binop('Le', r.f[0], x, ty)): return False
        return it.branch(it.binop('Le', x, r.f[1], ty))

    @M(r'(?:std::ops::|core::ops::)?RangeInclusive::<.*>::new')
    def _(it, m, a): return Agg('RangeInclusive', None, [a[0], a[1], False])

    @M(r'(?:std::ops::|core::ops::)?RangeInclusive::<.*>::(start|end)')
    def _(it, m, a): return deref1(a[0]).sub(0 if m.group(1) == 'start' else 1) if isinstance(a[0], Ref) else a[0].f[0 if m.group(1) == 'start' else 1]

    @M(r'<&mut .* as DerefMut>::deref_mut|<&mut .* as Deref>::deref|<&.* as Deref>::deref')
    def _(it, m, a):
        # &mut &mut T -> &mut T
        v = a[0]
        if isinstance(v, Ref):
            x = v.get()
            if isinstance(x, (Ref, SliceRef, StrRef)): return x
        return v

    # ---- logging: empty bodies (log level is statically disabled) -------------------------------
    @M(r'<Level as PartialOrd<LevelFilter>>::le|<log::Level as PartialOrd<log::LevelFilter>>::le')
    def _(it, m, a): return False

    @M(r'log::max_level')
    def _(it, m, a): return Agg('LevelFilter', 0, [])

    @M(r'<LevelFilter as PartialOrd>::le|<Level as PartialOrd<LevelFilter>>::le')
    def _(it, m, a): return False


def autoderef(args, n):
    out = []
    for x in args:
        for _ in range(n):
            if isinstance(x, Ref) and isinstance(x.get(), Ref): x = x.get()
        out.append(x)
    return out


def ascii_lower(it, c):
    if not is_sym(c): return c + 32 if 65 <= c <= 90 else c
    return z3.If(z3.And(z3.UGE(c, 65), z3.ULE(c, 90)), c + 32, c)


def ascii_upper(it, c):
    if not is_sym(c): return c - 32 if 97 <= c <= 122 else c
    return z3.If(z3.And(z3.UGE(c, 97), z3.ULE(c, 122)), c - 32, c)


def mirsplit_last(s):
    """last top-level comma-separated component of a generic arg list"""
    from .mirparse import split_top
    return split_top(s)[-1]


def deref1(v):
    """one level: &Rc<T> -> Rc<T> (both Refs)"""
    if isinstance(v, Ref):
        x = v.get()
        if isinstance(x, Ref): return x
    return v


def clone_val(it, v):
    """Clone::clone of a run-time value by type tag (derived Clone semantics; Rc shares)"""
    if isinstance(v, Agg):
        if v.ty == 'RefCell':
            return Agg('RefCell', None, [clone_val(it, v.f[0]), 0])
        return Agg(v.ty, v.var, [clone_val(it, x) for x in v.f])
    if isinstance(v, list): return [clone_val(it, x) for x in v]
    if isinstance(v, StrObj): return StrObj(list(v.chars))
    return v       # scalars, Ref (= &T or Rc<T>: shared), StrRef


def values_equal(it, x, y):
    """structural PartialEq of run-time values -> python bool or z3 Bool (no fork)"""
    while isinstance(x, Ref) and isinstance(y, Ref):
        if x.same(y): return True
        x, y = x.get(), y.get()
    if isinstance(x, Agg) and isinstance(y, Agg):
        if x.ty != y.ty or x.var != y.var or len(x.f) != len(y.f): return False
        if x.ty == 'RefCell': return values_equal(it, x.f[0], y.f[0])
        acc = True
        for p, q in zip(x.f, y.f):
            r = values_equal(it, p, q)
            if r is False: return False
            if r is not True: acc = r if acc is True else z3.And(acc, r)
        return acc
    if isinstance(x, list) and isinstance(y, list):
        if len(x) != len(y): return False
        acc = True
        for p, q in zip(x, y):
            r = values_equal(it, p, q)
            if r is False: return False
            if r is not True: acc = r if acc is True else z3.And(acc, r)
        return acc
    if isinstance(x, (StrObj, StrRef)) and isinstance(y, (StrObj, StrRef)):
        a, b = as_str(it, x).chars(), as_str(it, y).chars()
        if len(a) != len(b): return False
        acc = True
        for (p, _), (q, _) in zip(a, b):
            r = it.binop('Eq', p, q, 'char')
            if r is False: return False
            if r is not True: acc = r if acc is True else z3.And(acc, r)
        return acc
    if isinstance(x, float) or isinstance(y, float) or (is_sym(x) and z3.is_fp(x)) or (is_sym(y) and z3.is_fp(y)):
        return it.float_binop('Eq', x, y)
    if isinstance(x, (int, bool)) or is_sym(x):
        if isinstance(y, (int, bool)) or is_sym(y):
            if is_sym(x) and z3.is_bool(x) or is_sym(y) and z3.is_bool(y) or isinstance(x, bool):
                return it.bool_binop('Eq', x, y)
            if is_sym(x) and is_sym(y) and x.sort() != y.sort(): return False
            return it.binop('Eq', x, y, 'u64')
    if type(x) is not type(y): return False
    if x is y: return True
    raise Unsupported('values_equal %r %r' % (x, y))
