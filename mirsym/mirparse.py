"""Parser for rustc's `-Zunpretty=mir` text.

The dump is regenerated from /repo's working tree on every run (see vlib/build.py); this module
turns it into Func objects whose statements are small tuples the interpreter dispatches on.
Functions are parsed lazily (header eagerly, body on first call).

Grammar handled (everything that occurs in marwood's dump; anything else raises ParseError and
surfaces as `Unsupported` at run time, never as a silent skip):

  place    := _N | (*place) | (place as Variant) | (place.N: type) | place[_N] | place[N of M]
              | place[-N of M] | place[N..] | place[N..M] | place[N:-M]
  operand  := copy place | move place | const C        (optionally prefixed by `no_retag`)
  rvalue   := operand | &[mut|raw const|raw mut] place | BinOp(op, op) | UnOp(op) | operand as T (Kind)
              | discriminant(place) | (ops..) | [ops..] | [op; N] | Path::Variant(ops) | Path { f: op, .. }
              | {closure@..} { .. } | Len(place) | PtrMetadata(op) | ...
"""
import re

class ParseError(Exception):
    pass

BINOPS = {'Eq', 'Ne', 'Lt', 'Le', 'Gt', 'Ge', 'Add', 'Sub', 'Mul', 'Div', 'Rem', 'Shl', 'Shr', 'BitXor', 'BitAnd',
          'BitOr', 'AddWithOverflow', 'SubWithOverflow', 'MulWithOverflow', 'AddUnchecked', 'SubUnchecked',
          'MulUnchecked', 'ShlUnchecked', 'ShrUnchecked', 'Cmp', 'Offset'}
UNOPS = {'Not', 'Neg', 'PtrMetadata'}


def split_top(s, sep=','):
    """split on sep at nesting depth 0 of ()[]{}<>, respecting string / char / byte-string literals."""
    out, depth, start, i, n = [], 0, 0, 0, len(s)
    while i < n:
        c = s[i]
        if c == '"':
            i += 1
            while i < n and s[i] != '"':
                i += 2 if s[i] == '\\' else 1
        elif c == "'":
            m = _CHARLIT.match(s, i)
            if m:
                i = m.end() - 1
        elif c in '([{':
            depth += 1
        elif c == '<':
            if not (i + 1 < n and s[i + 1] in '= ') or _GENERIC_LT.match(s, i):
                depth += 1
        elif c in ')]}':
            depth -= 1
        elif c == '>':
            if i > 0 and s[i - 1] in '-=':
                pass
            elif depth > 0:
                depth -= 1
        elif c == sep and depth == 0:
            out.append(s[start:i].strip())
            start = i + 1
        i += 1
    last = s[start:].strip()
    if last:
        out.append(last)
    return out

_CHARLIT = re.compile(r"'(\\u\{[0-9a-fA-F]+\}|\\.|[^'\\])'")
_GENERIC_LT = re.compile(r'<[A-Za-z&\[(\'*_]')


def skip_type(s, i):
    """s[i:] starts with a type; return index just past it (stops at a top-level ')' ',' or end)."""
    depth, n = 0, len(s)
    while i < n:
        c = s[i]
        if c in '([{<':
            depth += 1
        elif c in ')]}':
            if depth == 0:
                return i
            depth -= 1
        elif c == '>':
            if s[i - 1] in '-=':
                pass
            else:
                depth -= 1
        elif c == ',' and depth == 0:
            return i
        i += 1
    return i


class Place:
    __slots__ = ('local', 'proj', 'ty')
    def __init__(s, local, proj, ty):
        s.local, s.proj, s.ty = local, proj, ty
    def __repr__(s):
        return 'Place(%s%s)' % (s.local, ''.join(map(repr, s.proj)))


def parse_place(s, i=0):
    """returns (Place, end_index). proj elements:
       ('deref',) ('field', n, ty) ('downcast', name) ('index', local) ('cindex', n, from_end) ('subslice', a, b, from_end)"""
    n = len(s)
    proj = []
    ty = None
    if s[i] == '(':
        if s[i + 1] == '*':
            base, j = parse_place(s, i + 2)
            if s[j] != ')':
                raise ParseError('place deref: ' + s)
            local, proj = base.local, list(base.proj) + [('deref',)]
            i = j + 1
        else:
            base, j = parse_place(s, i + 1)
            local, proj = base.local, list(base.proj)
            if s.startswith(' as ', j):
                k = s.index(')', j)
                proj.append(('downcast', s[j + 4:k]))
                i = k + 1
            elif s[j] == '.':
                m = _FIELD.match(s, j)
                if not m:
                    raise ParseError('place field: ' + s)
                k = skip_type(s, m.end())
                ty = s[m.end():k]
                proj.append(('field', int(m.group(1)), ty))
                if s[k] != ')':
                    raise ParseError('place field end: ' + s)
                i = k + 1
            else:
                raise ParseError('place paren: ' + s)
    else:
        m = _LOCAL.match(s, i)
        if not m:
            raise ParseError('place local: ' + s[i:])
        local = m.group(0)
        i = m.end()
    while i < n and s[i] == '[':
        k = s.index(']', i)
        inner = s[i + 1:k]
        m = re.fullmatch(r'_\d+', inner)
        if m:
            proj.append(('index', inner))
        else:
            m = re.fullmatch(r'(-?)(\d+) of (\d+)', inner)
            if m:
                proj.append(('cindex', int(m.group(2)), bool(m.group(1))))
            else:
                m = re.fullmatch(r'(\d+)\.\.', inner)
                m2 = re.fullmatch(r'(\d+)\.\.(\d+)', inner)
                m3 = re.fullmatch(r'(\d+):-(\d+)', inner)
                if m2:
                    proj.append(('subslice', int(m2.group(1)), int(m2.group(2)), False))
                elif m:
                    proj.append(('subslice', int(m.group(1)), 0, True))
                elif m3:
                    proj.append(('subslice', int(m3.group(1)), int(m3.group(2)), True))
                else:
                    raise ParseError('place index: ' + s)
        ty = None
        i = k + 1
    return Place(local, tuple(proj), ty), i

_FIELD = re.compile(r'\.(\d+): ')
_LOCAL = re.compile(r'_\d+')

_INT_CONST = re.compile(r'(-?\d+)_([iu](?:8|16|32|64|128|size))$')
_FLOAT_CONST = re.compile(r'(-?(?:\d[\d.]*(?:[eE][-+]?\d+)?|inf|NaN))f(32|64)$')


def unescape_rust(body, as_bytes=False):
    out = []
    i, n = 0, len(body)
    while i < n:
        c = body[i]
        if c == '\\':
            d = body[i + 1]
            if d == 'x':
                out.append(int(body[i + 2:i + 4], 16)); i += 4
            elif d == 'u':
                k = body.index('}', i)
                out.append(int(body[i + 3:k], 16)); i = k + 1
            else:
                out.append({'n': 10, 't': 9, 'r': 13, '0': 0, '\\': 92, "'": 39, '"': 34}[d]); i += 2
        else:
            if as_bytes:
                out.extend(c.encode('utf-8'))
            else:
                out.append(ord(c))
            i += 1
    return out


def parse_const(c):
    """-> ('int', value, ty) | ('bool', v) | ('char', cp) | ('str', [codepoints]) | ('bytes', [..]) | ('float', v)
          | ('unit',) | ('zst', ty) | ('named', text)"""
    c = c.strip()
    m = _INT_CONST.match(c)
    if m:
        return ('int', int(m.group(1)), m.group(2))
    if c == 'true': return ('bool', True)
    if c == 'false': return ('bool', False)
    if c == '()': return ('unit',)
    m = _FLOAT_CONST.match(c)
    if m:
        return ('float', float(m.group(1).replace('NaN', 'nan')))
    if c.startswith("'") and c.endswith("'") and len(c) >= 3:
        cps = unescape_rust(c[1:-1])
        if len(cps) == 1:
            return ('char', cps[0])
    if c.startswith('"') and c.endswith('"'):
        return ('str', unescape_rust(c[1:-1]))
    if c.startswith('b"') and c.endswith('"'):
        return ('bytes', unescape_rust(c[2:-1], as_bytes=True))
    if c.startswith('ZeroSized: '):
        return ('zst', c[len('ZeroSized: '):])
    m = re.fullmatch(r'(.*) as (.*) \((\w+)(?:\(.*\))?\)', c)
    if m:
        return ('cast', parse_const(m.group(1)), m.group(2), m.group(3))
    return ('named', c)


def parse_operand(o):
    o = o.strip()
    if o.startswith('no_retag '):
        o = o[9:]
    if o.startswith('copy '):
        p, j = parse_place(o, 5)
        if j != len(o): raise ParseError('operand tail: ' + o)
        return ('copy', p)
    if o.startswith('move '):
        p, j = parse_place(o, 5)
        if j != len(o): raise ParseError('operand tail: ' + o)
        return ('move', p)
    if o.startswith('const '):
        return ('const', parse_const(o[6:]))
    if re.fullmatch(r"[\w:<>{}#@/.' ,&\[\]()-]+", o) and not o.startswith('('):
        return ('const', ('named', o))      # function item passed by value
    raise ParseError('operand: ' + o)

_CAST = re.compile(r'^((?:no_retag )?(?:copy|move|const) .*) as (.+) \((\w+)(?:\((.*)\))?\)$')
_FNPTR = re.compile(r'^([^ ]+) as .* \(PointerCoercion\((?:ReifyFnPointer|ClosureFnPointer).*\)\)$')
_CALLRE = re.compile(r'^(.*?) = (.*\)) -> \[return: (bb\d+), unwind[^\]]*\];$')
_CALLRE_NORET = re.compile(r'^(.*?) = (.*\)) -> unwind[^;]*;$')
_ASSERT = re.compile(r'^assert\((!?)(.*?), "((?:[^"\\]|\\.)*)"(?:, (.*))?\) -> \[success: (bb\d+), unwind[^\]]*\];$')
_DROP = re.compile(r'^drop\((.*)\) -> \[return: (bb\d+), unwind[^\]]*\];$')
_SWITCH = re.compile(r'^switchInt\((.*)\) -> \[(.*)\];$')
_GOTO = re.compile(r'^goto -> (bb\d+);$')


def parse_rvalue(rv):
    rv = rv.strip()
    m = _FNPTR.match(rv)
    if m:
        return ('fnptr', m.group(1))
    m = _CAST.match(rv)
    if m:
        return ('cast', m.group(3), parse_operand(m.group(1)), m.group(2), m.group(4))
    if rv.startswith(('copy ', 'move ', 'const ', 'no_retag ')):
        return ('use', parse_operand(rv))
    if rv.startswith('&'):
        m = re.match(r'&(raw const |raw mut |mut |fake shallow |fake )?', rv)
        p, j = parse_place(rv, m.end())
        if j != len(rv): raise ParseError('ref tail: ' + rv)
        return ('ref', (m.group(1) or '').strip(), p)
    m = re.match(r'^(\w+)\((.*)\)$', rv)
    if m:
        name = m.group(1)
        if name in BINOPS:
            a, b = split_top(m.group(2))
            return ('binop', name, parse_operand(a), parse_operand(b))
        if name in UNOPS:
            return ('unop', name, parse_operand(m.group(2)))
        if name == 'discriminant':
            p, j = parse_place(m.group(2))
            return ('discr', p)
        if name == 'Len':
            p, j = parse_place(m.group(2))
            return ('len', p)
        if name in ('ShallowInitBox',):
            return ('shallowbox', parse_operand(split_top(m.group(2))[0]))
    if rv.startswith('(') and rv.endswith(')'):
        inner = rv[1:-1].strip()
        ops = split_top(inner) if inner else []
        return ('tuple', [parse_operand(o) for o in ops])
    if rv.startswith('[') and rv.endswith(']'):
        inner = rv[1:-1]
        parts = split_top(inner, ';')
        if len(parts) == 2:
            return ('repeat', parse_operand(parts[0]), parts[1].strip())
        return ('array', [parse_operand(o) for o in split_top(inner)])
    m = re.match(r'^(\{(?:closure|coroutine)@[^}]*\})(?: \{ (.*) \})?$', rv)
    if m:
        fields = []
        if m.group(2):
            for o in split_top(m.group(2)):
                fields.append(parse_operand(o.split(': ', 1)[1]))
        return ('closure', m.group(1), fields)
    # Path { a: op, b: op }   (struct or struct-like variant)
    if rv.endswith('}') and ' { ' in rv:
        k = rv.index(' { ')
        path = rv[:k]
        fields = []
        body = rv[k + 3:-1].strip()
        names = []
        for o in split_top(body):
            nm, _, val = o.partition(': ')
            names.append(nm); fields.append(parse_operand(val))
        return ('adt', path, fields, names)
    # Path::Variant(ops) / Path(ops) tuple struct / unit
    if rv.endswith(')'):
        k = last_group_open(rv)
        path = rv[:k]
        inner = rv[k + 1:-1]
        return ('adt', path, [parse_operand(o) for o in split_top(inner)], None)
    if re.fullmatch(r"[\w:<>', &\[\]()*;-]+", rv):
        return ('adt', rv, [], None)
    raise ParseError('rvalue: ' + rv)


def parse_stmt(ln):
    if ln == 'return;': return ('return',)
    m = _GOTO.match(ln)
    if m: return ('goto', m.group(1))
    if ln == 'unreachable;': return ('unreachable',)
    if ln.startswith('resume'): return ('resume',)
    m = _SWITCH.match(ln)
    if m:
        targets = []
        other = None
        for t in m.group(2).split(', '):
            v, bb = t.split(': ')
            if v == 'otherwise': other = bb
            else: targets.append((int(v), bb))
        return ('switch', parse_operand(m.group(1)), targets, other)
    m = _ASSERT.match(ln)
    if m:
        return ('assert', bool(m.group(1)), parse_operand(m.group(2)), m.group(3), m.group(5))
    m = _DROP.match(ln)
    if m:
        p, _ = parse_place(m.group(1))
        return ('drop', p, m.group(2))
    if ln.startswith(('StorageLive', 'StorageDead', 'nop', 'FakeRead', 'PlaceMention', 'Retag', 'AscribeUserType',
                      'Coverage', 'ConstEvalCounter', 'BackwardIncompatibleDropHint')):
        return ('nop',)
    m = _CALLRE.match(ln)
    if m:
        return _mk_call(m.group(1), m.group(2), m.group(3))
    m = _CALLRE_NORET.match(ln)
    if m:
        return _mk_call(m.group(1), m.group(2), None)
    m = re.match(r'^(.*?) = (.*);$', ln)
    if m:
        # find the first top-level ' = '
        dest, _ = parse_place(m.group(1))
        return ('assign', dest, parse_rvalue(m.group(2)))
    m = re.match(r'^discriminant\((.*)\) = (\d+);$', ln)
    if m:
        p, _ = parse_place(m.group(1))
        return ('setdiscr', p, int(m.group(2)))
    raise ParseError('stmt: ' + ln)


def last_group_open(expr):
    """index of the '(' that matches the final ')' of expr (literal-aware)."""
    i, n, depth, last = 0, len(expr), 0, -1
    while i < n:
        c = expr[i]
        if c == '"':
            i += 1
            while i < n and expr[i] != '"':
                i += 2 if expr[i] == '\\' else 1
        elif c == "'":
            m = _CHARLIT.match(expr, i)
            if m:
                i = m.end() - 1
        elif c == '(':
            if depth == 0: last = i
            depth += 1
        elif c == ')':
            depth -= 1
        i += 1
    return last


def _mk_call(dest, expr, bb):
    k = last_group_open(expr)
    callee, args = expr[:k].strip(), expr[k + 1:-1]
    destp, _ = parse_place(dest)
    ops = [parse_operand(a) for a in split_top(args)] if args.strip() else []
    if callee.startswith(('move ', 'copy ')):
        return ('callptr', destp, parse_operand(callee), ops, bb)
    return ('call', destp, callee, ops, bb)


class Func:
    __slots__ = ('name', 'params', 'ret', 'locals', 'body_text', '_blocks', 'span_line')
    def __init__(s, name, params, ret, body_text):
        s.name, s.params, s.ret, s.body_text = name, params, ret, body_text
        s.locals = None
        s._blocks = None

    def _parse(s):
        s.locals = {}
        for lm in _LET.finditer(s.body_text):
            s.locals[lm.group(1)] = lm.group(2)
        for p, t in s.params:
            s.locals[p] = t
        s.locals.setdefault('_0', s.ret)
        blocks = {}
        for bm in _BLOCK.finditer(s.body_text):
            lines = [l.strip() for l in bm.group(2).split('\n')]
            stmts = []
            for l in lines:
                if not l or l.startswith('//'): continue
                try:
                    stmts.append(parse_stmt(l))
                except ParseError as e:
                    stmts.append(('unparsed', str(e)))
                except Exception as e:  # noqa
                    stmts.append(('unparsed', '%s: %s' % (type(e).__name__, l)))
            blocks[bm.group(1)] = stmts
        s._blocks = blocks

    @property
    def blocks(s):
        if s._blocks is None:
            s._parse()
        return s._blocks

    def local_types(s):
        if s.locals is None:
            s._parse()
        return s.locals

_LET = re.compile(r'^\s*let (?:mut )?(_\d+): (.*);$', re.M)
_BLOCK = re.compile(r'^    (bb\d+)(?: \(cleanup\))?: \{\n(.*?)^    \}', re.M | re.S)
_PROMOTED = re.compile(r'^(?:const|static) ((?:.*::promoted\[\d+\])|[\w:]+): ([^=]*?) = \{')
_HEAD = re.compile(r'^fn (.*?)\((.*)\) -> (.*?)\s*$', re.S)


def parse_mir(text):
    """-> dict name -> Func. Duplicate names (thiserror #[from] impls share a span; enum constructors are
    emitted twice) are kept as name, name#2, ...; `variants` lists all Funcs of a base name."""
    funcs = {}
    items = re.split(r'\n(?=fn |static |const |promoted|alloc\d+ \(|// MIR FOR CTFE)', text)
    ctfe = False
    for it in items:
        if it.startswith('// MIR FOR CTFE'):
            # the following `fn` item is the const-eval copy of a constructor; skip it
            ctfe = True
            continue
        pm = _PROMOTED.match(it)
        if pm:
            head, _, body = it.partition(' = {\n')
            funcs[pm.group(1)] = Func(pm.group(1), [], pm.group(2).strip(), body)
            continue
        if not it.startswith('fn '):
            continue
        if ctfe:
            ctfe = False
            continue
        head, _, body = it.partition(' {\n')
        m = _HEAD.match(head.replace('\n', ' '))
        if not m:
            continue
        name = m.group(1)
        params = []
        for p in split_top(m.group(2)):
            pm = re.match(r'(_\d+): (.*)', p, re.S)
            if pm:
                params.append((pm.group(1), pm.group(2)))
        f = Func(name, params, m.group(3).strip(), body)
        if name in funcs:
            k = 2
            while '%s#%d' % (name, k) in funcs: k += 1
            funcs['%s#%d' % (name, k)] = f
        else:
            funcs[name] = f
    return funcs


def parse_statics(text):
    """named consts with literal bodies: `const NAME: ty = const 7_u32;`"""
    out = {}
    for m in re.finditer(r'^const ([\w:]+): ([^=]+) = const ([^;]+);$', text, re.M):
        out[m.group(1)] = parse_const(m.group(3))
    return out
