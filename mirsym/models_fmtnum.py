"""Printing and parsing of integers in a radix (std Display / LowerHex / Octal / Binary for primitive integers,
num-bigint and num-rational formatting, <int>::from_str_radix, BigInt / Ratio / f64 from_str_radix).  Dependencies
of marwood, modelled; used by C16.

The printer is modelled by its DEFINING PROPERTY, not by its algorithm: the digits d_(n-1)..d_0 of a magnitude m in
radix r are fresh solver variables with  d_i < r  and  m = sum d_i r^i  (Horner form), the number of digits being
decided by comparing m with the powers of r.  The representation is unique, so this characterises the output of the
real printer.  The parser evaluates the same Horner form over the digit values of its input, so that printing and
reading back the same digits meet in syntactically identical terms (a chain of divisions by ten on one side and of
multiplications on the other is not decided by the bit-blasting back end: measured > 300 s for 10 digits).
"""
import z3
from .values import *
from .models_core import (as_str, deref, mk_some, mk_none, mk_ok, mk_err, UNIT, to_digit, Formatter, FmtArg, utf8_width, pad_write)
from .models_num import Big, BW, ratio, ratio_new

DIGIT_BITS = {2: 1, 8: 3, 10: 4, 16: 4}


def horner_width(n, radix):
    return max(72, n * DIGIT_BITS.get(radix, 6) + 8)


def horner(digs, radix, W):
    acc = z3.BitVecVal(0, W)
    for d in digs:
        dv = z3.ZeroExt(W - 32, d) if is_sym(d) else z3.BitVecVal(d, W)
        acc = acc * z3.BitVecVal(radix, W) + dv
    return acc


def fit(v, W):
    """unsigned BV -> width W (the caller knows the value fits)"""
    w = v.size()
    if w == W: return v
    return z3.ZeroExt(W - w, v) if w < W else z3.Extract(W - 1, 0, v)


def digit_char(dv):
    return z3.simplify(z3.If(z3.ULT(dv, 10), dv + 48, dv + 87))


def int_digits(it, mag, radix, ndigits=None):
    """magnitude (unsigned BV or python int) -> list of (char term, 1), most significant first.
    ndigits: the caller has already decided the number of digits (on a cheaper representation of the same value)"""
    if not is_sym(mag):
        s = ''
        m = mag
        while True:
            s = '0123456789abcdefghijklmnopqrstuvwxyz'[m % radix] + s
            m //= radix
            if m == 0: break
        return [(ord(c), 1) for c in s]
    cache = it.ghost.setdefault('_digits', {})
    ck = (mag.get_id(), radix)
    if ck in cache: return list(cache[ck][1])
    w = mag.size()
    maxd = 1
    while radix ** maxd < (1 << w): maxd += 1
    n = maxd
    if ndigits is not None: n = ndigits
    else:
        for k in range(1, maxd):
            if radix ** k >= (1 << w): break
            if it.branch(z3.ULT(mag, z3.BitVecVal(radix ** k, w))):
                n = k; break
    W = horner_width(n, radix)
    tag = '%d_%d' % (len(it.taken), it.fresh_n); it.fresh_n += 1
    dvs = [z3.BitVec('dig%d_%s' % (i, tag), 32) for i in range(n)]
    H = horner(dvs, radix, W)
    # the defining equation H = mag is kept PENDING: a reader that evaluates the very same Horner term gets `mag` back
    # syntactically (horner_value); the equation is asserted only when some other consumer looks at the digits
    it.assume(z3.And(*([z3.ULT(d, radix) for d in dvs] + ([dvs[0] != 0] if n > 1 else []))))
    it.ghost.setdefault('_hornerval', {})[H.get_id()] = (H, mag)
    it.ghost.setdefault('_pending_defs', []).append(H == fit(mag, W))
    chars = []
    dmap = it.ghost.setdefault('_digitval', {})
    for d in dvs:
        ch = digit_char(d)
        dmap[ch.get_id()] = (ch, d, radix)
        chars.append((ch, 1))
    cache[ck] = (mag, chars)
    return list(chars)


def activate_defs(it):
    """assert the pending defining equations of every printed number (a consumer needs the digits themselves)"""
    p = it.ghost.get('_pending_defs')
    if p:
        it.assume(z3.And(*p))
        del p[:]


def horner_value(it, V):
    """(magnitude term, True) if V is the Horner term of a printed magnitude, else (V, False)"""
    e = it.ghost.get('_hornerval', {}).get(V.get_id()) if is_sym(V) else None
    if e is not None: return e[1], True
    if is_sym(V) and it.ghost.get('_pending_defs'): activate_defs(it)
    return V, False


def known_digit(it, ch, radix):
    """digit value of a char that a printer model produced (same term as in the printer's defining equation)"""
    if not is_sym(ch): return None
    e = it.ghost.get('_digitval', {}).get(ch.get_id())
    if e is not None and e[2] <= radix: return e[1]
    return None


def digit_values(it, cs, radix, skip_underscore=False):
    """chars -> list of digit values, or None when a char is not a digit of the radix (forks on symbolic chars)"""
    out = []
    for ch, _ in cs:
        ch = deref(ch)
        kd = known_digit(it, ch, radix)
        if kd is not None:
            out.append(kd); continue
        if is_sym(ch) and ch.get_id() in it.ghost.get('_digitval', {}): activate_defs(it)
        if skip_underscore:
            if (not is_sym(ch) and ch == ord('_')) or (is_sym(ch) and it.branch(ch == ord('_'))): continue
        d = to_digit(it, ch, radix)
        if d.var == 0: return None
        out.append(d.f[0])
    return out


def is_char(it, ch, c):
    ch = deref(ch)
    if not is_sym(ch): return ch == ord(c)
    if known_digit(it, ch, 36) is not None: return False
    return it.branch(ch == ord(c))


def write_int(it, f, v, ty, kind):
    """std formatting of a primitive integer without flags"""
    w, sg = INT_TYPES[ty]
    radix = {'display': 10, 'debug': 10, 'lowerhex': 16, 'octal': 8, 'binary': 2}[kind]
    if not is_sym(v):
        if radix == 10: text = str(v)
        else:
            u = v & ((1 << w) - 1)
            text = {16: '%x', 8: '%o'}[radix] % u if radix != 2 else bin(u)[2:]
        pad_write(f, [(ord(c), 1) for c in text]); return
    out = []
    if radix == 10 and sg:
        neg = it.branch(v < 0)
        if neg: out.append((ord('-'), 1))
        mag = z3.simplify(-v if neg else v)          # i64::MIN: the bit pattern of -v is 2^63 read unsigned
    else:
        mag = v                                       # two's complement bit pattern
    out += int_digits(it, mag, radix)
    pad_write(f, out)


def write_big(it, f, b, kind):
    radix = {'display': 10, 'debug': 10, 'lowerhex': 16, 'octal': 8, 'binary': 2}[kind]
    v = b.v
    if not is_sym(v):
        text = ('-' if v < 0 else '') + ''.join(chr(c) for c, _ in int_digits(it, abs(v), radix))
        pad_write(f, [(ord(c), 1) for c in text]); return
    out = []
    neg = it.branch(v < 0)
    if neg: out.append((ord('-'), 1))
    out += int_digits(it, z3.simplify(-v if neg else v), radix)
    pad_write(f, out)


def write_ratio(it, f, r, kind, ty='i32'):
    """num-rational impl_formatting!: pre_pad = "{numer}" or "{numer}/{denom}" in the integer format of the trait; a leading
    '-' is stripped and re-emitted by pad_integral"""
    n, d = r.f
    sub = Formatter([], False, {})
    write_int(it, sub, n, ty, kind)
    if not ((not is_sym(d)) and d == 1) and not (is_sym(d) and it.branch(d == 1)):
        sub.out.append((ord('/'), 1))
        write_int(it, sub, d, ty, kind)
    pad_write(f, sub.out)


F64 = z3.Float64()
TWO63 = 9223372036854775808.0


def write_f64(it, f, v, kind):
    """std formatting of a double.  Library facts used as AXIOMS (not decided here): `{}` and `{:e}` print the shortest
    digit string that parses back to the same double; `{:.1}` of an integer-valued double prints its exact decimal
    expansion followed by ".0".  Encoding: an integer-valued double below 2^63 in magnitude under `{:.1}` is printed
    through the integer printer (symbolic-length digits) + ".0"; every other case is a SKELETON text
    [-] d . d  or  [-] d e d  (fresh digit chars) that is registered as a spelling of v: it keeps the character
    classes that the lexer and the parser chain look at, and the float parser returns v for it."""
    prec = f.spec.get('precision')
    if not is_sym(v):
        if v != v: text = 'NaN'
        elif v in (float('inf'), float('-inf')): text = 'inf' if v > 0 else '-inf'
        elif kind == 'lowerexp':
            m, e = ('%.17e' % v).split('e'); text = None
            for p_ in range(0, 18):
                t = '%.*e' % (p_, v)
                if float(t) == v:
                    m, e = t.split('e'); text = m + 'e' + str(int(e)); break
        elif prec is not None: text = '%.*f' % (prec, v)
        else:
            text = repr(float(v))
            if 'e' in text or 'E' in text:
                from decimal import Decimal
                text = format(Decimal(text), 'f')
            if text.endswith('.0') and False: pass
            if '.' not in text and 'n' not in text: text += ''
            if text.endswith('.0'): text = text[:-2]
        pad_write(f, [(ord(c), 1) for c in text]); return
    if it.branch(z3.Or(z3.fpIsNaN(v), z3.fpIsInf(v))): raise Unsupported('formatting a non-finite symbolic double')
    out = []
    neg = it.branch(z3.fpIsNegative(v))
    if neg: out.append((ord('-'), 1))
    a = z3.fpAbs(v)
    if kind == 'display' and prec == 1 and it.branch(z3.fpLT(a, z3.FPVal(TWO63, F64))):
        # a decision (not a `must`): decided once, replayed paths reuse it (the query costs seconds)
        if not it.branch(z3.fpEQ(z3.fpRoundToIntegral(z3.RTZ(), a), a)): raise Unsupported('{:.1} of a double that is not integer-valued')
        mag = z3.fpToUBV(z3.RTZ(), a, z3.BitVecSort(64))
        nd = 19
        for k in range(1, 19):                      # digit count decided on the double (10^k is exact up to 10^22): no conversion circuit per comparison
            if it.branch(z3.fpLT(a, z3.FPVal(float(10 ** k), F64))):
                nd = k; break
        out += int_digits(it, mag, 10, ndigits=nd) + [(ord('.'), 1), (ord('0'), 1)]
        it.ghost.setdefault('_f64int', {})[mag.get_id()] = (mag, a, v, neg)
        pad_write(f, out); return
    skel = it.ghost.setdefault('_f64skel', {})
    sk = (v.get_id(), kind, prec)
    if sk in skel:
        pad_write(f, list(skel[sk][1])); return          # the same double printed again: the same spelling
    tag = '%d_%d' % (len(it.taken), it.fresh_n); it.fresh_n += 1
    d1 = z3.BitVec('fdig1_' + tag, 32); d2 = z3.BitVec('fdig2_' + tag, 32)
    it.assume(z3.And(z3.UGE(d1, 48), z3.ULE(d1, 57), z3.UGE(d2, 48), z3.ULE(d2, 57)))
    it.char_info[d1.get_id()] = 1; it.char_info[d2.get_id()] = 1
    if kind == 'lowerexp':
        # the exponent is negative exactly for 0 < |v| < 1 (library fact): the '-' matters to the lexer
        small = it.branch(z3.And(z3.fpLT(a, z3.FPVal(1.0, F64)), z3.Not(z3.fpIsZero(a))))
        body = [(d1, 1), (ord('e'), 1)] + ([(ord('-'), 1)] if small else []) + [(d2, 1)]
    else:
        body = [(d1, 1), (ord('.'), 1), (d2, 1)]
    out += body
    it.ghost.setdefault('_f64text', []).append(([c for c, _ in out], v, out))
    skel[sk] = (v, list(out))
    pad_write(f, out)


def f64_spelling(it, cs):
    """the double whose registered spelling is exactly this text, else None"""
    for chars, v, keep in it.ghost.get('_f64text', []):
        if len(chars) != len(cs): continue
        if all((is_sym(x) and is_sym(y) and x.get_id() == y.get_id()) or ((not is_sym(x)) and (not is_sym(y)) and x == y) for x, (y, _) in zip(chars, cs)):
            return v
    return None


def check_radix(it, radix, msg):
    """std's integer parsers and num-bigint assert 2 <= radix <= 36 (a panic, not an Err)"""
    from .values import Panic
    if is_sym(radix):
        if it.branch(z3.Or(z3.ULT(radix, 2), z3.UGT(radix, 36))): raise Panic(msg)
    elif not (2 <= radix <= 36):
        raise Panic(msg)


def parse_int(it, cs, radix, ty):
    """<int>::from_str_radix -> Result<int, ParseIntError>"""
    w, sg = INT_TYPES[ty]
    err = lambda k: mk_err(Agg('ParseIntError', None, [k]))
    check_radix(it, radix, 'from_str_radix: radix must lie in the range `[2, 36]`')
    if not cs: return err('Empty')
    neg = False
    if is_char(it, cs[0][0], '+'):
        cs = cs[1:]
        if not cs: return err('InvalidDigit')
    elif sg and is_char(it, cs[0][0], '-'):
        cs = cs[1:]; neg = True
        if not cs: return err('InvalidDigit')
    dvs = digit_values(it, cs, radix)
    if dvs is None: return err('InvalidDigit')
    W = horner_width(len(dvs), radix)
    V = horner(dvs, radix, W)
    if all(not is_sym(d) for d in dvs): V = z3.simplify(V)
    V, _ = horner_value(it, V)
    W = V.size()
    lim = (1 << (w - 1)) if (sg and neg) else ((1 << (w - sg)) - 1)
    if W >= w and it.branch(z3.UGT(V, z3.BitVecVal(lim, W))): return err('NegOverflow' if neg else 'PosOverflow')
    x = fit(V, w)
    x = z3.simplify(-x if neg else x)
    if z3.is_bv_value(x):
        x = x.as_signed_long() if sg else x.as_long()
    return mk_ok(x)


def parse_big(it, cs, radix):
    """BigInt::from_str_radix: '-'? '+'? digit (digit | '_')*  -> Result<Big, ParseBigIntError>"""
    err = lambda: mk_err(Agg('ParseBigIntError', None, ['invalid']))
    check_radix(it, radix, 'The radix must be within 2...36')
    neg = False
    if cs and is_char(it, cs[0][0], '-'):
        neg = True
        if len(cs) > 1 and is_char(it, cs[1][0], '+'): pass      # "-+5": the '-' is not consumed and parsing fails below
        else: cs = cs[1:]
        if cs and is_char(it, cs[0][0], '-'): return err()
    if cs and is_char(it, cs[0][0], '+'):
        if not (len(cs) > 1 and is_char(it, cs[1][0], '+')): cs = cs[1:]
    if not cs: return err()
    if is_char(it, cs[0][0], '_'): return err()
    if neg and is_char(it, cs[0][0], '-'): return err()
    dvs = digit_values(it, cs, radix, skip_underscore=True)
    if dvs is None: return err()
    W = horner_width(len(dvs), radix)
    if len(dvs) * DIGIT_BITS.get(radix, 6) > BW - 8: raise Unsupported('bignum literal of %d digits exceeds the bignum model' % len(dvs))
    V = horner(dvs, radix, W)
    V, hit = horner_value(it, V)
    X = fit(V, BW)
    X = z3.simplify(-X if neg else X)
    if hit and V.size() <= 64 and not z3.is_bv_value(X):
        # the magnitude is a narrow machine value: remember it, so that later arithmetic on this bignum can run at its width
        sm = z3.ZeroExt(1, V)
        it.ghost.setdefault('_bigsmall', {})[X.get_id()] = (X, z3.simplify(-sm if neg else sm))
    if z3.is_bv_value(X): return mk_ok(Big(X.as_signed_long()))
    return mk_ok(Big(X))


def split_slash(it, cs):
    """splitn(2, '/') -> (left, right) or None when there is no '/'"""
    for i, (ch, _) in enumerate(cs):
        if is_char(it, ch, '/'): return cs[:i], cs[i + 1:]
    return None


def install(prog):
    M = prog.model
    KINDS = {'Display': 'display', 'LowerHex': 'lowerhex', 'Octal': 'octal', 'Binary': 'binary', 'Debug': 'debug'}
    INT = r'(i8|i16|i32|i64|isize|u8|u16|u32|u64|usize)'

    def numfmt(it, kind, v, f, ty):
        """hook of fmt_value: True if handled"""
        if getattr(it.prog, 'numfmt_skeleton', False) and (isinstance(v, Big) or (isinstance(v, Agg) and v.ty == 'Ratio') or (is_sym(v) and (z3.is_bv(v) or z3.is_fp(v))) or isinstance(v, float)):
            # panic-freedom harnesses: the std number printers cannot panic and the text is not judged -- one fixed digit
            pad_write(f, [(ord('7'), 1)]); return True
        if kind not in ('display', 'lowerhex', 'octal', 'binary', 'debug', 'lowerexp'): return False
        if isinstance(v, Big):
            write_big(it, f, v, kind); return True
        if isinstance(v, Agg) and v.ty == 'Ratio':
            write_ratio(it, f, v, kind); return True
        if ty in INT_TYPES and (is_sym(v) and z3.is_bv(v) or (isinstance(v, int) and not isinstance(v, bool))):
            write_int(it, f, v, ty, kind); return True
        if kind in ('display', 'lowerexp') and ((is_sym(v) and z3.is_fp(v)) or isinstance(v, float)) and getattr(it.prog, 'model_f64_text', False):
            write_f64(it, f, v, kind); return True
        return False
    prog.numfmt = numfmt

    @M(r'<' + INT + r' as (?:std::fmt::|fmt::|core::fmt::)?(Display|LowerHex|Octal|Binary)>::fmt')
    def _(it, m, a):
        write_int(it, deref(a[1]).f[0], deref(a[0]), m.group(1), KINDS[m.group(2)]); return mk_ok(UNIT)

    @M(r'<BigInt as (?:std::fmt::|fmt::|core::fmt::)?(Display|LowerHex|Octal|Binary)>::fmt')
    def _(it, m, a):
        write_big(it, deref(a[1]).f[0], deref(a[0]), KINDS[m.group(1)]); return mk_ok(UNIT)

    @M(r'<Ratio<i32> as (?:std::fmt::|fmt::|core::fmt::)?(Display|LowerHex|Octal|Binary)>::fmt')
    def _(it, m, a):
        write_ratio(it, deref(a[1]).f[0], deref(a[0]), KINDS[m.group(1)]); return mk_ok(UNIT)

    def int_from_str_radix(it, m, a):
        return parse_int(it, list(as_str(it, a[0]).chars()), a[1], m.group(1))
    prog.model(r'core::num::<impl ' + INT + r'>::from_str_radix')(int_from_str_radix)
    # models_core registers an older unsigned-only model first: exact entries take precedence
    import re as _re
    for _ty in ('i8', 'i16', 'i32', 'i64', 'isize', 'u8', 'u16', 'u32', 'u64', 'usize'):
        prog.exact['core::num::<impl %s>::from_str_radix' % _ty] = (lambda ty: lambda it, m, a: parse_int(it, list(as_str(it, a[0]).chars()), a[1], ty))(_ty)
    prog.model(r'<' + INT + r' as (?:num::|num_traits::)?Num>::from_str_radix')(int_from_str_radix)

    @M(r'<BigInt as (?:num::|num_traits::)?Num>::from_str_radix|BigInt::from_str_radix')
    def _(it, m, a):
        return parse_big(it, list(as_str(it, a[0]).chars()), a[1])

    @M(r'<Ratio<i32> as (?:num::|num_traits::)?Num>::from_str_radix|Ratio::<i32>::from_str_radix')
    def _(it, m, a):
        cs = list(as_str(it, a[0]).chars()); radix = a[1]
        err = lambda k: mk_err(Agg('ParseRatioError', None, [k]))
        sp = split_slash(it, cs)
        if sp is None: return err('ParseError')
        n = parse_int(it, sp[0], radix, 'i32')
        if n.var == 1: return err('ParseError')
        d = parse_int(it, sp[1], radix, 'i32')
        if d.var == 1: return err('ParseError')
        if it.branch(it.binop('Eq', d.f[0], 0, 'i32')): return err('ZeroDenominator')
        return mk_ok(ratio_new(it, n.f[0], d.f[0]))

    @M(r'<Ratio<BigInt> as (?:num::|num_traits::)?Num>::from_str_radix|Ratio::<BigInt>::from_str_radix')
    def _(it, m, a):
        cs = list(as_str(it, a[0]).chars()); radix = a[1]
        err = lambda k: mk_err(Agg('ParseRatioError', None, [k]))
        sp = split_slash(it, cs)
        if sp is None: return err('ParseError')
        n = parse_big(it, sp[0], radix)
        if n.var == 1: return err('ParseError')
        d = parse_big(it, sp[1], radix)
        if d.var == 1: return err('ParseError')
        nv, dv = n.f[0].v, d.f[0].v
        if it.branch(dv == 0 if is_sym(dv) else dv == 0): return err('ZeroDenominator')
        # Ratio::new: reduce to lowest terms, denominator > 0 (one side concrete: case split over its divisors)
        from .models_num import gcd32
        if not is_sym(nv) and not is_sym(dv):
            import math
            g = math.gcd(nv, dv) or 1
            nn, dd = nv // g, dv // g
            if dd < 0: nn, dd = -nn, -dd
            return mk_ok(Agg('BigRatio', None, [Big(nn), Big(dd)]))
        if is_sym(dv) and is_sym(nv) and it.ghost.get('opaque_ratio_literals'):
            # the harness only asks WHETHER the text is a number: keep the ratio unreduced, is_integer answers both ways
            return mk_ok(Agg('BigRatio', None, [Big(nv), Big(dv)]))
        if is_sym(dv):
            dv = it.concretize(dv, limit=16)          # tiny domains only (a one-digit denominator of a symbolic text)
            if dv >= 1 << (BW - 1): dv -= 1 << BW
        if is_sym(nv) and it.branch(nv == 0): return mk_ok(Agg('BigRatio', None, [Big(0), Big(1)]))
        sm = it.ghost.get('_bigsmall', {}).get(nv.get_id()) if is_sym(nv) else None
        if sm is not None and not is_sym(dv) and abs(dv) < (1 << 62):
            # numerator is a narrow value: reduce at its width (a 384-bit division lemma costs a second per query)
            ns = sm[1]; w = ns.size()
            g = gcd32(it, ns, dv, w)
            if is_sym(g): raise Unsupported('symbolic gcd in BigRational::new')
            if g == 1: qn = ns
            elif g & (g - 1) == 0: qn = ns >> (g.bit_length() - 1)
            else:
                from .models_num import div_lemma as dl
                qn = dl(it, ns, g)[0]
            dd = dv // g
            if dd < 0: qn, dd = -qn, -dd
            return mk_ok(Agg('BigRatio', None, [Big(z3.simplify(z3.SignExt(BW - w, qn))), Big(dd)]))
        g = gcd32(it, nv, dv, BW)
        def divg(x):
            if not is_sym(x): return x // g if x % g == 0 else (abs(x) // g) * (1 if x > 0 else -1)
            if g == 1: return x
            if g & (g - 1) == 0: return x >> (g.bit_length() - 1)          # exact division by a power of two
            return it.div_lemma(x, g, BW, True)[0]
        if is_sym(g): raise Unsupported('symbolic gcd in BigRational::new')
        nn, dd = divg(nv), divg(dv)
        neg = (dd < 0) if not is_sym(dd) else it.branch(dd < 0)
        if neg: nn, dd = (-nn, -dd)
        nn = z3.simplify(nn) if is_sym(nn) else nn; dd = z3.simplify(dd) if is_sym(dd) else dd
        return mk_ok(Agg('BigRatio', None, [Big(nn), Big(dd)]))

    @M(r'Ratio::<BigInt>::is_integer')
    def _(it, m, a):
        r = deref(a[0]); n, d = r.f[0].v, r.f[1].v
        if not is_sym(d): return d == 1          # ratios are kept reduced with a positive denominator (Ratio::new)
        if it.ghost.get('opaque_ratio_literals'): return it.choose(2) == 1
        if not is_sym(n) and not is_sym(d): return n % d == 0
        if not is_sym(d) and abs(d) == 1: return True
        if not is_sym(d) and abs(d) & (abs(d) - 1) == 0:
            k = abs(d).bit_length() - 1
            return z3.Extract(k - 1, 0, n) == 0
        if not is_sym(d):
            q, r = it.div_lemma(n, d, BW, True)
            return r == 0
        raise Unsupported('BigRational::is_integer with a symbolic denominator')

    @M(r'Ratio::<BigInt>::to_integer|<Ratio<BigInt> as (?:num::|num_traits::)?ToPrimitive>::to_(i64|f64)')
    def _(it, m, a):
        r = deref(a[0]); n, d = r.f[0].v, r.f[1].v
        if m.group(1) == 'f64':
            it.fresh_n += 1
            return mk_some(z3.FP('bigratio_f64_%d_%d' % (len(it.taken), it.fresh_n), z3.Float64()))     # an inexact value: which one is not claimed
        if not is_sym(d) and not is_sym(n):
            q = abs(n) // abs(d) * (1 if (n < 0) == (d < 0) else -1)
        elif not is_sym(d) and abs(d) & (abs(d) - 1) == 0:
            from .models_num import big_op
            q = big_op(it, 'Div', Big(n), Big(d)).v
        elif it.ghost.get('opaque_ratio_literals'):
            it.fresh_n += 1
            q = z3.BitVec('bigratio_int_%d_%d' % (len(it.taken), it.fresh_n), BW)      # value not claimed in this harness
            it.assume(z3.And(q >= -(1 << 66), q <= (1 << 66)))
        else:
            raise Unsupported('BigRational::to_integer with a symbolic or odd denominator')
        if m.group(1) == 'i64':
            from .models_num import big_fits
            return big_fits(it, Big(q), 'i64')
        return Big(q)

    @M(r'<f64 as (?:num::|num_traits::)?Num>::from_str_radix')
    def _(it, m, a):
        cs = list(as_str(it, a[0]).chars()); radix = a[1]
        err = lambda k: mk_err(Agg('ParseFloatError', None, [k]))
        if not cs: return err('Empty')
        text = None
        if all(not is_sym(c) for c, _ in cs): text = ''.join(chr(c) for c, _ in cs)
        if text is not None and radix == 10:
            try:
                import re
                if not re.fullmatch(r'[+-]?(inf|infinity|nan|(\d+\.?\d*([eE][+-]?\d+)?|\.\d+([eE][+-]?\d+)?))', text, re.I): return err('Invalid')
                return mk_ok(float(text))
            except ValueError:
                return err('Invalid')
        if radix == 10:
            v = f64_spelling(it, cs)
            if v is not None: return mk_ok(v)
            # [-] digits [ ".0" ]: the correctly rounded value of an integer literal
            body = cs[1:] if (cs and is_char(it, cs[0][0], '-')) else cs
            neg = len(body) != len(cs)
            tail0 = len(body) >= 3 and (not is_sym(body[-2][0])) and body[-2][0] == ord('.') and (not is_sym(body[-1][0])) and body[-1][0] == ord('0')
            digs = body[:-2] if tail0 else body
            if digs and all(known_digit(it, deref(c), 10) is not None for c, _ in digs):
                dvs = [known_digit(it, deref(c), 10) for c, _ in digs]
                V = horner(dvs, 10, horner_width(len(dvs), 10))
                V, hit = horner_value(it, V)
                if hit and V.size() == 64:
                    x = z3.fpUnsignedToFP(z3.RNE(), V, F64) if hasattr(z3, 'fpUnsignedToFP') else z3.fpToFPUnsigned(z3.RNE(), V, F64)
                    e = it.ghost.get('_f64int', {}).get(V.get_id())
                    if e is not None:
                        # printed from this very double: |v| = to_fp(to_ubv(|v|)) for an integer-valued |v| < 2^63
                        if e[3] == neg: return mk_ok(e[2])
                        x = e[1]
                    return mk_ok(z3.fpNeg(x) if neg else x)
            # str::parse::<f64>: decide the SYNTAX on the character classes (forking on symbolic chars); the value of an
            # accepted literal is an arbitrary double
            cls = ''
            for ch, _ in cs:
                ch = deref(ch)
                if not is_sym(ch): cls += chr(ch) if ch < 128 else '?'; continue
                if known_digit(it, ch, 10) is not None: cls += '7'; continue
                got = None
                for k, test in (('7', z3.And(z3.UGE(ch, 48), z3.ULE(ch, 57))), ('.', ch == 46), ('e', z3.Or(ch == 101, ch == 69)), ('+', ch == 43), ('-', ch == 45),
                                ('i', z3.Or(ch == 105, ch == 73)), ('n', z3.Or(ch == 110, ch == 78)), ('f', z3.Or(ch == 102, ch == 70)), ('a', z3.Or(ch == 97, ch == 65)),
                                ('t', z3.Or(ch == 116, ch == 84)), ('y', z3.Or(ch == 121, ch == 89))):
                    if it.branch(test):
                        got = k; break
                cls += got or '?'
            import re
            if not re.fullmatch(r'[+-]?(inf|infinity|nan|(\d+\.?\d*([e][+-]?\d+)?|\.\d+([e][+-]?\d+)?))', cls, re.I): return err('Invalid')
            it.fresh_n += 1
            return mk_ok(z3.FP('parsed_f64_%d_%d' % (len(it.taken), it.fresh_n), z3.Float64()))
        body = cs[1:] if is_char(it, cs[0][0], '-') else cs
        if not body: return err('Empty')
        # digits of the radix only: an inexact number whose value is not claimed (an arbitrary double)
        for ch, _ in body:
            ch = deref(ch)
            if known_digit(it, ch, radix) is not None: continue
            d = to_digit(it, ch, radix)
            if d.var == 0:
                if True:
                    # radix other than 10 with a fraction / exponent marker or an invalid digit: the outcome of the library parser is not
                    # modelled -- both are explored (an accepted literal is an arbitrary double)
                    if it.choose(2) == 1: return err('Invalid')
                    it.fresh_n += 1
                    return mk_ok(z3.FP('parsed_f64_%d_%d' % (len(it.taken), it.fresh_n), z3.Float64()))
                if not is_sym(ch) and chr(ch) in '.eEpP': raise Unsupported('float literal with a fraction or an exponent')
                if is_sym(ch):
                    if it.branch(z3.Or(*[ch == ord(c) for c in '.eEpP'])): raise Unsupported('float literal with a fraction or an exponent')
                return err('Invalid')
        it.fresh_n += 1
        return mk_ok(z3.FP('parsed_f64_%d_%d' % (len(it.taken), it.fresh_n), z3.Float64()))
