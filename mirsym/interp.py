"""Path-based symbolic interpreter for rustc MIR (engine M).

One Interp object executes ONE path.  Every branch on a symbolic condition asks z3 whether both sides
are feasible under the path condition; if so the alternative is queued as a *decision prefix* and
re-executed later from the entry point (no state cloning; trivially parallel, see explore.py).
"""
import os, sys, re, time
import z3
from .values import *
from . import mirparse

_LIFETIME1 = re.compile(r"::<'\w+>|<'\w+>")
_LIFETIME2 = re.compile(r"'\w+,? ?")


def norm_callee(c):
    c = _LIFETIME1.sub('', c)
    c = _LIFETIME2.sub('', c)
    return c


class Program:
    """parsed MIR of the current tree + name index + enum registry"""
    def __init__(s, mir_text, srcroot):
        s.funcs = mirparse.parse_mir(mir_text)
        s.consts = mirparse.parse_statics(mir_text)
        s.srcroot = srcroot
        s.enums = dict(BUILTIN_ENUMS)
        s.structs = {}
        s.ambiguous = set()
        s._load_types()
        s.index = {}
        s._build_index()
        s.models = []          # (compiled regex, handler)
        s.exact = {}           # exact callee -> handler
        s.resolve_cache = {}
        s.pure = set()         # names of pure scalar predicates to summarise
        s.promoted_cache = {}
        s.rlimit = 0            # z3 resource limit per query (0 = none); exceeding it -> unknown -> inconclusive
        s.last_autoderef = 0
        s.memo_str = set()     # pure crate functions of one &str whose result is memoised within a path (same text object)
        s.observers = {}       # MIR function name -> callback(it, args, result) (harness ghost state)
        s.sumcache = {}
        s.closure_index = {}
        for name, f in s.funcs.items():
            if '{closure#' in name and f.params:
                m = re.search(r'\{closure@[^}]*\}', f.params[0][1])
                if m:
                    s.closure_index.setdefault(m.group(0), (name, f.params[0][1].startswith('&')))

    # ---- crate type registry (read from the sources of the current tree)
    def _load_types(s):
        import glob, os
        seen = {}
        for fn in sorted(glob.glob(s.srcroot + '/**/*.rs', recursive=True)):
            src = open(fn).read()
            mod = os.path.relpath(fn, s.srcroot)[:-3]
            mod = re.sub(r'/mod$', '', mod).replace('/', '::')
            if mod == 'lib': mod = ''
            for m in re.finditer(r'^\s*(?:pub(?:\([^)]*\))? )?(enum|struct) (\w+)', src, re.M):
                seen.setdefault(m.group(2), set()).add(mod)
            for m in re.finditer(r'\bstruct (\w+)\s*(?:<[^>]*>)?\s*\{(.*?)\n\}', src, re.S):
                body = re.sub(r'//[^\n]*', '', m.group(2))
                body = re.sub(r'#\[[^\]]*\]', '', body)
                fields, depth, cur = [], 0, ''
                for ch in body:
                    if ch in '({[<': depth += 1
                    elif ch in ')}]>': depth -= 1
                    if ch == ',' and depth == 0:
                        fields.append(cur); cur = ''
                    else:
                        cur += ch
                fields.append(cur)
                names = []
                for fdecl in fields:
                    fm = re.match(r'\s*(?:pub(?:\([^)]*\))?\s+)?(\w+)\s*:\s*(.*)', fdecl, re.S)
                    if fm: names.append((fm.group(1), ' '.join(fm.group(2).split())))
                last = mod.split('::')[-1] if mod else ''
                s.structs[(last + '::' if last else '') + m.group(1)] = names
                s.structs.setdefault(m.group(1), names)
            for m in re.finditer(r'\benum (\w+)\s*(?:<[^>]*>)?\s*\{(.*?)\n\}', src, re.S):
                body = re.sub(r'//[^\n]*', '', m.group(2))
                body = re.sub(r'#\[[^\]]*\]', '', body)
                vs, depth, cur = [], 0, ''
                for ch in body:
                    if ch in '({[<': depth += 1
                    elif ch in ')}]>': depth -= 1
                    if ch == ',' and depth == 0:
                        vs.append(cur); cur = ''
                    else:
                        cur += ch
                vs.append(cur)
                names = [re.match(r'\s*(\w+)', v).group(1) for v in vs if re.match(r'\s*(\w+)', v)]
                last = mod.split('::')[-1] if mod else ''
                s.enums[(last + '::' if last else '') + m.group(1)] = names
                s.enums[(mod + '::' if mod else '') + m.group(1)] = names
                if m.group(1) not in s.enums or s.enums[m.group(1)] == names:
                    s.enums[m.group(1)] = names
        for k, mods in seen.items():
            if len(mods) > 1:
                s.ambiguous.add(k)
                s.enums.pop(k, None)

    def enum_of(s, path):
        """path without generics, e.g. `lex::Error`, `Option`, `std::option::Option`"""
        if path in s.enums: return path
        parts = path.split('::')
        for k in range(1, len(parts)):
            sub = '::'.join(parts[k:])
            if sub in s.enums: return sub
        return None

    def _build_index(s):
        cache = {}
        for name, f in s.funcs.items():
            base = name.split('#')[0]
            m = re.search(r'<impl at marwood/src/([\w/]+\.rs):(\d+):(\d+): (\d+):(\d+)>::(\w+)$', base)
            if not m:
                if '{closure' not in base and '<impl at' not in base:
                    s.index.setdefault(base, name)
                continue
            fn, l, c, l2, c2, meth = m.group(1), int(m.group(2)), int(m.group(3)), int(m.group(4)), int(m.group(5)), m.group(6)
            lines = cache.get(fn)
            if lines is None:
                lines = cache[fn] = open(s.srcroot + '/' + fn).read().split('\n')
            text = lines[l - 1][c - 1:c2 - 1] if l == l2 else ' '.join(lines[l - 1:l2])
            mod = re.sub(r'/mod$', '', fn[:-3]).split('/')[-1]
            hm = re.match(r'impl(?:<[^>]*>)?\s+(?:(.+?)\s+for\s+)?(&?(?:mut )?[\w:]+)', text)
            if hm:
                trait, ty = hm.group(1), hm.group(2)
                amp = '&' if ty.startswith('&') else ''
                ty = ty.lstrip('&').split('::')[-1]
            else:
                trait = text.strip()       # derive(...) span is just the trait name
                ty, amp = None, ''
                for k in range(l - 1, min(l + 15, len(lines))):
                    tm = re.search(r'\b(?:struct|enum)\s+(\w+)', lines[k])
                    if tm:
                        ty = tm.group(1); break
                if trait == 'thiserror::Error':
                    # derive(thiserror::Error) emits Display/Error/From impls on one span; tell them apart by signature
                    if meth == 'from':
                        trait = 'From<%s>' % s.short_ty(f.params[0][1])
                    elif meth == 'fmt':
                        trait = 'Display'
                    else:
                        trait = 'Error'
            tys = [ty]
            if ty in s.ambiguous:
                tys = [mod + '::' + ty]
            for t in tys:
                if trait:
                    tr = re.sub(r"'\w+\s*", '', trait)
                    tr = re.sub(r'\s', '', tr)
                    tr = re.sub(r'^(?:\w+::)+(?=\w+(?:<|$))', '', tr)
                    s.index.setdefault('<%s%s as %s>::%s' % (amp, t, tr, meth), name)
                    s.index.setdefault('<%s%s as %s>::%s' % (amp, t, re.sub(r'<.*', '', tr), meth), name)
                else:
                    s.index.setdefault('%s::%s' % (t, meth), name)

    def short_ty(s, t):
        """normalise a type name the way keys are stored: last path segment unless ambiguous"""
        t = norm_callee(t).strip()
        t = re.sub(r'^&(mut )?', '', t)
        g = re.sub(r'<.*', '', t)
        parts = g.split('::')
        if parts[-1] in s.ambiguous and len(parts) >= 2:
            return '::'.join(parts[-2:])
        return parts[-1]

    # ---- models
    def model(s, pattern):
        def deco(fn):
            s.models.append((re.compile(pattern), fn))
            return fn
        return deco

    def resolve_crate(s, c):
        """callee string -> MIR function name or None"""
        if c in s.funcs: return c
        c0 = c
        # strip trailing turbofish
        while True:
            m = re.match(r'^(.*)::<[^<>]*(?:<[^<>]*(?:<[^<>]*>[^<>]*)*>[^<>]*)*>$', c)
            if not m: break
            c = m.group(1)
        if c in s.funcs: return c
        if c in s.index: return s.index[c]
        m = re.fullmatch(r'<(.+?) as (.+)>::(\w+)', c)
        if m:
            ty, tr, meth = m.group(1), re.sub(r'\s', '', m.group(2)), m.group(3)
            amp = '&' if ty.startswith('&') else ''
            sty = s.short_ty(ty)
            trl = tr.split('::')[-1] if '<' not in tr else re.sub(r'^[\w:]*::(?=\w+<)', '', tr)
            # normalise trait generic args (type paths inside)
            gm = re.match(r'(\w+)<(.*)>$', trl)
            cands = []
            if gm:
                # trait arguments: shorten every type path inside, keep references and nested generics (`From<&str>`, `From<Vec<cell::Cell>>`)
                cands.append('%s<%s>' % (gm.group(1), re.sub(r'(?:\w+::)+\w+', lambda mm: s.short_ty(mm.group(0)), gm.group(2))))
                cands.append('%s<%s>' % (gm.group(1), s.short_ty(gm.group(2))))
                cands.append(gm.group(1))
            else:
                cands.append(trl)
            for t in cands:
                for a in (amp, ''):
                    k = '<%s%s as %s>::%s' % (a, sty, t, meth)
                    if k in s.index:
                        if gm and t == gm.group(1):
                            # argument-less fall-back: only if the type has ONE impl of that trait (never guess among several)
                            pre = '<%s%s as %s<' % (a, sty, t)
                            if len(set(s.index[q] for q in s.index if q.startswith(pre) and q.endswith('>::' + meth))) > 1: continue
                        # blanket std impls for references (`impl PartialEq<&B> for &A`, Display for &T, ...) forward to
                        # the impl of the referent: the arguments then carry one more reference level
                        s.last_autoderef = len(re.match(r'&*', ty.replace('&mut ', '&')).group(0)) if (amp and not a) else 0
                        return s.index[k]
            im = re.match(r'Into<(.*)>$', trl)
            if im:
                alias = {'Ratio<i32>': 'Rational32', 'Ratio<i64>': 'Rational64', 'Ratio<BigInt>': 'BigRational'}
                srcs = [sty] + ([alias[ty]] if ty in alias else [])
                for src in srcs:
                    k = '<%s as From<%s>>::from' % (s.short_ty(im.group(1)), src)
                    if k in s.index: return s.index[k]
            return None
        m = re.fullmatch(r'(?:[\w:]+::)?<impl ([\w:]+)>::(\w+)', c)
        if m:
            k = '%s::%s' % (s.short_ty(m.group(1)), m.group(2))
            if k in s.index: return s.index[k]
        parts = re.sub(r'<[^<>]*(?:<[^<>]*>[^<>]*)*>', '', c).replace('::::', '::').split('::')
        if len(parts) >= 2:
            for t in ('::'.join(parts[-3:-1]), parts[-2]):
                k = '%s::%s' % (t, parts[-1])
                if k in s.index: return s.index[k]
        return None


BUILTIN_ENUMS = {
    'Option': ['None', 'Some'], 'Result': ['Ok', 'Err'], 'ControlFlow': ['Continue', 'Break'],
    'Cow': ['Borrowed', 'Owned'], 'Ordering': ['Less', 'Equal', 'Greater'],
    'Bound': ['Included', 'Excluded', 'Unbounded'],
}

_TY_REF = re.compile(r"^(?:&(?:'\w+ )?(?:mut )?|\*const |\*mut )")


def strip_ref(t):
    m = _TY_REF.match(t)
    if m: return t[m.end():]
    m = re.match(r'^(?:std::boxed::)?Box<(.*)>$', t)
    if m: return m.group(1)
    return t


TRACE_UNSUP = bool(os.environ.get('VERIF_DEBUG'))


class Interp:
    STEP_LIMIT = 400000

    def __init__(s, prog, decisions=(), reuse=False):
        s.prog = prog
        s.funcs = prog.funcs
        s.decisions = list(decisions)
        s.taken = []
        s.pending = []
        s.reuse = reuse
        if reuse:
            sh = _SHARED.get(id(prog))
            if sh is None:
                sh = _SHARED[id(prog)] = {'solver': z3.Solver(), 'trail': []}
                if prog.rlimit: sh['solver'].set('rlimit', prog.rlimit)
            s.shared = sh
            s.solver = sh['solver']
        else:
            s.shared = None
            s.solver = z3.Solver()
            if prog.rlimit: s.solver.set('rlimit', prog.rlimit)
        s.events = []           # keys of all constraint events of this run (see _flush)
        s.pc = []               # every constraint of this path, in order (paranoid re-checks, summaries)
        s.paranoid = False
        s.synced = False
        s.model = None          # a model of the current path condition, if known
        s.lazy = []             # constraints of the replayed prefix not yet asserted
        s.char_info = {}        # z3 ast id of a symbolic char -> (utf-8 width, 'ascii' | 'any')
        s.steps = 0
        s.solver_calls = 0
        s.solver_time = 0.0
        s.overflow_checks = True    # False: release semantics (overflow asserts wrap)
        s.ghost = {}
        s.depth = 0
        s.fresh_n = 0
        s.notes = []

    # ------------------------------------------------------------------ solver / branching
    def assume(s, c):
        """harness-level assumption (part of the stated bound)"""
        if isinstance(c, bool):
            if not c: raise Infeasible()
            return
        s._event((len(s.taken), 'A'), c)
        s.model = None

    def check(s, extra=None):
        s._flush()
        s.solver_calls += 1
        t = time.time()
        if extra is None:
            r = s.solver.check()
        else:
            r = s.solver.check(extra)
        s.solver_time += time.time() - t
        if time.time() - t > 2.0 and os.environ.get('VERIF_SLOWQ'):
            import traceback as _tb
            sys.stderr.write('SLOWQ %.1fs extra=%s last=%s\n  at %s\n' % (time.time() - t, str(extra)[:200], str(s.pc[-1])[:200] if s.pc else '', ' <- '.join('%s:%d' % (f.name, f.lineno) for f in _tb.extract_stack()[-6:-1])))
        if r == z3.unknown:
            raise Unsupported('solver returned unknown: ' + s.solver.reason_unknown())
        if s.paranoid:
            fs = z3.Solver()
            fs.add(*s.pc)
            if extra is not None: fs.add(extra)
            r2 = fs.check()
            if r2 != r:
                raise Unsupported('PARANOID: incremental solver state disagrees with a fresh solver (%s vs %s)' % (r, r2))
        if r == z3.sat:
            try:
                s.model = s.solver.model() if extra is None else None
                s._last_model = s.solver.model()
            except z3.Z3Exception:
                pass
            return True
        return False

    def _model_says(s, cond):
        if s.model is None: return None
        try:
            v = s.model.eval(cond, model_completion=True)
        except z3.Z3Exception:
            return None
        if z3.is_true(v): return True
        if z3.is_false(v): return False
        return None

    def _event(s, key, c):
        s.events.append(key)
        s.lazy.append(c)
        if c is not None: s.pc.append(c)

    def _flush(s):
        """assert pending constraints.  With a reused solver (one push scope per constraint event) the scopes
        of the previous path that belong to a common prefix of events are kept: event i of two runs is the
        same constraint when the runs agree on every decision up to it (execution is deterministic)."""
        if not s.reuse:
            if s.lazy:
                cs = [c for c in s.lazy if c is not None]
                if cs: s.solver.add(*cs)
                s.lazy = []
            return
        if not s.synced:
            trail = s.shared['trail']
            ev = s.events
            c = 0
            n = min(len(trail), len(ev))
            while c < n and trail[c] == ev[c]: c += 1
            for key in trail[c:]:
                s.solver.pop()
            del trail[c:]
            # events c.. of this run are all still in s.lazy's tail
            todo = s.lazy[len(s.lazy) - (len(ev) - c):] if len(ev) > c else []
            for key, con in zip(ev[c:], todo):
                s.solver.push()
                if con is not None: s.solver.add(con)
                trail.append(key)
            s.lazy = []
            s.synced = True
            return
        if s.lazy:
            trail = s.shared['trail']
            for key, con in zip(s.events[len(s.events) - len(s.lazy):], s.lazy):
                s.solver.push()
                if con is not None: s.solver.add(con)
                trail.append(key)
            s.lazy = []

    def _assert_now(s, key, c):
        """constraint of a fresh decision (solver already flushed)"""
        s.events.append(key)
        s.pc.append(c)
        if s.reuse:
            s.solver.push()
            s.shared['trail'].append(key)
        s.solver.add(c)

    def branch(s, cond):
        """cond: python bool or z3 Bool -> python bool, forking when both sides are feasible.
        Every symbolic condition consumes one decision slot (also the trivially decided ones), so that a
        replayed prefix needs no solver or simplifier work: its constraints are asserted lazily."""
        if cond is True or cond is False: return cond
        if not isinstance(cond, z3.ExprRef): return bool(cond)
        k = len(s.taken)
        if k < len(s.decisions):
            d = s.decisions[k]
            s.taken.append(d)
            if d is True: s._event((k, True), cond)
            elif d is False: s._event((k, False), z3.Not(cond))
            else: d = (d == 'T')          # 'T' / 'F': decided by simplification alone, no constraint
            return d
        cond = z3.simplify(cond)
        if z3.is_true(cond):
            s.taken.append('T'); return True
        if z3.is_false(cond):
            s.taken.append('F'); return False
        s._flush()
        known = s._model_says(cond)
        ncond = z3.Not(cond)
        if known is True:
            t_ok = True; saved = s.model
            f_ok = s.check(ncond)
            s.model = saved
        elif known is False:
            f_ok = True; saved = s.model
            t_ok = s.check(cond)
            s.model = saved
        else:
            t_ok = s.check(cond)
            tm = s._last_model if t_ok else None
            f_ok = s.check(ncond)
            fm = s._last_model if f_ok else None
            s.model = tm if t_ok else fm
        if t_ok and f_ok:
            s.pending.append(s.taken + [False]); d = True
        elif t_ok: d = True
        elif f_ok: d = False
        else: raise Infeasible()
        s.taken.append(d)
        s._assert_now((k, d), cond if d else ncond)
        if s.model is not None and s._model_says(cond) is not d: s.model = None
        return d

    def choose(s, n, label=None):
        """harness-level choice among range(n): a stated, enumerated shape parameter (not a solver variable)"""
        k = len(s.taken)
        if k < len(s.decisions):
            d = s.decisions[k]
        else:
            for alt in range(n - 1, 0, -1):
                s.pending.append(s.taken + [alt])
            d = 0
        s.taken.append(d)
        s._event((k, d), None)
        return d

    def concretize(s, v, limit=64):
        """fork over all feasible values of symbolic integer v (must be few: bounded by the harness)"""
        if not is_sym(v): return v
        v = z3.simplify(v)
        if z3.is_bv_value(v): return v.as_long()
        k = len(s.taken)
        if k < len(s.decisions):
            d = s.decisions[k]
            s.taken.append(d)
            s._event((k, d), v == d)
            s.model = None
            return d
        s._flush()
        vals = []
        excl = []
        while True:
            if not s.check(z3.And(excl) if excl else None): break
            c = s._last_model.eval(v, model_completion=True).as_long()
            vals.append(c)
            if len(vals) > limit:
                raise Unsupported('concretize: more than %d values for %s' % (limit, v))
            excl.append(v != c)
        s.model = None
        if not vals: raise Infeasible()
        vals.sort()
        for alt in reversed(vals[1:]):
            s.pending.append(s.taken + [alt])
        d = vals[0]
        s.taken.append(d)
        s._assert_now((k, d), v == d)
        return d

    def must(s, cond):
        """True iff cond holds on every input of this path (no fork)"""
        if isinstance(cond, bool): return cond
        cond = z3.simplify(cond)
        if z3.is_true(cond): return True
        if z3.is_false(cond): return False
        if s._model_says(cond) is False: return False
        saved = s.model
        r = not s.check(z3.Not(cond))
        s.model = saved
        return r

    def witness(s, extra=None):
        """a model of the path condition (and extra)"""
        if extra is not None:
            if not s.check(extra): return None
            return s._last_model
        if s.model is not None: return s.model
        if not s.check(): return None
        return s._last_model

    def fresh(s, name, width):
        s.fresh_n += 1
        return z3.BitVec('%s' % name, width)

    def sym_char(s, name, width=1):
        """a symbolic char of the given UTF-8 width class (1: ASCII, 2, 3: BMP without surrogates, 4)"""
        c = z3.BitVec(name, 32)
        if width == 1: s.assume(z3.ULT(c, 0x80))
        elif width == 2: s.assume(z3.And(z3.UGE(c, 0x80), z3.ULT(c, 0x800)))
        elif width == 3: s.assume(z3.And(z3.UGE(c, 0x800), z3.ULT(c, 0x10000), z3.Or(z3.ULT(c, 0xD800), z3.UGE(c, 0xE000))))
        else: s.assume(z3.And(z3.UGE(c, 0x10000), z3.ULE(c, 0x10FFFF)))
        s.char_info[c.get_id()] = width
        return c

    # ------------------------------------------------------------------ scalar ops
    def to_bv(s, x, w):
        if is_sym(x):
            if z3.is_bool(x): return z3.If(x, z3.BitVecVal(1, w), z3.BitVecVal(0, w))
            return x
        if isinstance(x, bool): x = int(x)
        return z3.BitVecVal(x, w)

    def resize(s, v, w, signed=False):
        if v.size() == w: return v
        if v.size() > w: return z3.Extract(w - 1, 0, v)
        return z3.SignExt(w - v.size(), v) if signed else z3.ZeroExt(w - v.size(), v)

    def binop(s, op, a, b, ty):
        fa, fb = isinstance(a, float) or z3.is_fp(a) if is_sym(a) else isinstance(a, float), \
                 isinstance(b, float) or z3.is_fp(b) if is_sym(b) else isinstance(b, float)
        if fa or fb:
            return s.float_binop(op, a, b)
        if ty == 'bool' or isinstance(a, bool) or isinstance(b, bool) or (is_sym(a) and z3.is_bool(a)) or (is_sym(b) and z3.is_bool(b)):
            return s.bool_binop(op, a, b)
        w, signed = INT_TYPES.get(ty, (64, 0))
        if not is_sym(a) and not is_sym(b):
            return s.binop_conc(op, a, b, w, signed)
        if is_sym(a): w = a.size()
        elif op not in ('Shl', 'Shr') and is_sym(b): w = b.size()
        A = a if is_sym(a) else bvval(a, w)
        if op in ('Shl', 'Shr', 'ShlUnchecked', 'ShrUnchecked'):
            B = b if is_sym(b) else z3.BitVecVal(b, w)
            if B.size() != w: B = s.resize(B, w)
            if op.startswith('Shl'): return A << B
            return (A >> B) if signed else z3.LShR(A, B)
        B = b if is_sym(b) else bvval(b, w)
        if B.size() != w:
            raise Unsupported('binop width mismatch %s %s %s' % (op, A.sort(), B.sort()))
        if op == 'Eq': return A == B
        if op == 'Ne': return A != B
        if op == 'Lt': return (A < B) if signed else z3.ULT(A, B)
        if op == 'Le': return (A <= B) if signed else z3.ULE(A, B)
        if op == 'Gt': return (A > B) if signed else z3.UGT(A, B)
        if op == 'Ge': return (A >= B) if signed else z3.UGE(A, B)
        if op in ('Add', 'AddUnchecked'): return A + B
        if op in ('Sub', 'SubUnchecked'): return A - B
        if op in ('Mul', 'MulUnchecked'): return A * B
        if op == 'BitAnd': return A & B
        if op == 'BitOr': return A | B
        if op == 'BitXor': return A ^ B
        if op in ('Div', 'Rem') and is_sym(a) and not is_sym(b) and b != 0 and (abs(b) & (abs(b) - 1)) != 0:
            q, r = s.div_lemma(A, b, w, signed)
            return q if op == 'Div' else r
        if op == 'Div': return (A / B) if signed else z3.UDiv(A, B)
        if op == 'Rem': return z3.SRem(A, B) if signed else z3.URem(A, B)
        if op == 'Cmp':
            lt = (A < B) if signed else z3.ULT(A, B)
            if s.branch(lt): return mk_ordering(-1)
            if s.branch(A == B): return mk_ordering(0)
            return mk_ordering(1)
        raise Unsupported('binop ' + op)

    def div_lemma(s, A, b, w, signed):
        """A / b and A % b for symbolic A and a CONCRETE divisor b that is not a power of two, through the division lemma
        instead of a divider circuit (which the SAT back end cannot reason about): fresh q, r with  A = q*b + r,
        |r| < |b|, r = 0 or sign(r) = sign(A)  -- the unique solution, i.e. exactly the machine operation."""
        cache = s.ghost.setdefault('_divlemma', {})
        ck = (A.get_id(), b, w, signed)
        if ck in cache: return cache[ck][1], cache[ck][2]
        k = len(s.taken)
        q = z3.BitVec('divq%d_%d_%d' % (w, k, s.fresh_n), w); r = z3.BitVec('divr%d_%d_%d' % (w, k, s.fresh_n), w)
        s.fresh_n += 1
        x = abs(b).bit_length() + 2          # extra bits: q*b + r is computed without wrap-around
        if signed:
            e = lambda v: z3.SignExt(x, v)
            Bc = z3.BitVecVal(b, w + x)
            s.assume(z3.And(e(A) == e(q) * Bc + e(r), z3.If(r < 0, -e(r), e(r)) < abs(b), z3.Or(r == 0, (r < 0) == (A < 0))))
        else:
            e = lambda v: z3.ZeroExt(x, v)
            Bc = z3.BitVecVal(b, w + x)
            s.assume(z3.And(e(A) == e(q) * Bc + e(r), z3.ULT(r, z3.BitVecVal(b, w))))
        cache[ck] = (A, q, r)
        return q, r

    def bool_binop(s, op, a, b):
        if not is_sym(a) and not is_sym(b):
            a, b = bool(a), bool(b)
            return {'Eq': a == b, 'Ne': a != b, 'BitAnd': a and b, 'BitOr': a or b, 'BitXor': a != b,
                    'Lt': a < b, 'Le': a <= b, 'Gt': a > b, 'Ge': a >= b}[op]
        A = a if is_sym(a) else z3.BoolVal(bool(a))
        B = b if is_sym(b) else z3.BoolVal(bool(b))
        if op == 'Eq': return A == B
        if op == 'Ne': return A != B
        if op == 'BitAnd': return z3.And(A, B)
        if op == 'BitOr': return z3.Or(A, B)
        if op == 'BitXor': return z3.Xor(A, B)
        raise Unsupported('bool binop ' + op)

    def to_fp(s, x):
        if is_sym(x): return x
        return z3.FPVal(x, z3.Float64())

    def float_binop(s, op, a, b):
        if not is_sym(a) and not is_sym(b):
            import math
            if op == 'Div':
                if b == 0.0:
                    if a == 0.0 or a != a: return float('nan')
                    neg = (math.copysign(1.0, a) < 0) != (math.copysign(1.0, b) < 0)
                    return float('-inf') if neg else float('inf')
                return a / b
            if op == 'Rem':
                if b == 0.0 or a in (float('inf'), float('-inf')) or a != a or b != b: return float('nan')
                if b in (float('inf'), float('-inf')): return a
                return math.fmod(a, b)
            if op == 'Add': return a + b
            if op == 'Sub': return a - b
            if op == 'Mul': return a * b
            return {'Lt': a < b, 'Le': a <= b, 'Gt': a > b, 'Ge': a >= b, 'Eq': a == b, 'Ne': a != b}[op]
        A, B = s.to_fp(a), s.to_fp(b)
        rm = z3.RNE()
        if op == 'Add': return z3.fpAdd(rm, A, B)
        if op == 'Sub': return z3.fpSub(rm, A, B)
        if op == 'Mul': return z3.fpMul(rm, A, B)
        if op == 'Div': return z3.fpDiv(rm, A, B)
        if op == 'Rem':
            if getattr(s.prog, 'opaque_float_math', False):
                s.fresh_n += 1
                return z3.FP('frem_%d_%d' % (len(s.taken), s.fresh_n), z3.Float64())
            raise Unsupported('symbolic float remainder')
        if op == 'Lt': return z3.fpLT(A, B)
        if op == 'Le': return z3.fpLEQ(A, B)
        if op == 'Gt': return z3.fpGT(A, B)
        if op == 'Ge': return z3.fpGEQ(A, B)
        if op == 'Eq': return z3.fpEQ(A, B)
        if op == 'Ne': return z3.Not(z3.fpEQ(A, B))
        raise Unsupported('float binop ' + op)

    def binop_conc(s, op, a, b, w, signed):
        if op == 'Eq': return a == b
        if op == 'Ne': return a != b
        if op == 'Lt': return a < b
        if op == 'Le': return a <= b
        if op == 'Gt': return a > b
        if op == 'Ge': return a >= b
        if op in ('Add', 'AddUnchecked'): return wrap_int(a + b, w, signed)
        if op in ('Sub', 'SubUnchecked'): return wrap_int(a - b, w, signed)
        if op in ('Mul', 'MulUnchecked'): return wrap_int(a * b, w, signed)
        if op == 'BitAnd': return a & b
        if op == 'BitOr': return a | b
        if op == 'BitXor': return a ^ b
        if op == 'Div':
            if b == 0: raise Panic('attempt to divide by zero')
            q = abs(a) // abs(b)
            return wrap_int(-q if (a < 0) != (b < 0) else q, w, signed)
        if op == 'Rem':
            if b == 0: raise Panic('attempt to calculate the remainder with a divisor of zero')
            r = abs(a) % abs(b)
            return -r if a < 0 else r
        if op in ('Shl', 'ShlUnchecked'): return wrap_int(a << (b % w), w, signed)
        if op in ('Shr', 'ShrUnchecked'): return a >> (b % w)
        if op == 'Cmp': return mk_ordering(-1 if a < b else (0 if a == b else 1))
        raise Unsupported('binop ' + op)

    def overflow_op(s, op, a, b, ty):
        w, signed = INT_TYPES[ty]
        if is_sym(a) or is_sym(b):
            A, B = s.to_bv(a, w), s.to_bv(b, w)
            if op == 'Mul':
                ext = (lambda x: z3.SignExt(w, x)) if signed else (lambda x: z3.ZeroExt(w, x))
                R = ext(A) * ext(B)
                lo = z3.Extract(w - 1, 0, R)
                ov = (z3.SignExt(w, lo) != R) if signed else (z3.Extract(2 * w - 1, w, R) != 0)
                return Agg('tuple', None, [lo, z3.simplify(ov)])
            ext = (lambda x: z3.SignExt(1, x)) if signed else (lambda x: z3.ZeroExt(1, x))
            R = ext(A) + ext(B) if op == 'Add' else ext(A) - ext(B)
            lo = z3.Extract(w - 1, 0, R)
            ov = (z3.SignExt(1, lo) != R) if signed else (z3.Extract(w, w, R) != 0)
            return Agg('tuple', None, [lo, z3.simplify(ov)])
        r = {'Add': a + b, 'Sub': a - b, 'Mul': a * b}[op]
        lo, hi = (-(1 << (w - 1)), (1 << (w - 1)) - 1) if signed else (0, (1 << w) - 1)
        return Agg('tuple', None, [wrap_int(r, w, signed), not (lo <= r <= hi)])

    # ------------------------------------------------------------------ types of places / operands
    def place_ty(s, f, p):
        t = getattr(p, '_ty', None) if False else None
        locs = f.local_types()
        t = locs.get(p.local)
        for pr in p.proj:
            k = pr[0]
            if k == 'deref':
                t = strip_ref(t) if t else None
            elif k == 'field':
                t = pr[2]
            elif k in ('index', 'cindex'):
                if t:
                    m = re.match(r'^\[(.*?)(?:; \d+)?\]$', t)
                    t = m.group(1) if m else None
            elif k == 'subslice':
                pass
        return t

    def operand_ty(s, f, o):
        if o[0] == 'const':
            c = o[1]
            if c[0] == 'int': return c[2]
            if c[0] == 'char': return 'char'
            if c[0] == 'bool': return 'bool'
            if c[0] == 'float': return 'f64'
            return None
        return s.place_ty(f, o[1])

    # ------------------------------------------------------------------ places
    def place_ref(s, f, frame, p):
        ref = Ref(frame[p.local])
        for pr in p.proj:
            k = pr[0]
            if isinstance(ref, tuple) and k not in ('index', 'cindex'):
                raise Unsupported('projection %s on a slice place (%s in %s)' % (k, p, f.name))
            if k == 'field':
                ref = Ref(ref.cell, ref.path + (pr[1],))
            elif k == 'deref':
                inner = ref.get()
                if isinstance(inner, Ref):
                    ref = inner
                elif isinstance(inner, Agg) and inner.ty == 'Box':
                    ref = inner.f[0].f[0].f[0]
                elif isinstance(inner, (SliceRef, StrRef)):
                    ref = ('fat', inner)          # later projections (`(*slice)[0 of 2]` of a slice pattern) index into it
                    continue
                else:
                    raise Unsupported('deref of %r (%s in %s)' % (inner, p, f.name))
            elif k == 'downcast':
                pass
            elif k == 'index':
                idx = frame[pr[1]].v
                ref = s.index_ref(ref, idx)
            elif k == 'cindex':
                ref = s.index_ref(ref, pr[1], from_end=pr[2])
            else:
                raise Unsupported('projection ' + k)
        return ref

    def index_ref(s, ref, idx, from_end=False):
        if isinstance(ref, tuple):          # ('fat', SliceRef)
            sl = ref[1]
            n = len(sl)
            if from_end: idx = n - idx
            if is_sym(idx):
                if not s.branch(z3.ULT(idx, n)): raise Panic('index out of bounds')
                idx = s.concretize(idx)
            elif not (0 <= idx < n):
                raise Panic('index out of bounds: the len is %d but the index is %d' % (n, idx))
            return sl.elem(idx)
        lst = ref.get()
        if isinstance(lst, SliceRef):
            return s.index_ref(('fat', lst), idx, from_end)
        n = len(lst)
        if from_end: idx = n - idx
        if is_sym(idx):
            if not s.branch(z3.ULT(idx, n)): raise Panic('index out of bounds')
            idx = s.concretize(idx)
        elif not (0 <= idx < n):
            raise Panic('index out of bounds: the len is %d but the index is %d' % (n, idx))
        return Ref(ref.cell, ref.path + (idx,))

    def load(s, f, frame, p):
        if not p.proj:
            return frame[p.local].v
        r = s.place_ref(f, frame, p)
        if isinstance(r, tuple): return r[1]
        return r.get()

    def store(s, f, frame, p, val):
        if not p.proj:
            frame[p.local].v = val
            return
        r = s.place_ref(f, frame, p)
        if isinstance(r, tuple): raise Unsupported('store to fat place')
        r.set(val)

    def clone(s, v):
        t = type(v)
        if t is Agg:
            return Agg(v.ty, v.var, [s.clone(x) for x in v.f])
        if t is list:
            return [s.clone(x) for x in v]
        return v

    # ------------------------------------------------------------------ operands / rvalues
    def const(s, c):
        k = c[0]
        if k == 'int' or k == 'char' or k == 'bool' or k == 'float': return c[1]
        if k == 'unit': return UNIT
        if k == 'str':
            so = StrObj([(cp, utf8_width(cp)) for cp in c[1]])
            return StrRef(so, 0, len(so.chars))
        if k == 'bytes': return SliceRef(Ref(Cell(list(c[1]))), 0, len(c[1]))
        if k == 'zst': return Agg(c[1], None, [])
        if k == 'cast': return s.const(c[1])
        if k == 'named':
            n = c[1]
            if n in s.prog.consts: return s.const(s.prog.consts[n])
            last = n.split('::')[-1]
            if re.fullmatch(r'[A-Z_][A-Z0-9_]*', last):
                cands = [k for k in s.prog.consts if k.split('::')[-1] == last]
                if len(cands) == 1: return s.const(s.prog.consts[cands[0]])
                fc = [k for k in s.funcs if k.split('::')[-1] == last and not s.funcs[k].params]
                if len(fc) == 1: return s.call(fc[0], [])
            m = re.fullmatch(r'core::num::<impl (\w+)>::(MAX|MIN)', n) or re.fullmatch(r'([iu](?:8|16|32|64|128|size))::(MAX|MIN)', n)
            if m:
                w, sg = INT_TYPES[m.group(1)]
                if m.group(2) == 'MAX': return (1 << (w - sg)) - 1
                return -(1 << (w - 1)) if sg else 0
            m = re.fullmatch(r'(?:core::)?(?:f64|core::f64)::(\w+)', n) or re.fullmatch(r'core::f64::<impl f64>::(\w+)', n)
            if m:
                import sys
                d = {'NAN': float('nan'), 'MAX': sys.float_info.max, 'MIN': -sys.float_info.max, 'INFINITY': float('inf'),
                     'NEG_INFINITY': float('-inf'), 'EPSILON': sys.float_info.epsilon}
                if m.group(1) in d: return d[m.group(1)]
            pm = re.fullmatch(r'(.*)::promoted\[(\d+)\]', n)
            if pm:
                fn = s.prog.promoted_cache.get(n)
                if fn is None:
                    base = norm_callee(pm.group(1))
                    base = re.sub(r'::<[^<>]*(?:<[^<>]*>[^<>]*)*>', '', base)
                    f0 = s.prog.resolve_crate(base)
                    fn = '%s::promoted[%s]' % (f0, pm.group(2)) if f0 else None
                    if fn not in s.funcs:
                        cands = [k for k in s.funcs if k.endswith('::promoted[%s]' % pm.group(2)) and k.rsplit('::', 2)[-2] == base.split('::')[-1]]
                        fn = cands[0] if len(cands) == 1 else None
                    s.prog.promoted_cache[n] = fn or ''
                if not fn: raise Unsupported('promoted constant ' + n)
                return s.call(fn, [])
            return Agg('fnitem', None, [n])
        raise Unsupported('const %r' % (c,))

    def operand(s, f, frame, o):
        k = o[0]
        if k == 'copy':
            return s.clone(s.load(f, frame, o[1]))
        if k == 'move':
            return s.load(f, frame, o[1])
        return s.const(o[1])

    def rvalue(s, f, frame, rv, dest):
        k = rv[0]
        if k == 'use':
            return s.operand(f, frame, rv[1])
        if k == 'ref':
            r = s.place_ref(f, frame, rv[2])
            if isinstance(r, tuple): return r[1]
            # &(*x) where x holds a fat ref stored as value
            v = None
            return r
        if k == 'adt':
            return s.build_adt(f, frame, rv)
        if k == 'discr':
            v = s.load(f, frame, rv[1])
            if isinstance(v, Agg) and v.var is not None: return v.var
            raise Unsupported('discriminant of %r' % (v,))
        if k == 'binop':
            op = rv[1]
            a = s.operand(f, frame, rv[2]); b = s.operand(f, frame, rv[3])
            ty = s.operand_ty(f, rv[2]) or s.operand_ty(f, rv[3]) or 'usize'
            if op.endswith('WithOverflow'):
                return s.overflow_op(op[:-12], a, b, ty)
            if isinstance(a, Agg) or isinstance(b, Agg) or isinstance(a, Ref) or isinstance(b, Ref):
                return s.ptr_binop(op, a, b)
            return s.binop(op, a, b, ty)
        if k == 'unop':
            v = s.operand(f, frame, rv[2])
            ty = s.operand_ty(f, rv[2])
            if ty is None and dest is not None and rv[1] in ('Not', 'Neg'):
                ty = s.place_ty(f, dest)          # a named constant as operand (`-LIMIT`): Neg / Not keep the type of the destination
            if rv[1] == 'Not':
                if isinstance(v, bool): return not v
                if is_sym(v): return z3.Not(v) if z3.is_bool(v) else ~v
                w, sg = INT_TYPES[ty]
                return wrap_int(~v, w, sg)
            if rv[1] == 'Neg':
                if isinstance(v, float): return -v
                if is_sym(v): return z3.fpNeg(v) if z3.is_fp(v) else -v
                w, sg = INT_TYPES[ty]
                return wrap_int(-v, w, sg)
            if rv[1] == 'PtrMetadata':
                if isinstance(v, SliceRef): return len(v)
                if isinstance(v, StrRef): return v.bytelen()
                if isinstance(v, Ref):
                    x = v.get()
                    if isinstance(x, list): return len(x)
                raise Unsupported('PtrMetadata of %r' % (v,))
        if k == 'cast':
            return s.cast(f, frame, rv)
        if k == 'tuple':
            return Agg('tuple', None, [s.operand(f, frame, o) for o in rv[1]])
        if k == 'array':
            return [s.operand(f, frame, o) for o in rv[1]]
        if k == 'repeat':
            v = s.operand(f, frame, rv[1])
            n = int(re.match(r'(?:const )?(\d+)', rv[2]).group(1))
            return [s.clone(v) for _ in range(n)]
        if k == 'closure':
            return Agg(rv[1], None, [s.operand(f, frame, o) for o in rv[2]])
        if k == 'fnptr':
            return Agg('fnitem', None, [rv[1]])
        if k == 'len':
            v = s.load(f, frame, rv[1])
            if isinstance(v, SliceRef): return len(v)
            return len(v)
        raise Unsupported('rvalue ' + k)

    def ptr_binop(s, op, a, b):
        if isinstance(a, Agg) and isinstance(b, Agg) and a.var is not None and not a.f and not b.f:
            return s.binop_conc(op, a.var, b.var, 64, 1)
        if isinstance(a, Ref) and isinstance(b, Ref) and op in ('Eq', 'Ne'):
            return a.same(b) == (op == 'Eq')
        raise Unsupported('binop %s on %r, %r' % (op, a, b))

    def build_adt(s, f, frame, rv):
        path, ops, names = rv[1], rv[2], rv[3]
        fields = [s.operand(f, frame, o) for o in ops]
        key = rv
        info = _ADT_CACHE.get((id(s.prog), path))
        if info is None:
            p = norm_callee(path)
            p = re.sub(r'::<[^<>]*(?:<[^<>]*(?:<[^<>]*>[^<>]*)*>[^<>]*)*>', '', p)
            p = re.sub(r'<[^<>]*(?:<[^<>]*(?:<[^<>]*>[^<>]*)*>[^<>]*)*>$', '', p)
            info = None
            if p in ('Less', 'Equal', 'Greater'):          # std::cmp::Ordering variants are printed without their path
                info = ('Ordering', {'Less': -1, 'Equal': 0, 'Greater': 1}[p])
            elif '::' in p:
                head, _, var = p.rpartition('::')
                en = s.prog.enum_of(head)
                if en is not None and var in s.prog.enums[en]:
                    info = (en.split('::')[-1] if en.split('::')[-1] not in s.prog.ambiguous else en, s.prog.enums[en].index(var))
                    if en == 'Ordering': info = ('Ordering', info[1] - 1)      # discriminants -1, 0, 1
            if info is None:
                en = s.prog.enum_of(p)
                if en is not None and False:
                    pass
                info = (s.prog.short_ty(p), None)
            _ADT_CACHE[(id(s.prog), path)] = info
        return Agg(info[0], info[1], fields)

    def cast(s, f, frame, rv):
        kind, o, ty = rv[1], rv[2], rv[3]
        v = s.operand(f, frame, o)
        src_ty = s.operand_ty(f, o)
        if kind == 'IntToInt':
            if isinstance(v, Agg) and v.var is not None and not v.f:
                v = v.var
            if ty in INT_TYPES:
                dw, dsg = INT_TYPES[ty]
                if isinstance(v, bool): return int(v)
                if is_sym(v):
                    if z3.is_bool(v): return z3.If(v, z3.BitVecVal(1, dw), z3.BitVecVal(0, dw))
                    ssg = INT_TYPES.get(src_ty, (v.size(), 0))[1]
                    return z3.simplify(s.resize(v, dw, ssg))
                return wrap_int(v, dw, dsg)
            raise Unsupported('IntToInt to ' + ty)
        if kind == 'IntToFloat':
            if is_sym(v):
                sg = INT_TYPES.get(src_ty, (64, 1))[1]
                return z3.fpSignedToFP(z3.RNE(), v, z3.Float64()) if sg else z3.fpUnsignedToFP(z3.RNE(), v, z3.Float64())
            return float(v)
        if kind == 'FloatToInt':
            dw, dsg = INT_TYPES[ty]
            lo, hi = (-(1 << (dw - 1)), (1 << (dw - 1)) - 1) if dsg else (0, (1 << dw) - 1)
            if is_sym(v):
                # saturating cast, NaN -> 0
                if s.branch(z3.fpIsNaN(v)): return 0
                lof, hif = z3.FPVal(float(lo), z3.Float64()), z3.FPVal(float(hi), z3.Float64())
                if s.branch(z3.fpLEQ(v, lof)): return lo
                if s.branch(z3.fpGEQ(v, hif)): return hi
                return z3.fpToSBV(z3.RTZ(), v, z3.BitVecSort(dw)) if dsg else z3.fpToUBV(z3.RTZ(), v, z3.BitVecSort(dw))
            if v != v: return 0
            if v <= lo: return lo
            if v >= hi: return hi
            return int(v)
        if kind == 'Transmute':
            if isinstance(v, Agg) and v.ty == 'NonNull': return v.f[0]
            return v
        if kind in ('PointerCoercion', 'PtrToPtr', 'FnPtrToPtr', 'Unsize', 'PointerExposeProvenance', 'PointerWithExposedProvenance'):
            # &[T; N] -> &[T] / &Vec: make slices explicit
            if isinstance(v, Ref) and re.match(r"^&(?:'\w+ )?(?:mut )?\[", ty):
                x = v.get()
                if isinstance(x, list): return SliceRef(v, 0, len(x))
            return v
        raise Unsupported('cast ' + kind)

    # ------------------------------------------------------------------ execution
    def call(s, name, args):
        f = s.funcs.get(name)
        if f is None: raise Unsupported('no MIR for ' + name)
        blocks = f.blocks
        frame = {l: Cell() for l in f.local_types()}
        for (p, _), a in zip(f.params, args):
            frame[p].v = a
        s.depth += 1
        if s.depth > 200: raise StepLimit('call depth > 200 in ' + name)
        bb = 'bb0'
        try:
            while True:
                for st in blocks[bb]:
                    s.steps += 1
                    k = st[0]
                    if k == 'assign':
                        s.store(f, frame, st[1], s.rvalue(f, frame, st[2], st[1]))
                    elif k == 'call':
                        argv = [s.operand(f, frame, a) for a in st[3]]
                        if TRACE_UNSUP:
                            try:
                                r = s.do_call(st[2], argv, f)
                            except Unsupported as e:
                                if not getattr(e, '_noted', False):
                                    e._noted = True
                                    e.args = (('%s  [in %s calling %s]' % (e.args[0] if e.args else '', name[-60:], st[2][:160])),)
                                raise
                        else:
                            r = s.do_call(st[2], argv, f)
                        s.store(f, frame, st[1], r)
                        if st[4] is None: raise Unsupported('call without return edge returned: ' + st[2])
                        bb = st[4]; break
                    elif k == 'goto':
                        bb = st[1]; break
                    elif k == 'switch':
                        bb = s.do_switch(f, frame, st); break
                    elif k == 'return':
                        return frame['_0'].v
                    elif k == 'assert':
                        v = s.operand(f, frame, st[2])
                        if st[1]: v = (not v) if isinstance(v, bool) else z3.Not(v)
                        if not s.overflow_checks and 'overflow' in st[3]:
                            bb = st[4]; break
                        if s.branch(v):
                            bb = st[4]; break
                        raise Panic(st[3], 'overflow' if 'overflow' in st[3] else 'assert')
                    elif k == 'drop':
                        s.do_drop(f, frame, st[1])
                        bb = st[2]; break
                    elif k == 'nop':
                        pass
                    elif k == 'callptr':
                        fn = s.operand(f, frame, st[2])
                        argv = [s.operand(f, frame, a) for a in st[3]]
                        r = s.call_value(fn, argv)
                        s.store(f, frame, st[1], r)
                        bb = st[4]; break
                    elif k == 'unreachable':
                        raise Unsupported('reached `unreachable` in ' + name)
                    elif k == 'setdiscr':
                        v = s.load(f, frame, st[1]); v.var = st[2]
                    elif k == 'unparsed':
                        raise Unsupported('unparsed MIR: ' + st[1])
                    else:
                        raise Unsupported('stmt ' + k)
                if s.steps > s.STEP_LIMIT:
                    raise StepLimit('step budget exceeded in ' + name)
        finally:
            s.depth -= 1

    def do_switch(s, f, frame, st):
        v = s.operand(f, frame, st[1])
        if isinstance(v, bool): v = int(v)
        if is_sym(v):
            if z3.is_bool(v):
                for val, bb in st[2]:
                    if s.branch(v if val else z3.Not(v)): return bb
                return st[3]
            return s.switch_sym(v, st[2], st[3])
        if v < 0:
            ty = s.operand_ty(f, st[1])
            w = INT_TYPES.get(ty, (64, 1))[0]
            v &= (1 << w) - 1
        for val, bb in st[2]:
            if v == val: return bb
        if st[3] is None: raise Unsupported('switch fallthrough')
        return st[3]

    def switch_sym(s, v, targets, other):
        """multi-way branch on a symbolic integer: ONE decision (index of the target taken; len(targets) = otherwise)"""
        w = v.size()
        k = len(s.taken)
        n = len(targets)
        if k < len(s.decisions):
            d = s.decisions[k]
            s.taken.append(d)
            ck = (v.get_id(), id(targets), d)
            c = _SWCACHE.get(ck)
            if c is None:
                if d < n: c = v == bvval(targets[d][0], w)
                else: c = z3.And([v != bvval(val, w) for val, _ in targets])
                _SWCACHE[ck] = c
                _SWKEEP.append(v)
            s._event((k, d), c)
            return targets[d][1] if d < n else other
        s._flush()
        feas = []
        saved = s.model
        for i, (val, bb) in enumerate(targets):
            c = v == bvval(val, w)
            ms = s._model_says(c)
            if ms is True or (s.check(c)):
                feas.append(i)
            s.model = saved
        if other is not None:
            c = z3.And([v != bvval(val, w) for val, _ in targets])
            ms = s._model_says(c)
            if ms is True or s.check(c):
                feas.append(n)
            s.model = saved
        if not feas: raise Infeasible()
        for alt in reversed(feas[1:]):
            s.pending.append(s.taken + [alt])
        d = feas[0]
        s.taken.append(d)
        if d < n:
            c = v == bvval(targets[d][0], w)
            bb = targets[d][1]
        else:
            c = z3.And([v != bvval(val, w) for val, _ in targets]); bb = other
        s._assert_now((k, d), c)
        if s.model is not None and s._model_says(c) is not True: s.model = None
        return bb

    def do_drop(s, f, frame, p):
        try:
            v = s.load(f, frame, p)
        except Exception:
            return
        if isinstance(v, Agg) and v.ty in ('BorrowRef', 'BorrowRefMut'):
            rc = v.f[1].get()
            if v.ty == 'BorrowRef': rc.f[1] -= 1
            else: rc.f[1] = 0

    def call_value(s, fn, args):
        if isinstance(fn, Agg) and fn.ty == 'fnitem':
            name = fn.f[0]
            if s.prog.resolve_cache.get(name) is None and re.fullmatch(r'[\w:]+', name) and s.resolve(name)[0] == 'none':
                # a function item named by its full module path (`vm::builtin::procedure::apply`): the MIR names functions by a
                # shorter path; take the longest suffix that resolves
                parts = name.split('::')
                for i in range(1, len(parts)):
                    ent = s.resolve('::'.join(parts[i:]))
                    if ent[0] != 'none':
                        s.prog.resolve_cache[name] = ent
                        break
            return s.do_call(name, args, None)
        if isinstance(fn, Agg) and fn.ty.startswith('{closure@'):
            return s.call_closure(fn, args)
        raise Unsupported('call through %r' % (fn,))

    def call_closure(s, clo, args, by_ref=None):
        """args: the closure's argument tuple elements"""
        if isinstance(clo, Ref): clo = clo.get()
        if isinstance(clo, Agg) and clo.ty == 'fnitem':
            return s.do_call(clo.f[0], list(args), None)
        ent = s.prog.closure_index.get(clo.ty)
        if ent is None: raise Unsupported('closure ' + clo.ty)
        name, takes_ref = ent
        first = Ref(Cell(clo)) if takes_ref else clo
        return s.call(name, [first] + list(args))

    def do_call(s, callee, args, caller):
        prog = s.prog
        ent = prog.resolve_cache.get(callee)
        if ent is None:
            ent = s.resolve(callee)
            prog.resolve_cache[callee] = ent
        kind = ent[0]
        if kind == 'mir':
            name = ent[1]
            if name in prog.pure and any(is_sym(x) for x in args):
                return s.summary(name, args)
            if name in prog.memo_str:
                a0 = args[0]
                key = (name, id(a0.obj), a0.a, a0.b, len(a0.obj.chars))
                memo = s.ghost.setdefault('_memo', {})
                if key in memo:
                    r = s.clone(memo[key])
                else:
                    r = s.call(name, args)
                    memo[key] = s.clone(r)
                obs = prog.observers.get(name)
                if obs is not None: obs(s, args, r)
                return r
            obs = prog.observers.get(name) if prog.observers else None
            if obs is not None:
                r = s.call(name, args)
                obs(s, args, r)
                return r
            return s.call(name, args)
        if kind == 'model':
            return ent[1](s, ent[2], args)
        if kind == 'mir_deref':
            a2 = []
            for x in args:
                for _ in range(ent[2]):
                    if isinstance(x, Ref) and isinstance(x.get(), Ref): x = x.get()
                a2.append(x)
            return s.call(ent[1], a2)
        if kind == 'dyn':
            return s.dyn_dispatch(ent[1], ent[2], args)
        raise Unsupported('call ' + callee)

    def resolve(s, callee):
        c = norm_callee(callee)
        prog = s.prog
        h = prog.exact.get(c)
        if h is not None: return ('model', h, None)
        for rx, h in prog.models:
            m = rx.fullmatch(c)
            if m: return ('model', h, m)
        prog.last_autoderef = 0
        name = prog.resolve_crate(c)
        if name:
            if prog.last_autoderef: return ('mir_deref', name, prog.last_autoderef)
            return ('mir', name)
        m = re.fullmatch(r'<(T|Self|&T|U|impl [^>]*?) as (.+)>::(\w+)', c)
        if m: return ('dyn', re.sub(r'\s', '', m.group(2)), m.group(3))
        return ('none',)

    def dyn_dispatch(s, trait, meth, args):
        """generic callee `<T as Trait>::m`: resolve on the run-time type tag of the receiver"""
        v0 = args[0]
        is_ref = isinstance(v0, Ref)
        v = v0
        while isinstance(v, Ref): v = v.get()
        ty = s.type_tag(v)
        h = s.prog.dyn_models.get((trait, meth)) if hasattr(s.prog, 'dyn_models') else None
        if h is not None:
            r = h(s, ty, args)
            if r is not NotImplemented: return r
        m = re.match(r'Into<(.*)>$', trait)
        if m and meth == 'into':
            tgt = s.prog.short_ty(m.group(1))
            cands = []
            if is_ref: cands.append('<%s as From<&%s>>::from' % (tgt, ty))
            else: cands.append('<%s as From<%s>>::from' % (tgt, ty))
            for k in cands:
                if k in s.prog.index: return s.call(s.prog.index[k], args)
            if tgt == ty and not is_ref: return v0
            if tgt == 'Vec' and ty == 'list': return v0
            if tgt == 'BigInt' and ty == 'Big' and not is_ref: return v0
            if tgt == 'String' and ty in ('&str', 'String'):
                from .models_core import as_str
                return StrObj(list(as_str(s, v0).chars()))
            if tgt == 'Cow': return Agg('Cow', 0 if is_ref else 1, [v0])
            if ty in ('int', 'bool') and tgt in INT_TYPES: return v0
        name = s.prog.resolve_crate('<%s%s as %s>::%s' % ('&' if is_ref else '', ty, trait, meth))
        if name: return s.call(name, args)
        if is_ref:
            name = s.prog.resolve_crate('<%s as %s>::%s' % (ty, trait, meth))
            if name: return s.call(name, args)
        raise Unsupported('dyn call <%s%s as %s>::%s' % ('&' if is_ref else '', ty, trait, meth))

    def type_tag(s, v):
        if isinstance(v, Agg): return v.ty
        if isinstance(v, bool): return 'bool'
        if isinstance(v, StrRef): return '&str'
        if isinstance(v, StrObj): return 'String'
        if isinstance(v, float): return 'f64'
        return type(v).__name__

    # ------------------------------------------------------------------ pure-predicate summaries
    def summary(s, name, args):
        key = (name, tuple(x.sexpr() if is_sym(x) else repr(x) for x in args))
        cache = s.prog.sumcache
        if key in cache: return cache[key]
        work = [[]]; res = []
        while work:
            dec = work.pop()
            sub = Interp(s.prog, dec)
            sub.overflow_checks = s.overflow_checks
            try:
                r = sub.call(name, args)
                sub._flush()
                pc = z3.And(list(sub.pc) + [z3.BoolVal(True)])
                res.append((pc, r))
            except Infeasible:
                pass
            work.extend(sub.pending)
            s.steps += sub.steps; s.solver_calls += sub.solver_calls; s.solver_time += sub.solver_time
        out = z3.BoolVal(False)
        for pc, r in res:
            rb = r if is_sym(r) else z3.BoolVal(bool(r))
            out = z3.Or(out, z3.And(pc, rb))
        out = z3.simplify(out)
        cache[key] = out
        return out


_ADT_CACHE = {}
_SHARED = {}
_SWCACHE = {}
_SWKEEP = []     # keeps keyed terms alive so ast ids are not recycled
_BVVAL = {}


def bvval(v, w):
    k = (v, w)
    r = _BVVAL.get(k)
    if r is None:
        r = _BVVAL[k] = z3.BitVecVal(v, w)
    return r
