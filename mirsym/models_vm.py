"""Models needed by the VM / builtin layer: HashMap with concrete keys, num-traits primitive conversions,
lazy_static, a few f64 methods."""
import re, math
import z3
from .values import *
from .models_core import deref, as_str, conc_str, VecIntoIter, mk_box, iter_next


class HMap:
    """HashMap / HashSet with concrete keys (python int / str); values live in Cells so &V / &mut V work"""
    def __init__(s):
        s.d = {}
    def __repr__(s):
        return 'HMap(%r)' % ({k: c.v for k, c in s.d.items()},)


def hkey(it, k):
    k = deref(k)
    if isinstance(k, (StrRef, StrObj)):
        t = conc_str(as_str(it, k).chars())
        if t is None: raise Unsupported('HashMap key: symbolic string')
        return t
    if is_sym(k): return it.concretize(k)
    if isinstance(k, int): return k
    if isinstance(k, Agg) and k.var is not None and not k.f: return (k.ty, k.var)
    if isinstance(k, Agg) and k.var is not None and len(k.f) == 1 and isinstance(k.f[0], (StrRef, StrObj)):
        t = conc_str(as_str(it, k.f[0]).chars())            # an enum variant carrying a string (Cell::Symbol as a set element)
        if t is None: raise Unsupported('HashMap key: symbolic string')
        return (k.ty, k.var, t)
    raise Unsupported('HashMap key %r' % (k,))


def key_value(it, k, sample):
    """turn a dict key back into a run-time value"""
    if isinstance(k, str): return mkstr(k)
    if isinstance(k, tuple) and len(k) == 3: return Agg(k[0], k[1], [mkstr(k[2])])
    if isinstance(k, tuple): return Agg(k[0], k[1], [])
    return k


def install(prog):
    M = prog.model
    # marwood's own iterators over Cell lists run from their MIR, not through the generic iterator models
    for _c in ('<cell::IntoIter as Iterator>::next', '<cell::Iter as Iterator>::next', '<&cell::Cell as IntoIterator>::into_iter', '<cell::Cell as IntoIterator>::into_iter',
               '<IntoIter as Iterator>::next'):
        _fn = prog.resolve_crate(_c)
        if 'IntoIterator' in _c:
            # `impl IntoIterator for &'a Cell` and `impl IntoIterator for Cell`: told apart by the parameter type, never guessed
            byref = _c.startswith('<&')
            _cands = [k for k, f in prog.funcs.items() if k.startswith('cell::<impl at') and k.endswith('::into_iter')
                      and str(f.local_types().get('_1', '')).startswith('&') == byref]
            _fn = _cands[0] if len(_cands) == 1 else None
        if _fn: prog.exact[_c] = (lambda fn: lambda it, m, a: it.call(fn, a))(_fn)

    @M(r'HashMap::<.*>::new|HashSet::<.*>::new|<HashMap<.*> as Default>::default|HashMap::<.*>::with_capacity')
    def _(it, m, a): return HMap()

    @M(r'HashMap::<.*>::get::<.*>')
    def _(it, m, a):
        h = deref(a[0]); k = hkey(it, a[1])
        c = h.d.get(k)
        return mk_none() if c is None else mk_some(Ref(c))

    @M(r'HashMap::<.*>::get_mut::<.*>')
    def _(it, m, a):
        h = deref(a[0]); k = hkey(it, a[1])
        c = h.d.get(k)
        return mk_none() if c is None else mk_some(Ref(c))

    @M(r'HashMap::<.*>::contains_key::<.*>|HashSet::<.*>::contains::<.*>')
    def _(it, m, a): return hkey(it, a[1]) in deref(a[0]).d

    @M(r'HashMap::<.*>::insert')
    def _(it, m, a):
        h = deref(a[0]); k = hkey(it, a[1])
        old = h.d.get(k)
        h.d[k] = Cell(a[2])
        return mk_none() if old is None else mk_some(old.v)

    @M(r'HashSet::<.*>::insert')
    def _(it, m, a):
        h = deref(a[0]); k = hkey(it, a[1])
        new = k not in h.d
        if new: h.d[k] = Cell(('elem', a[1]))          # the element itself is kept for iteration (sets of references)
        return new

    @M(r'HashSet::<.*>::iter|<&HashSet<.*> as IntoIterator>::into_iter')
    def _(it, m, a):
        h = deref(a[0])
        out = []
        for k, c in h.d.items():
            e = c.v[1] if isinstance(c.v, tuple) and c.v[0] == 'elem' else key_value(it, k, None)
            out.append(Ref(Cell(e)))
        return VecIntoIter(out)          # iteration order: insertion order (the real order is unspecified)

    @M(r'HashMap::<.*>::remove::<.*>')
    def _(it, m, a):
        h = deref(a[0]); k = hkey(it, a[1])
        c = h.d.pop(k, None)
        return mk_none() if c is None else mk_some(c.v)

    @M(r'HashMap::<.*>::len|HashSet::<.*>::len')
    def _(it, m, a): return len(deref(a[0]).d)

    @M(r'HashMap::<.*>::is_empty')
    def _(it, m, a): return len(deref(a[0]).d) == 0

    @M(r'HashMap::<.*>::keys')
    def _(it, m, a):
        h = deref(a[0])
        return VecIntoIter([Ref(Cell(key_value(it, k, None))) for k in h.d])

    @M(r'HashMap::<.*>::values')
    def _(it, m, a):
        h = deref(a[0])
        return VecIntoIter([Ref(c) for c in h.d.values()])

    @M(r'HashMap::<.*>::iter')
    def _(it, m, a):
        h = deref(a[0])
        return VecIntoIter([Agg('tuple', None, [Ref(Cell(key_value(it, k, None))), Ref(c)]) for k, c in h.d.items()])

    @M(r'<HashSet<.*> as From<\[.*; \d+\]>>::from')
    def _(it, m, a):
        h = HMap()
        for x in a[0]: h.d[hkey(it, x)] = Cell(UNIT)
        return h

    @M(r'<([A-Z][A-Z0-9_]*) as Deref>::deref')
    def _(it, m, a):
        # a lazy_static declared inside a function: its Deref impl is named after the span in the lazy_static crate; find it by its argument type
        name = m.group(1)
        memo = prog.__dict__.setdefault('_lazy_deref', {})
        fn = memo.get(name)
        if fn is None:
            cands = [k for k, f in prog.funcs.items() if k.endswith('::deref') and 'lazy_static' in k and str(f.local_types().get('_1', '')).lstrip('&').split('::')[-1] == name]
            if len(cands) != 1: raise Unsupported('lazy_static deref of %s: %d candidates' % (name, len(cands)))
            fn = memo[name] = cands[0] + '::__static_ref_initialize'
            if fn not in prog.funcs: raise Unsupported('lazy_static initializer of %s' % name)
        lz = it.ghost.setdefault('_lazy', {})
        if fn not in lz: lz[fn] = Ref(Cell(it.call(fn, [])))       # initialised once per path, like Lazy::get
        return lz[fn]

    @M(r'lazy_static::lazy::Lazy::<.*>::get::<.*>')
    def _(it, m, a):
        key = m.group(0)
        memo = it.ghost.setdefault('_lazy', {})
        if key not in memo:
            memo[key] = Ref(Cell(it.call_value(a[1], [])))
        return memo[key]

    # ---- num_traits::ToPrimitive on primitive integers -----------------------------------------
    @M(r'<(i8|i16|i32|i64|isize|u8|u16|u32|u64|usize) as (?:num::|num_traits::)?ToPrimitive>::to_(usize|u64|i64|u32|i32|u8|i8|u16|i16|isize|i128|u128)')
    def _(it, m, a):
        v = deref(a[0])
        sw, ssig = INT_TYPES[m.group(1)]; dw, dsig = INT_TYPES[m.group(2)]
        lo, hi = (-(1 << (dw - 1)), (1 << (dw - 1)) - 1) if dsig else (0, (1 << dw) - 1)
        if not is_sym(v):
            return mk_some(v) if lo <= v <= hi else mk_none()
        slo, shi = (-(1 << (sw - 1)), (1 << (sw - 1)) - 1) if ssig else (0, (1 << sw) - 1)
        conds = []
        if lo > slo: conds.append(v >= lo if ssig else z3.UGE(v, lo))
        if hi < shi: conds.append(v <= hi if ssig else z3.ULE(v, hi))
        fits = z3.And(conds) if conds else True
        if it.branch(fits):
            return mk_some(z3.simplify(it.resize(v, dw, ssig)))
        return mk_none()

    @M(r'<(i8|i16|i32|i64|isize|u8|u16|u32|u64|usize) as (?:num::|num_traits::)?ToPrimitive>::to_f64')
    def _(it, m, a):
        v = deref(a[0]); sg = INT_TYPES[m.group(1)][1]
        if not is_sym(v): return mk_some(float(v))
        return mk_some(z3.fpSignedToFP(z3.RNE(), v, z3.Float64()) if sg else z3.fpUnsignedToFP(z3.RNE(), v, z3.Float64()))

    @M(r'<(usize|u64|u32|i32|i64) as TryFrom<(usize|u64|u32|i32|i64)>>::try_from|<(usize|u64|u32|i32|i64) as TryInto<(usize|u64|u32|i32|i64)>>::try_into')
    def _(it, m, a):
        g = m.groups()
        dst, src = (g[0], g[1]) if g[0] else (g[3], g[2])
        v = a[0]
        sw, ssig = INT_TYPES[src]; dw, dsig = INT_TYPES[dst]
        lo, hi = (-(1 << (dw - 1)), (1 << (dw - 1)) - 1) if dsig else (0, (1 << dw) - 1)
        if not is_sym(v):
            return mk_ok(v) if lo <= v <= hi else mk_err(Agg('TryFromIntError', None, []))
        slo, shi = (-(1 << (sw - 1)), (1 << (sw - 1)) - 1) if ssig else (0, (1 << sw) - 1)
        conds = []
        if lo > slo: conds.append(v >= lo if ssig else z3.UGE(v, lo))
        if hi < shi: conds.append(v <= hi if ssig else z3.ULE(v, hi))
        if it.branch(z3.And(conds) if conds else True): return mk_ok(z3.simplify(it.resize(v, dw, ssig)))
        return mk_err(Agg('TryFromIntError', None, []))

    @M(r'<(u8|u16|u32|u64|usize|i8|i16|i32|i64|isize|bool|char) as Into<(u8|u16|u32|u64|usize|i8|i16|i32|i64|isize|u128|i128)>>::into|<(u8|u16|u32|u64|usize|i8|i16|i32|i64|isize|u128|i128) as From<(u8|u16|u32|u64|usize|i8|i16|i32|i64|isize|bool|char)>>::from')
    def _(it, m, a):
        g = m.groups()
        src, dst = (g[0], g[1]) if g[0] else (g[3], g[2])
        v = a[0]
        if isinstance(v, bool): return int(v)
        if not is_sym(v): return v
        if z3.is_bool(v): return z3.If(v, z3.BitVecVal(1, INT_TYPES[dst][0]), z3.BitVecVal(0, INT_TYPES[dst][0]))
        return z3.simplify(it.resize(v, INT_TYPES[dst][0], INT_TYPES[src][1]))

    @M(r'<f64 as (?:num::|num_traits::)?ToPrimitive>::to_(usize|u64|i64|u32|i32|u8|i8|u16|i16|isize|i128|u128)')
    def _(it, m, a):
        """num-traits float -> int: Some(trunc(x)) iff  MIN-1 < x < MAX+1 (NaN -> None)"""
        x = deref(a[0]); dw, dsig = INT_TYPES[m.group(1)]
        lo, hi = (-(1 << (dw - 1)), (1 << (dw - 1)) - 1) if dsig else (0, (1 << dw) - 1)
        if not is_sym(x):
            if x != x or x in (float('inf'), float('-inf')): return mk_none()
            if x > float(lo) - 1.0 and x < float(hi + 1): return mk_some(int(x))
            # float(lo) - 1.0 rounds for 64-bit types: follow num-traits (MIN - 1 is not exactly representable -> >= MIN)
            if dsig and dw >= 64 and x >= float(lo) and x < float(hi + 1): return mk_some(int(x))
            return mk_none()
        F = z3.Float64()
        lof = z3.FPVal(float(lo) - 1.0, F) if dw < 54 else z3.FPVal(float(lo), F)
        ok = z3.And(z3.Not(z3.fpIsNaN(x)), (z3.fpGT(x, lof) if dw < 54 or not dsig else z3.fpGEQ(x, lof)) if (dsig or True) else True,
                    z3.fpLT(x, z3.FPVal(float(hi + 1), F)))
        if not dsig:
            ok = z3.And(z3.Not(z3.fpIsNaN(x)), z3.fpGT(x, z3.FPVal(-1.0, F)), z3.fpLT(x, z3.FPVal(float(hi + 1), F)))
        if not it.branch(ok): return mk_none()
        return mk_some(z3.fpToSBV(z3.RTZ(), x, z3.BitVecSort(dw)) if dsig else z3.fpToUBV(z3.RTZ(), x, z3.BitVecSort(dw)))

    @M(r'<(i8|i16|i32|i64|isize|u8|u16|u32|u64|usize) as (?:num::|num_traits::)?Checked(Add|Sub|Mul)>::checked_\w+')
    def _(it, m, a):
        r = it.overflow_op(m.group(2), deref(a[0]), deref(a[1]), m.group(1))
        if it.branch(r.f[1]): return mk_none()
        return mk_some(r.f[0])

    @M(r'<(i8|i16|i32|i64|isize|u8|u16|u32|u64|usize) as (?:num::|num_traits::)?Checked(Div|Rem)>::checked_\w+')
    def _(it, m, a):
        ty = m.group(1); w, sg = INT_TYPES[ty]
        x, y = deref(a[0]), deref(a[1])
        if it.branch(it.binop('Eq', y, 0, ty)): return mk_none()
        if sg and it.branch(it.binop('Eq', x, -(1 << (w - 1)), ty)) and it.branch(it.binop('Eq', y, -1, ty)): return mk_none()
        return mk_some(it.binop(m.group(2), x, y, ty))

    # ---- f64 -------------------------------------------------------------------------------------
    @M(r'(?:std|core)::f64::<impl f64>::(powf|powi|exp|ln|sin|cos|tan|asin|acos|atan|atan2|log|log2|log10)')
    def _(it, m, a):
        # libm transcendental: an arbitrary double (the claim never depends on its value)
        it.fresh_n += 1
        return z3.FP('libm_%s_%d_%d' % (m.group(1), len(it.taken), it.fresh_n), z3.Float64())

    @M(r'<f64 as (?:num::|num_traits::)?FloatConst>::(E|PI|LN_2|LN_10|SQRT_2)')
    def _(it, m, a): return {'E': math.e, 'PI': math.pi, 'LN_2': math.log(2), 'LN_10': math.log(10), 'SQRT_2': math.sqrt(2)}[m.group(1)]

    @M(r'(?:std|core)::f64::<impl f64>::(floor|ceil|trunc|round|abs|fract|sqrt|is_nan|is_finite|is_infinite|is_sign_negative|is_sign_positive)')
    def _(it, m, a):
        x = a[0]; k = m.group(1)
        if k == 'sqrt' and is_sym(x) and getattr(it.prog, 'opaque_float_math', False):
            it.fresh_n += 1
            return z3.FP('sqrt_%d_%d' % (len(it.taken), it.fresh_n), z3.Float64())
        if not is_sym(x):
            if k == 'is_nan': return x != x
            if k == 'is_finite': return not (x != x or x in (float('inf'), float('-inf')))
            if k == 'is_infinite': return x in (float('inf'), float('-inf'))
            if k == 'is_sign_negative': return math.copysign(1.0, x) < 0
            if k == 'is_sign_positive': return math.copysign(1.0, x) > 0
            if x != x or x in (float('inf'), float('-inf')):
                if k == 'fract': return float('nan') if x != x or abs(x) == float('inf') else 0.0
                return abs(x) if k == 'abs' else (x if k != 'sqrt' or x > 0 else float('nan'))
            if k == 'floor': return float(math.floor(x)) if x != 0 else x
            if k == 'ceil':
                r = float(math.ceil(x))
                return -0.0 if r == 0 and x < 0 else r
            if k == 'trunc':
                r = float(math.trunc(x))
                return -0.0 if r == 0 and (x < 0 or math.copysign(1.0, x) < 0) else r
            if k == 'round':
                r = math.floor(abs(x) + 0.5)
                return math.copysign(float(r), x)
            if k == 'abs': return abs(x)
            if k == 'fract': return x - float(math.trunc(x))
            if k == 'sqrt': return math.sqrt(x) if x >= 0 else float('nan')
        if k == 'is_nan': return z3.fpIsNaN(x)
        if k == 'is_finite': return z3.Not(z3.Or(z3.fpIsNaN(x), z3.fpIsInf(x)))
        if k == 'is_infinite': return z3.fpIsInf(x)
        if k == 'is_sign_negative': return z3.fpIsNegative(x)
        if k == 'is_sign_positive': return z3.fpIsPositive(x)
        if k == 'floor': return z3.fpRoundToIntegral(z3.RTN(), x)
        if k == 'ceil': return z3.fpRoundToIntegral(z3.RTP(), x)
        if k == 'trunc': return z3.fpRoundToIntegral(z3.RTZ(), x)
        if k == 'round': return z3.fpRoundToIntegral(z3.RNA(), x)
        if k == 'abs': return z3.fpAbs(x)
        if k == 'fract': return z3.fpSub(z3.RNE(), x, z3.fpRoundToIntegral(z3.RTZ(), x))
        if k == 'sqrt': return z3.fpSqrt(z3.RNE(), x)
        raise Unsupported('f64::' + k)

    @M(r'<&*f64 as (Add|Sub|Mul|Div|Rem)(?:<&*f64>)?>::(?:add|sub|mul|div|rem)')
    def _(it, m, a): return it.binop(m.group(1), deref(a[0]), deref(a[1]), 'f64')

    @M(r'<&*f64 as Neg>::neg')
    def _(it, m, a): return it.unop('Neg', deref(a[0]), 'f64') if hasattr(it, 'unop') else it.binop('Sub', -0.0, deref(a[0]), 'f64')

    @M(r'<f64 as (?:num::|num_traits::)?Signed>::(abs|is_negative|is_positive)')
    def _(it, m, a):
        x = deref(a[0]); k = m.group(1)
        if not is_sym(x):
            if k == 'abs': return abs(x)
            return (x < 0 or (x == 0 and math.copysign(1, x) < 0)) if k == 'is_negative' else (x > 0 or (x == 0 and math.copysign(1, x) > 0))
        if k == 'abs': return z3.fpAbs(x)
        return z3.fpIsNegative(x) if k == 'is_negative' else z3.fpIsPositive(x)

    @M(r'<f64 as (?:num::|num_traits::)?(?:Zero|identities::Zero)>::is_zero')
    def _(it, m, a):
        x = deref(a[0])
        return x == 0 if not is_sym(x) else z3.fpIsZero(x)

    @M(r'<&*f64 as PartialEq(?:<&*f64>)?>::(eq|ne)')
    def _(it, m, a):
        r = it.float_binop('Eq', deref(a[0]), deref(a[1]))
        if m.group(1) == 'eq': return r
        return (not r) if isinstance(r, bool) else z3.Not(r)

    @M(r'<&*f64 as PartialOrd(?:<&*f64>)?>::(lt|le|gt|ge)')
    def _(it, m, a): return it.float_binop(m.group(1).capitalize(), deref(a[0]), deref(a[1]))
