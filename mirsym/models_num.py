"""Models of the numeric dependencies of number.rs: num-bigint's BigInt and num-rational's Ratio<i32>.

BigInt  -> `Big`: a signed bit-vector of BW = 192 bits (python int when concrete).  Harnesses bound symbolic bignums to
           |x| <= 2^66, so sums, differences and products of two operands are exact in 192 bits (no wrap-around can
           occur inside the bound; every model asserts that by construction of the bound).  Keeping bignums in the
           bit-vector theory (instead of z3 Int) keeps every query inside QF_BV + FP, which z3 decides quickly.
Ratio   -> Agg('Ratio', None, [numer, denom]) of 32-bit vectors with num-rational 0.4.1's published algorithms
           transcribed operation by operation (new/reduce, checked_add/sub/mul/div with their gcd pre-reductions and
           every intermediate checked_mul, exact cmp, floor/ceil/round/trunc, to_f64 as one correctly rounded division).
           gcd(x, c) needs one concrete side: it is encoded as a case split over the divisors of c.
These two models are dependencies, not marwood code; they are validated against the real libraries on every run.
"""
import re, math
from fractions import Fraction
import z3
from .values import *
from .models_core import deref, deref1, VecIntoIter, mk_box

BW = 192


class Big:
    __slots__ = ('v',)
    def __init__(s, v): s.v = v
    def __repr__(s): return 'Big(%s)' % (s.v,)


def big_bv(x):
    v = x.v if isinstance(x, Big) else x
    if is_sym(v): return v
    return z3.BitVecVal(v, BW)


def sext(v, w_from, w_to=BW):
    if is_sym(v): return z3.SignExt(w_to - v.size(), v) if v.size() < w_to else v
    return v


def to_big(it, v, ty):
    """integer run-time value of primitive type ty -> Big"""
    v = deref(v)
    if isinstance(v, Big): return v
    w, sg = INT_TYPES[ty]
    if is_sym(v):
        return Big(z3.SignExt(BW - w, v) if sg else z3.ZeroExt(BW - w, v))
    return Big(v)


def big_op(it, op, a, b):
    x, y = a.v, b.v
    if not is_sym(x) and not is_sym(y):
        if op == 'Add': return Big(x + y)
        if op == 'Sub': return Big(x - y)
        if op == 'Mul': return Big(x * y)
        if op in ('Div', 'Rem'):
            if y == 0: raise Panic('attempt to divide by zero (BigInt)', 'div-zero')
            q = abs(x) // abs(y)
            if (x < 0) != (y < 0): q = -q
            return Big(q) if op == 'Div' else Big(x - q * y)
    X, Y = big_bv(x), big_bv(y)
    if op == 'Add': return Big(X + Y)
    if op == 'Sub': return Big(X - Y)
    if op == 'Mul': return Big(wide_mul(X, Y))
    if op in ('Div', 'Rem'):
        if not is_sym(y):
            if y == 0: raise Panic('attempt to divide by zero (BigInt)', 'div-zero')
            if abs(y) & (abs(y) - 1) != 0:
                q, r = it.div_lemma(X, y, BW, True)
                return Big(q if op == 'Div' else r)
        elif it.branch(Y == 0): raise Panic('attempt to divide by zero (BigInt)', 'div-zero')
        return Big(X / Y) if op == 'Div' else Big(z3.SRem(X, Y))
    raise Unsupported('BigInt op ' + op)


def narrow(v):
    """(inner, width) if v is a sign extension of a narrower vector, else (v, v.size())"""
    if is_sym(v) and z3.is_app_of(v, z3.Z3_OP_SIGN_EXT):
        inner = v.arg(0)
        return inner, inner.size()
    return v, v.size()


def wide_mul(X, Y, W=BW):
    """X * Y for W-bit vectors; when both are sign extensions of narrow values the product is formed at the narrowest
    sufficient width and sign-extended (the same term shape as the checked_mul model), which keeps equal values
    syntactically equal for the solver"""
    (x, wx), (y, wy) = narrow(X), narrow(Y)
    if wx + wy < W and (wx < X.size() or wy < Y.size()):
        w = wx + wy if wx == wy else max(wx, wy) * 2
        if w < W:
            p = z3.SignExt(w - wx, x) * z3.SignExt(w - wy, y)
            return z3.SignExt(W - w, p)
    return X * Y


def big_cmp(it, a, b):
    x, y = a.v, b.v
    if not is_sym(x) and not is_sym(y):
        return -1 if x < y else (0 if x == y else 1)
    X, Y = big_bv(x), big_bv(y)
    if it.branch(X < Y): return -1
    if it.branch(X == Y): return 0
    return 1


def big_to_f64(it, a):
    """correctly rounded conversion (assumption about num-bigint, stated in the evidence)"""
    x = a.v
    if not is_sym(x):
        try:
            return float(x) if abs(x) < (1 << 1023) else (float('inf') if x > 0 else float('-inf'))
        except OverflowError:
            return float('inf') if x > 0 else float('-inf')
    # converting a 192-bit vector is expensive to bit-blast: use the narrowest width the path condition allows
    for w in (72, 136):
        if it.must(z3.And(x >= -(1 << (w - 2)), x < (1 << (w - 2)))):
            return z3.fpSignedToFP(z3.RNE(), z3.Extract(w - 1, 0, x), z3.Float64())
    return z3.fpSignedToFP(z3.RNE(), x, z3.Float64())


def big_fits(it, a, ty):
    """Some(value as ty) / None"""
    w, sg = INT_TYPES[ty]
    lo, hi = (-(1 << (w - 1)), (1 << (w - 1)) - 1) if sg else (0, (1 << w) - 1)
    x = a.v
    if not is_sym(x):
        return mk_some(x) if lo <= x <= hi else mk_none()
    if it.branch(z3.And(x >= lo, x <= hi)): return mk_some(z3.Extract(w - 1, 0, x))
    return mk_none()


# ------------------------------------------------------------------------------------------------ Ratio<i32>
def ratio(n, d): return Agg('Ratio', None, [n, d])


def divisors(c):
    c = abs(c)
    small = [d for d in range(1, math.isqrt(c) + 1) if c % d == 0]
    return sorted(set(small + [c // d for d in small]), reverse=True)


def gcd32(it, x, y, w=32):
    """num-integer gcd on i32 / i64: non-negative; one side must be concrete (divisor case split)"""
    if not is_sym(x) and not is_sym(y):
        return math.gcd(x, y)
    if is_sym(x) and is_sym(y):
        try:
            y = it.concretize(y, limit=16)          # tiny domains only (e.g. a one-digit literal)
        except Unsupported:
            raise Unsupported('gcd of two symbolic integers (use a concrete denominator / divisor palette)')
        if y >= 1 << (w - 1): y -= 1 << w
        return gcd32(it, x, y, w)
    s, c = (x, y) if is_sym(x) else (y, x)
    if c == 0:
        # gcd(x, 0) = |x|
        if it.branch(s == -(1 << (w - 1))):
            if it.overflow_checks: raise Panic('gcd: abs overflow', 'overflow')
            return -(1 << (w - 1))
        return z3.If(s < 0, -s, s)
    ac = abs(c)
    if ac & (ac - 1) == 0:
        # power of two: gcd(x, 2^k) = 2^min(k, trailing zeros of x) -- bit tests only
        k = ac.bit_length() - 1
        for j in range(k, 0, -1):
            if it.branch(z3.Extract(j - 1, 0, s) == 0): return 1 << j
        return 1
    # fork over the divisors of c (largest first): every later division is then by a constant
    for d in divisors(c):
        if d == 1: return 1
        q, r = div_lemma(it, s, d)
        if it.branch(r == 0): return d
    return 1


def i32_checked(it, op, a, b, ty='i32'):
    r = it.overflow_op(op, a, b, ty)
    if it.branch(r.f[1]):
        it.ghost['ratio_intermediate_overflow'] = True       # lets oracles name the recorded class of C08
        return None
    return r.f[0]


_DIVN = [0]


def div_lemma(it, a, b):
    """a / b and a % b (truncating) for symbolic a and CONCRETE b != 0, through the division lemma instead of a
    divider circuit: fresh q, r with  a = q*b + r,  |r| < |b|,  r = 0 or sign(r) = sign(a)  (unique solution)."""
    cache = it.ghost.setdefault('_divlemma', {})
    ck = (a.get_id(), b)
    if ck in cache: return cache[ck][1], cache[ck][2]
    _DIVN[0] += 1
    k = len(it.taken)
    w = a.size()
    q = z3.BitVec('divq_%d_%d' % (k, it.fresh_n), w); r = z3.BitVec('divr_%d_%d' % (k, it.fresh_n), w)
    it.fresh_n += 1
    e = lambda v: z3.SignExt(w, v)
    B = z3.BitVecVal(b, 2 * w)
    absb = abs(b)
    it.assume(z3.And(e(a) == e(q) * B + e(r), z3.If(r < 0, -e(r), e(r)) < absb, z3.Or(r == 0, (r < 0) == (a < 0))))
    cache[ck] = (a, q, r)          # keeps `a` alive so that its ast id is not recycled
    return q, r


def i32_op(it, op, a, b, ty='i32'):
    if op in ('Div', 'Rem') and is_sym(a) and not is_sym(b) and b not in (0, -1):
        if abs(b) & (abs(b) - 1) == 0:
            return it.binop(op, a, b, ty)          # power of two: the native operator is cheap (shifts)
        q, r = div_lemma(it, a, b)
        return q if op == 'Div' else r
    """plain (panicking in debug / wrapping in release) i32 arithmetic inside num-rational"""
    if op in ('Add', 'Sub', 'Mul'):
        r = it.overflow_op(op, a, b, ty)
        if it.overflow_checks and it.branch(r.f[1]): raise Panic('attempt to %s with overflow (num-rational)' % op.lower(), 'overflow')
        return r.f[0]
    if op in ('Div', 'Rem'):
        if it.branch(it.binop('Eq', b, 0, ty)): raise Panic('attempt to divide by zero (num-rational)', 'div-zero')
        if it.branch(it.binop('Eq', a, -(1 << (INT_TYPES[ty][0] - 1)), ty)) and it.branch(it.binop('Eq', b, -1, ty)):
            raise Panic('attempt to divide with overflow (num-rational)', 'overflow')
        return it.binop(op, a, b, ty)
    raise Unsupported(op)


def ratio_new(it, n, d, ty='i32'):
    """Ratio::new: reduce to lowest terms with denom > 0"""
    if it.branch(it.binop('Eq', d, 0, ty)): raise Panic('denominator == 0', 'ratio')
    if it.branch(it.binop('Eq', n, 0, ty)): return ratio(0, 1)
    if it.branch(it.binop('Eq', n, d, ty)): return ratio(1, 1)
    g = gcd32(it, n, d, INT_TYPES[ty][0])
    n2 = i32_op(it, 'Div', n, g, ty); d2 = i32_op(it, 'Div', d, g, ty)
    if it.branch(it.binop('Lt', d2, 0, ty)):
        n2 = i32_op(it, 'Sub', 0, n2, ty); d2 = i32_op(it, 'Sub', 0, d2, ty)
    return ratio(simp(n2), simp(d2))


def simp(v): return z3.simplify(v) if is_sym(v) else v


def ratio_checked_addsub(it, op, a, b):
    (an, ad), (bn, bd) = a.f, b.f
    g = gcd32(it, ad, bd)
    lcm = i32_checked(it, 'Mul', i32_op(it, 'Div', ad, g), bd)
    if lcm is None: return None
    ln = i32_checked(it, 'Mul', i32_op(it, 'Div', lcm, ad), an)
    if ln is None: return None
    rn = i32_checked(it, 'Mul', i32_op(it, 'Div', lcm, bd), bn)
    if rn is None: return None
    s = i32_checked(it, op, ln, rn)
    if s is None: return None
    return ratio_new(it, s, lcm)


def ratio_checked_mul(it, a, b):
    (an, ad), (bn, bd) = a.f, b.f
    g_ad = gcd32(it, an, bd); g_bc = gcd32(it, ad, bn)
    n = i32_checked(it, 'Mul', i32_op(it, 'Div', an, g_ad), i32_op(it, 'Div', bn, g_bc))
    if n is None: return None
    d = i32_checked(it, 'Mul', i32_op(it, 'Div', ad, g_bc), i32_op(it, 'Div', bd, g_ad))
    if d is None: return None
    return ratio_new(it, n, d)


def ratio_checked_div(it, a, b):
    (an, ad), (bn, bd) = a.f, b.f
    if it.branch(it.binop('Eq', bn, 0, 'i32')): return None
    if it.branch(it.binop('Eq', ad, bd, 'i32')):
        n, d = an, bn
    elif it.branch(it.binop('Eq', an, bn, 'i32')):
        n, d = bd, ad
    else:
        g_ac = gcd32(it, an, bn); g_bd = gcd32(it, ad, bd)
        n = i32_checked(it, 'Mul', i32_op(it, 'Div', an, g_ac), i32_op(it, 'Div', bd, g_bd))
        if n is None: return None
        d = i32_checked(it, 'Mul', i32_op(it, 'Div', ad, g_bd), i32_op(it, 'Div', bn, g_ac))
        if d is None: return None
    if it.branch(it.binop('Eq', d, 0, 'i32')): return None
    if it.branch(it.binop('Eq', n, 0, 'i32')): return ratio(0, 1)
    if it.branch(it.binop('Eq', n, d, 'i32')): return ratio(1, 1)
    g = gcd32(it, n, d)
    n = i32_op(it, 'Div', n, g); d = i32_op(it, 'Div', d, g)
    if it.branch(it.binop('Lt', d, 0, 'i32')):
        n = i32_checked(it, 'Mul', n, -1)
        if n is None: return None
        d = i32_checked(it, 'Mul', d, -1)
        if d is None: return None
    return ratio(simp(n), simp(d))


def ratio_arith(it, op, a, b, ty='i32'):
    """num-rational arith_impl! (Add / Sub / Rem on Ratio<T>): UNCHECKED arithmetic in T (panics on overflow in debug builds)"""
    (an, ad), (bn, bd) = a.f, b.f
    w = INT_TYPES[ty][0]
    if it.branch(it.binop('Eq', ad, bd, ty)):
        return ratio_new(it, i32_op(it, op, an, bn, ty), bd, ty)
    g = gcd32(it, ad, bd, w)
    # lcm = (ad * (bd / g)).abs()
    l = i32_op(it, 'Mul', ad, i32_op(it, 'Div', bd, g, ty), ty)
    if it.branch(it.binop('Lt', l, 0, ty)): l = i32_op(it, 'Sub', 0, l, ty)
    ln = i32_op(it, 'Mul', an, i32_op(it, 'Div', l, ad, ty), ty)
    rn = i32_op(it, 'Mul', bn, i32_op(it, 'Div', l, bd, ty), ty)
    return ratio_new(it, i32_op(it, op, ln, rn, ty), l, ty)


def ratio_cmp(it, a, b):
    """exact comparison (the contract of num-rational's Ord, whose algorithm avoids overflow)"""
    (an, ad), (bn, bd) = a.f, b.f
    if not any(is_sym(x) for x in (an, ad, bn, bd)):
        l, r = Fraction(an, ad), Fraction(bn, bd)
        return -1 if l < r else (0 if l == r else 1)
    e = lambda v: z3.SignExt(32, it.to_bv(v, 32))
    l, r = e(an) * e(bd), e(bn) * e(ad)
    # denominators may be negative in raw ratios: flip when exactly one is negative
    flip = z3.Xor(e(ad) < 0, e(bd) < 0)
    lt = z3.If(flip, l > r, l < r)
    if it.branch(lt): return -1
    if it.branch(l == r): return 0
    return 1


def ratio_to_f64(it, a):
    n, d = a.f
    if not is_sym(n) and not is_sym(d):
        fr = Fraction(n, d)
        return fr.numerator / fr.denominator if True else None
    f = lambda v: z3.fpSignedToFP(z3.RNE(), it.to_bv(v, 32), z3.Float64())
    return z3.fpDiv(z3.RNE(), f(n), f(d))


def install(prog):
    M = prog.model
    INT = r'(i8|i16|i32|i64|isize|u8|u16|u32|u64|usize|i128|u128)'

    # ---- BigInt ---------------------------------------------------------------------------------
    @M(r'<BigInt as From<' + INT + r'>>::from|<' + INT + r' as Into<BigInt>>::into')
    def _(it, m, a): return to_big(it, a[0], m.group(1) or m.group(2))

    @M(r'<(&?)BigInt as (Add|Sub|Mul|Div|Rem)(?:<(&?)(BigInt|i64|i32|u32|u64|usize)>)?>::\w+')
    def _(it, m, a):
        x = deref(a[0]); y = deref(a[1])
        rt = m.group(4) or 'BigInt'
        yb = y if isinstance(y, Big) else to_big(it, y, rt)
        return big_op(it, m.group(2), x, yb)

    @M(r'<(&?)(i64|i32) as (Add|Sub|Mul|Div|Rem)<(&?)BigInt>>::\w+')
    def _(it, m, a):
        return big_op(it, m.group(3), to_big(it, a[0], m.group(2)), deref(a[1]))

    @M(r'<BigInt as PartialOrd>::partial_cmp|<BigInt as Ord>::cmp')
    def _(it, m, a):
        o = mk_ordering(big_cmp(it, deref(a[0]), deref(a[1])))
        return mk_some(o) if 'partial_cmp' in m.group(0) else o

    @M(r'<BigInt as PartialOrd>::(lt|le|gt|ge)')
    def _(it, m, a):
        c = big_cmp(it, deref(a[0]), deref(a[1]))
        return {'lt': c < 0, 'le': c <= 0, 'gt': c > 0, 'ge': c >= 0}[m.group(1)]
    # the generic `<T as PartialOrd>::lt` fall-back of models_core is registered earlier: exact entries take precedence
    for _k in ('lt', 'le', 'gt', 'ge'):
        prog.exact['<BigInt as PartialOrd>::' + _k] = (lambda k: lambda it, m, a: {'lt': lambda c: c < 0, 'le': lambda c: c <= 0, 'gt': lambda c: c > 0, 'ge': lambda c: c >= 0}[k](big_cmp(it, deref(a[0]), deref(a[1]))))(_k)

    @M(r'<Ratio<(i32|BigInt)> as (?:num::|num_traits::)?FromPrimitive>::from_f64')
    def _(it, m, a):
        """continued-fraction approximation of a double: None for NaN / infinities / out of range, else SOME reduced ratio
        (its value is not modelled: fresh numerator and positive denominator)"""
        x = deref(a[0])
        it.fresh_n += 1
        tag = '%d_%d' % (len(it.taken), it.fresh_n)
        if is_sym(x):
            if it.branch(z3.Or(z3.fpIsNaN(x), z3.fpIsInf(x))): return mk_none()
        elif x != x or x in (float('inf'), float('-inf')): return mk_none()
        if it.choose(2) == 1: return mk_none()                   # not representable in the target type
        if m.group(1) == 'i32':
            n = z3.BitVec('fromf64_n_' + tag, 32); d = z3.BitVec('fromf64_d_' + tag, 32)
            it.assume(d > 0)
            return mk_some(ratio(n, d))
        n = z3.BitVec('fromf64_n_' + tag, BW); d = z3.BitVec('fromf64_d_' + tag, BW)
        it.assume(z3.And(d > 0, d <= (1 << 66), n >= -(1 << 66), n <= (1 << 66)))
        return mk_some(Agg('BigRatio', None, [Big(n), Big(d)]))

    @M(r'Ratio::<BigInt>::(numer|denom)')
    def _(it, m, a):
        r = deref(a[0])
        return Ref(Cell(r.f[0 if m.group(1) == 'numer' else 1]))

    @M(r'<BigInt as PartialEq>::(eq|ne)|<&?Rc<BigInt> as PartialEq>::(eq|ne)')
    def _(it, m, a):
        c = big_cmp(it, deref(a[0]), deref(a[1])) == 0
        return c if (m.group(1) or m.group(2)) == 'eq' else not c

    @M(r'<BigInt as (?:num::|num_traits::)?ToPrimitive>::to_f64')
    def _(it, m, a): return mk_some(big_to_f64(it, deref(a[0])))

    @M(r'<BigInt as (?:num::|num_traits::)?ToPrimitive>::to_(i32|i64|u32|u64|usize|i128)')
    def _(it, m, a): return big_fits(it, deref(a[0]), m.group(1))

    @M(r'<BigInt as Signed>::abs')
    def _(it, m, a):
        x = deref(a[0]).v
        if not is_sym(x): return Big(abs(x))
        return Big(z3.If(x < 0, -x, x))

    @M(r'<BigInt as Signed>::(is_negative|is_positive)|BigInt::(is_negative|is_positive)')
    def _(it, m, a):
        x = deref(a[0]).v; k = m.group(1) or m.group(2)
        if not is_sym(x): return x < 0 if k == 'is_negative' else x > 0
        return (x < 0) if k == 'is_negative' else (x > 0)

    @M(r'BigInt::bits')
    def _(it, m, a):
        """number of bits of the magnitude (0 for zero)"""
        x = deref(a[0]).v
        if not is_sym(x): return abs(x).bit_length()
        mag = z3.If(x < 0, -x, x)
        r = z3.BitVecVal(0, 64)
        for k in range(0, 70):                      # the bignum model is bounded by 2^66
            r = z3.If(z3.Extract(k, k, mag) == 1, z3.BitVecVal(k + 1, 64), r)
        return z3.simplify(r)

    @M(r'<BigInt as Clone>::clone')
    def _(it, m, a): return Big(deref(a[0]).v)

    @M(r'<BigInt as Zero>::is_zero|BigInt::is_zero')
    def _(it, m, a):
        x = deref(a[0]).v
        return x == 0

    @M(r'BigInt::pow|<BigInt as Pow<u32>>::pow|<&BigInt as Pow<u32>>::pow')
    def _(it, m, a):
        x = deref(a[0]); e = a[1]
        if is_sym(e): e = it.concretize(e)
        if is_sym(x.v):
            if e > 2: raise Unsupported('symbolic BigInt::pow with exponent %d' % e)
            acc = Big(1)
            for _ in range(e): acc = big_op(it, 'Mul', acc, x)
            return acc
        if e > 100000: raise Unsupported('BigInt::pow with exponent %d' % e)
        return Big(x.v ** e)

    # ---- Ratio<i32> -----------------------------------------------------------------------------
    @M(r'Ratio::<i32>::from_integer|<Ratio<i32> as From<i32>>::from')
    def _(it, m, a): return ratio(a[0], 1)

    @M(r'<&?Ratio<(i32|i64)> as (Add|Sub|Rem)(?:<&?Ratio<(?:i32|i64)>>)?>::(?:add|sub|rem)')
    def _(it, m, a): return ratio_arith(it, m.group(2), deref(a[0]), deref(a[1]), m.group(1))

    @M(r'<&?Ratio<(i32|i64)> as Div(?:<&?Ratio<(?:i32|i64)>>)?>::div')
    def _(it, m, a):
        # num-rational Div: unchecked; Ratio::new(an/g_ac * (bd/g_bd), ad/g_bd * (bn/g_ac))
        ty = m.group(1); w = INT_TYPES[ty][0]
        (an, ad), (bn, bd) = deref(a[0]).f, deref(a[1]).f
        g_ac = gcd32(it, an, bn, w); g_bd = gcd32(it, ad, bd, w)
        n = i32_op(it, 'Mul', i32_op(it, 'Div', an, g_ac, ty), i32_op(it, 'Div', bd, g_bd, ty), ty)
        d = i32_op(it, 'Mul', i32_op(it, 'Div', ad, g_bd, ty), i32_op(it, 'Div', bn, g_ac, ty), ty)
        return ratio_new(it, n, d, ty)

    @M(r'Ratio::<i64>::from_integer|<Ratio<i64> as From<i64>>::from')
    def _(it, m, a): return ratio(a[0], 1)

    @M(r'<Ratio<i64> as From<\(i64, i64\)>>::from')
    def _(it, m, a): return ratio_new(it, a[0].f[0], a[0].f[1], 'i64')

    @M(r'Ratio::<(i32|i64)>::new')
    def _(it, m, a): return ratio_new(it, a[0], a[1], m.group(1))

    @M(r'Ratio::<i(?:32|64)>::new_raw')
    def _(it, m, a): return ratio(a[0], a[1])

    @M(r'<Ratio<i32> as From<\(i32, i32\)>>::from')
    def _(it, m, a): return ratio_new(it, a[0].f[0], a[0].f[1])

    @M(r'Ratio::<i(?:32|64)>::(numer|denom)')
    def _(it, m, a):
        r = a[0]
        while isinstance(r, Ref) and isinstance(r.get(), Ref): r = r.get()
        return r.sub(0 if m.group(1) == 'numer' else 1)

    @M(r'Ratio::<(i32|i64)>::is_integer')
    def _(it, m, a): return it.binop('Eq', deref(a[0]).f[1], 1, m.group(1))

    @M(r'Ratio::<(i32|i64)>::(to_integer|trunc)')
    def _(it, m, a):
        n, d = deref(a[0]).f
        q = i32_op(it, 'Div', n, d, m.group(1))
        return q if m.group(2) == 'to_integer' else ratio(q, 1)

    @M(r'Ratio::<i32>::(to_integer_unused)')
    def _(it, m, a):
        n, d = deref(a[0]).f
        q = i32_op(it, 'Div', n, d)
        return q if m.group(1) == 'to_integer' else ratio(q, 1)

    @M(r'Ratio::<i32>::(floor|ceil)')
    def _(it, m, a):
        n, d = deref(a[0]).f
        neg = it.branch(it.binop('Lt', n, 0, 'i32'))       # denom > 0 by the representation invariant
        if (m.group(1) == 'floor') == neg:
            if m.group(1) == 'floor': t = i32_op(it, 'Add', i32_op(it, 'Sub', n, d), 1)
            else: t = i32_op(it, 'Sub', i32_op(it, 'Add', n, d), 1)
            return ratio(i32_op(it, 'Div', t, d), 1)
        return ratio(i32_op(it, 'Div', n, d), 1)

    @M(r'Ratio::<i32>::round')
    def _(it, m, a):
        n, d = deref(a[0]).f
        fr = i32_op(it, 'Rem', n, d)
        if it.branch(it.binop('Lt', fr, 0, 'i32')): fr = i32_op(it, 'Sub', 0, fr)
        even = it.branch(it.binop('Eq', it.binop('BitAnd', d, 1, 'i32'), 0, 'i32'))
        half = i32_op(it, 'Div', d, 2)
        ge = it.branch(it.binop('Ge', fr, half if even else i32_op(it, 'Add', half, 1), 'i32'))
        t = i32_op(it, 'Div', n, d)
        if not ge: return ratio(t, 1)
        if it.branch(it.binop('Ge', n, 0, 'i32')): return ratio(i32_op(it, 'Add', t, 1), 1)
        return ratio(i32_op(it, 'Sub', t, 1), 1)

    @M(r'<Ratio<i32> as Signed>::abs')
    def _(it, m, a):
        n, d = deref(a[0]).f
        if it.branch(it.binop('Lt', n, 0, 'i32')): return ratio(i32_op(it, 'Sub', 0, n), d)
        return ratio(n, d)

    @M(r'<Ratio<i32> as Checked(Add|Sub)>::checked_(?:add|sub)')
    def _(it, m, a):
        r = ratio_checked_addsub(it, m.group(1), deref(a[0]), deref(a[1]))
        return mk_none() if r is None else mk_some(r)

    @M(r'<Ratio<i32> as CheckedMul>::checked_mul')
    def _(it, m, a):
        r = ratio_checked_mul(it, deref(a[0]), deref(a[1]))
        return mk_none() if r is None else mk_some(r)

    @M(r'<Ratio<i32> as CheckedDiv>::checked_div')
    def _(it, m, a):
        r = ratio_checked_div(it, deref(a[0]), deref(a[1]))
        return mk_none() if r is None else mk_some(r)

    @M(r'<&*Ratio<i32> as PartialOrd(?:<&*Ratio<i32>>)?>::partial_cmp|<&*Ratio<i32> as Ord>::cmp')
    def _(it, m, a):
        o = mk_ordering(ratio_cmp(it, deref(a[0]), deref(a[1])))
        return mk_some(o) if 'partial_cmp' in m.group(0) else o

    @M(r'<&*Ratio<i32> as PartialEq(?:<&*Ratio<i32>>)?>::(eq|ne)')
    def _(it, m, a):
        c = ratio_cmp(it, deref(a[0]), deref(a[1])) == 0
        return c if m.group(1) == 'eq' else not c

    @M(r'<Ratio<i32> as (?:num::|num_traits::)?ToPrimitive>::to_f64')
    def _(it, m, a): return mk_some(ratio_to_f64(it, deref(a[0])))

    @M(r'<Ratio<i32> as (?:num::|num_traits::)?ToPrimitive>::to_(i64|u64|usize|u32|i32)')
    def _(it, m, a):
        n, d = deref(a[0]).f
        q = i32_op(it, 'Div', n, d)
        ty = m.group(1)
        w, sg = INT_TYPES[ty]
        if sg:
            return mk_some(z3.SignExt(w - 32, q) if is_sym(q) and w > 32 else q)
        if it.branch(it.binop('Lt', q, 0, 'i32')): return mk_none()
        return mk_some(z3.ZeroExt(w - 32, q) if is_sym(q) and w > 32 else q)

    @M(r'<Ratio<i32> as Clone>::clone')
    def _(it, m, a):
        r = deref(a[0]); return ratio(r.f[0], r.f[1])
