"""Run-time values of the MIR interpreter.

scalars : python int / bool / float when concrete, z3 BitVecRef / BoolRef / FPRef when symbolic
Agg     : struct / tuple / enum value; enum discriminant `var` is concrete on every path
Cell    : a mutable storage location (a local, a Box/Rc allocation)
Ref     : (cell, path) -- a Rust reference or raw pointer to a place
list    : contents of a Vec / array / slice backing store
StrObj  : a String / str backing store: list of (code point, utf-8 width); width concrete on every path
"""
import z3


class Panic(Exception):
    """the Rust code panics on this path (assert terminator, unwrap, index, RefCell, explicit panic!)"""
    def __init__(s, msg, kind='panic'):
        Exception.__init__(s, msg)
        s.kind = kind


class Unsupported(Exception):
    """construct or callee without a model: the check is inconclusive (exit 2), never a verdict"""


class Infeasible(Exception):
    """the path condition became unsatisfiable (harness assumption)"""


class StepLimit(Exception):
    """per-path step budget exceeded: possible non-termination"""


class Cell:
    __slots__ = ('v',)
    def __init__(s, v=None):
        s.v = v
    def __repr__(s):
        return 'Cell(%r)' % (s.v,)


class Agg:
    __slots__ = ('ty', 'var', 'f')
    def __init__(s, ty, var, f):
        s.ty, s.var, s.f = ty, var, f if isinstance(f, list) else list(f)
    def __repr__(s):
        if s.var is not None:
            return '%s#%s%r' % (s.ty, s.var, s.f)
        return '%s%r' % (s.ty, s.f)


class Ref:
    __slots__ = ('cell', 'path')
    def __init__(s, cell, path=()):
        s.cell, s.path = cell, path
    def get(s):
        v = s.cell.v
        for p in s.path:
            v = v.f[p] if type(v) is Agg else v[p]
        return v
    def set(s, val):
        if not s.path:
            s.cell.v = val
            return
        v = s.cell.v
        for p in s.path[:-1]:
            v = v.f[p] if type(v) is Agg else v[p]
        if type(v) is Agg:
            v.f[s.path[-1]] = val
        else:
            v[s.path[-1]] = val
    def sub(s, i):
        return Ref(s.cell, s.path + (i,))
    def same(s, o):
        return isinstance(o, Ref) and s.cell is o.cell and s.path == o.path
    def __repr__(s):
        return 'Ref(%x%r)' % (id(s.cell) & 0xffff, s.path)


class SliceRef:
    """&[T] / &mut [T]: a window [lo, hi) of a python list reachable through `lref`"""
    __slots__ = ('lref', 'lo', 'hi')
    def __init__(s, lref, lo, hi):
        s.lref, s.lo, s.hi = lref, lo, hi
    def lst(s):
        return s.lref.get()
    def __len__(s):
        return s.hi - s.lo
    def elem(s, i):
        return s.lref.sub(s.lo + i)
    def __repr__(s):
        return 'Slice(%r,%d..%d)' % (s.lref, s.lo, s.hi)


class StrObj:
    """chars: list of (code point, utf-8 width); code point int or BitVec(32)"""
    __slots__ = ('chars',)
    def __init__(s, chars):
        s.chars = chars
    def __repr__(s):
        return 'Str(%s)' % show_chars(s.chars)


class StrRef:
    """&str: char index range [a, b) of a StrObj"""
    __slots__ = ('obj', 'a', 'b')
    def __init__(s, obj, a=0, b=None):
        s.obj, s.a, s.b = obj, a, len(obj.chars) if b is None else b
    def chars(s):
        return s.obj.chars[s.a:s.b]
    def bytelen(s):
        return sum(w for _, w in s.obj.chars[s.a:s.b])
    def __repr__(s):
        return '&Str(%s)' % show_chars(s.chars())


def show_chars(chars):
    out = ''
    for c, _ in chars:
        out += chr(c) if isinstance(c, int) else '<%s>' % c
    return out


def mkstr(text):
    return StrObj([(ord(c), len(c.encode('utf-8'))) for c in text])


def utf8_width(cp):
    return 1 if cp < 0x80 else 2 if cp < 0x800 else 3 if cp < 0x10000 else 4


UNIT = Agg('()', None, [])


def is_sym(v):
    return isinstance(v, z3.ExprRef)


def mk_some(v):
    return Agg('Option', 1, [v])


def mk_none():
    return Agg('Option', 0, [])


def mk_ok(v):
    return Agg('Result', 0, [v])


def mk_err(v):
    return Agg('Result', 1, [v])


ORD = {'Less': -1, 'Equal': 0, 'Greater': 1}


def mk_ordering(k):
    return Agg('Ordering', k, [])


INT_TYPES = {'u8': (8, 0), 'u16': (16, 0), 'u32': (32, 0), 'u64': (64, 0), 'usize': (64, 0), 'u128': (128, 0),
             'i8': (8, 1), 'i16': (16, 1), 'i32': (32, 1), 'i64': (64, 1), 'isize': (64, 1), 'i128': (128, 1),
             'char': (32, 0), 'bool': (1, 0)}


def wrap_int(x, w, signed):
    x &= (1 << w) - 1
    if signed and x >> (w - 1):
        x -= 1 << w
    return x
