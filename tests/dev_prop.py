"""dev helper: run selected harness plans of a property module quickly.  usage: dev_prop.py c11 'lambda m,prog: m.make_parser_harness(prog,2,None)' """
import sys, os
sys.path.insert(0, '/verif'); sys.setrecursionlimit(20000)
from vlib import core
from mirsym.explore import explore
import importlib
mod = importlib.import_module('props.' + sys.argv[1])
ws = core.Workspace(); prog = core.load_program(ws)
dev = core.Replay(ws, 'dev')
from props import textgen
textgen.load_chartable(prog, dev)
SCAN = prog.resolve_crate('lex::scan')
prog.observers[SCAN] = lambda it, args, r: it.ghost.setdefault('scan', []).append(r)
for n_ in ('is_initial_identifier', 'is_subsequent_identifier', 'is_subsequent_number', 'is_initial_number', 'is_special_subsequent'):
    prog.pure.add(prog.resolve_crate(n_))
if hasattr(mod, 'install_stubs'): mod.install_stubs(prog)
if hasattr(mod, 'setup'): mod.setup(prog, dev)
h = eval(sys.argv[2])(mod, prog)
on_panic = None
if isinstance(h, tuple): h, on_panic = h
res = explore(prog, h, nproc=int(os.environ.get('J', '1')), opts={'on_panic': on_panic} if on_panic else {})
for k, v in res.unsupported.most_common(12): print('UNSUP', v, k)
for e in res.errors[:2]: print(e)
for v in res.violations[:8]: print('VIOL', {k: x for k, x in v.items() if k != 'decisions'})
print(dict(res.tags))
dev.close()
