import sys, time
sys.path.insert(0, '/verif')
import z3
from mirsym.interp import Program, Interp
from mirsym import models_core
from mirsym.values import *
from mirsym.explore import explore

prog = Program(open('/tmp/scratch/marwood.mir').read(), '/repo/marwood/src')
models_core.install(prog)
prog.pure |= {prog.resolve_crate(n) for n in ('is_initial_identifier','is_subsequent_identifier','is_subsequent_number','is_initial_number','is_special_subsequent')}
print(prog.pure)
n = int(sys.argv[1])
def harness(it):
    chars = [it.sym_char('c%d' % i, 1) for i in range(n)]
    text = StrRef(StrObj([(c, 1) for c in chars]), 0, n)
    r = it.call(prog.resolve_crate('lex::scan'), [text])
    if r.var != 0: return None
    prev = 0
    for t in r.f[0]:
        a, b = t.f[0].f
        if not (a < b and b <= n and a >= prev): return {'bad span': (a, b)}
        prev = b
    return None
res = explore(prog, harness, nproc=int(sys.argv[2]) if len(sys.argv) > 2 else 1)
print(res.unsupported, res.violations[:3], res.errors[:2])
